package main

// Section "text": base64, urlencode/rawurlencode, bin2hex, md5, hash — encoders against the
// Go references, the matching script decoders as exact inverses, and totality of the text
// decoders on arbitrary bytes.

import (
	"crypto/md5"
	"crypto/sha1"
	"crypto/sha256"
	"crypto/sha3"
	"crypto/sha512"
	"encoding/base64"
	"encoding/hex"
	"fmt"
	"net/url"
	"sort"
	"strings"

	"github.com/php-any/origami/data"
)

func sv(s string) data.Value { return data.NewStringValue(s) }

// asStr extracts a string result.
func asStr(r CallResult) (string, bool) {
	if !r.HasVal {
		return "", false
	}
	s, ok := r.Val.(*data.StringValue)
	if !ok {
		return "", false
	}
	return s.Value, true
}

func describe(r CallResult) string {
	switch {
	case r.Panic != nil:
		return fmt.Sprintf("Go panic: %v", r.Panic)
	case r.Thrown:
		return "threw: " + r.ThrownMsg
	case r.Other != "":
		return r.Other
	case r.HasVal:
		if v, w := fromData(r.Val); w == "" {
			s := v.String()
			if len(s) > 200 {
				s = s[:200] + "…"
			}
			return s
		}
		return fmt.Sprintf("%T", r.Val)
	}
	return "nothing"
}

var hashRefs = map[string]func([]byte) []byte{
	"md5":        func(b []byte) []byte { x := md5.Sum(b); return x[:] },
	"sha1":       func(b []byte) []byte { x := sha1.Sum(b); return x[:] },
	"sha224":     func(b []byte) []byte { x := sha256.Sum224(b); return x[:] },
	"sha256":     func(b []byte) []byte { x := sha256.Sum256(b); return x[:] },
	"sha384":     func(b []byte) []byte { x := sha512.Sum384(b); return x[:] },
	"sha512":     func(b []byte) []byte { x := sha512.Sum512(b); return x[:] },
	"sha512/224": func(b []byte) []byte { x := sha512.Sum512_224(b); return x[:] },
	"sha512/256": func(b []byte) []byte { x := sha512.Sum512_256(b); return x[:] },
	"sha3-224":   func(b []byte) []byte { x := sha3.Sum224(b); return x[:] },
	"sha3-256":   func(b []byte) []byte { x := sha3.Sum256(b); return x[:] },
	"sha3-384":   func(b []byte) []byte { x := sha3.Sum384(b); return x[:] },
	"sha3-512":   func(b []byte) []byte { x := sha3.Sum512(b); return x[:] },
}

type textSec struct {
	w *Worker
	b *Bridge
	// bytes that the single-byte pass found unsafe per oracle; longer strings containing them
	// are not judged by that oracle again (the cell is reported once, by its own key)
	unsafe map[string]map[byte]bool
}

func (t *textSec) crash(fn string, r CallResult, in string) bool {
	if r.Panic != nil {
		t.w.Violation(fn+":"+panicKey(r), fmt.Sprintf("%s(%q) panics in Go: %v", fn, in, r.Panic), "bin", []byte(in))
		return true
	}
	if r.Other != "" {
		t.w.Violation(fn+":no-result", fmt.Sprintf("%s(%q): %s", fn, in, r.Other), "bin", []byte(in))
		return true
	}
	return false
}

// queryReads: enc placed as key and as value of a query component is read back as s by
// net/url, without disturbing its neighbours.
func queryReads(enc, s string) bool {
	u, err := url.Parse("http://h/p?" + enc + "=" + enc + "&z=1#frag")
	if err != nil || u.Fragment != "frag" || u.Path != "/p" {
		return false
	}
	q, err := url.ParseQuery(u.RawQuery)
	if err != nil || len(q) != 2 && !(s == "z") {
		return false
	}
	if s == "z" {
		return len(q["z"]) == 2
	}
	return len(q[s]) == 1 && q[s][0] == s && len(q["z"]) == 1 && q["z"][0] == "1"
}

// pathReads: enc placed as a path segment is read back as s.
func pathReads(enc, s string) bool {
	u, err := url.Parse("http://h/a/" + enc + "/b?q=1#f")
	if err != nil {
		return false
	}
	return u.Path == "/a/"+s+"/b" && u.RawQuery == "q=1" && u.Fragment == "f"
}

func (t *textSec) judge(oracle string, s string, ok bool, what string) {
	if ok {
		return
	}
	if len(s) == 1 {
		if t.unsafe[oracle] == nil {
			t.unsafe[oracle] = map[byte]bool{}
		}
		t.unsafe[oracle][s[0]] = true
		return // reported once per oracle after the single-byte pass
	}
	for i := 0; i < len(s); i++ {
		if t.unsafe[oracle][s[i]] {
			t.w.Count("skipped_known_unsafe_byte", 1)
			return
		}
	}
	t.w.Violation(oracle+":"+sig(vStr(shrinkStr(s, func(x string) bool { return !t.recheck(oracle, x) }))), what, "bin", []byte(s))
}

// recheck re-evaluates one oracle on x (used by the string shrinker); true = holds.
func (t *textSec) recheck(oracle, x string) bool {
	fn, kind, _ := strings.Cut(oracle, ":")
	r := t.b.Call(fn+"(verif_in(0))", sv(x))
	enc, ok := asStr(r)
	if !ok {
		return false
	}
	switch kind {
	case "query-unsafe":
		return queryReads(enc, x)
	case "path-unsafe":
		return pathReads(enc, x)
	}
	return true
}

func shrinkStr(s string, fails func(string) bool) string {
	v := shrink(vStr(s), func(c *V) bool { return c.K == KStr && fails(c.S) })
	return v.S
}

func (t *textSec) encoders(s string) {
	w, b := t.w, t.b
	nontrivial := false

	// base64
	r := b.Call("base64_encode(verif_in(0))", sv(s))
	if !t.crash("base64_encode", r, s) {
		enc, ok := asStr(r)
		dec, err := base64.StdEncoding.DecodeString(enc)
		if !ok || err != nil || string(dec) != s {
			w.Violation("base64_encode:reference-reads-differently:"+sig(vStr(shrinkStr(s, func(x string) bool {
				e, ok := asStr(b.Call("base64_encode(verif_in(0))", sv(x)))
				d, err := base64.StdEncoding.DecodeString(e)
				return !ok || err != nil || string(d) != x
			}))), fmt.Sprintf("base64_encode(%q) = %s; encoding/base64 reads %q (err %v)", s, describe(r), dec, err), "bin", []byte(s))
		} else {
			nontrivial = true
			r2 := b.Call("base64_decode(verif_in(0))", sv(enc))
			if !t.crash("base64_decode", r2, enc) {
				if d2, ok := asStr(r2); !ok || d2 != s {
					w.Violation("base64_decode:not-inverse:"+sig(vStr(shrinkStr(s, func(x string) bool {
						d, ok := asStr(b.Call("base64_decode(verif_in(0))", sv(base64.StdEncoding.EncodeToString([]byte(x)))))
						return !ok || d != x
					}))), fmt.Sprintf("base64_decode(base64_encode(%q)) = %s", s, describe(r2)), "bin", []byte(s))
				}
			}
			r3 := b.Call("base64_decode(verif_in(0), true)", sv(enc))
			if !t.crash("base64_decode", r3, enc) {
				if d3, ok := asStr(r3); !ok || d3 != s {
					w.Violation("base64_decode:strict-not-inverse:"+sig(vStr(s)), fmt.Sprintf("base64_decode(base64_encode(%q), true) = %s", s, describe(r3)), "bin", []byte(s))
				}
			}
		}
	}

	// bin2hex
	r = b.Call("bin2hex(verif_in(0))", sv(s))
	if !t.crash("bin2hex", r, s) {
		enc, ok := asStr(r)
		dec, err := hex.DecodeString(enc)
		if !ok || err != nil || string(dec) != s || enc != strings.ToLower(enc) {
			w.Violation("bin2hex:reference-reads-differently:"+sig(vStr(shrinkStr(s, func(x string) bool {
				e, ok := asStr(b.Call("bin2hex(verif_in(0))", sv(x)))
				d, err := hex.DecodeString(e)
				return !ok || err != nil || string(d) != x || e != strings.ToLower(e)
			}))), fmt.Sprintf("bin2hex(%q) = %s; encoding/hex reads %q (err %v)", s, describe(r), dec, err), "bin", []byte(s))
		}
	}

	// urlencode / rawurlencode
	for _, fn := range []string{"urlencode", "rawurlencode"} {
		r = b.Call(fn+"(verif_in(0))", sv(s))
		if t.crash(fn, r, s) {
			continue
		}
		enc, ok := asStr(r)
		if !ok {
			w.Violation(fn+":non-string-result", fmt.Sprintf("%s(%q) = %s", fn, s, describe(r)), "bin", []byte(s))
			continue
		}
		t.judge(fn+":query-unsafe", s, queryReads(enc, s),
			fmt.Sprintf("%s(%q) = %q, which net/url does not read back as the same key/value when placed in a query string (k=v&z=1)", fn, s, enc))
		if fn == "rawurlencode" {
			t.judge(fn+":path-unsafe", s, pathReads(enc, s),
				fmt.Sprintf("rawurlencode(%q) = %q, which net/url does not read back as the same path segment", s, enc))
			if d, err := url.PathUnescape(enc); err != nil || d != s {
				w.Violation(fn+":reference-reads-differently:"+sig(vStr(shrinkStr(s, func(x string) bool {
					e, _ := asStr(b.Call(fn+"(verif_in(0))", sv(x)))
					d, err := url.PathUnescape(e)
					return err != nil || d != x
				}))), fmt.Sprintf("url.PathUnescape(rawurlencode(%q) = %q) = %q, %v", s, enc, d, err), "bin", []byte(s))
			}
		} else {
			if d, err := url.QueryUnescape(enc); err != nil || d != s {
				w.Violation(fn+":reference-reads-differently:"+sig(vStr(shrinkStr(s, func(x string) bool {
					e, _ := asStr(b.Call(fn+"(verif_in(0))", sv(x)))
					d, err := url.QueryUnescape(e)
					return err != nil || d != x
				}))), fmt.Sprintf("url.QueryUnescape(urlencode(%q) = %q) = %q, %v", s, enc, d, err), "bin", []byte(s))
			}
		}
		dfn := strings.Replace(fn, "encode", "decode", 1)
		r2 := b.Call(dfn+"(verif_in(0))", sv(enc))
		if !t.crash(dfn, r2, enc) {
			if d2, ok := asStr(r2); !ok || d2 != s {
				w.Violation(dfn+":not-inverse:"+sig(vStr(shrinkStr(s, func(x string) bool {
					e1, _ := asStr(b.Call(fn+"(verif_in(0))", sv(x)))
					d, ok := asStr(b.Call(dfn+"(verif_in(0))", sv(e1)))
					return !ok || d != x
				}))), fmt.Sprintf("%s(%s(%q) = %q) = %s", dfn, fn, s, enc, describe(r2)), "bin", []byte(s))
			}
		}
	}
	if nontrivial {
		w.Nontrivial("enc", s)
	}
}

func (t *textSec) hashes(s string) {
	w, b := t.w, t.b
	w.Count("evaluations", 2) // md5 hex + raw; every hash() call below counts itself
	want := md5.Sum([]byte(s))
	r := b.Call("md5(verif_in(0))", sv(s))
	if !t.crash("md5", r, s) {
		if got, ok := asStr(r); !ok || got != hex.EncodeToString(want[:]) {
			w.Violation("md5:differs-from-crypto/md5:hex", fmt.Sprintf("md5(%q) = %s, crypto/md5 gives %x", s, describe(r), want), "bin", []byte(s))
		}
	}
	r = b.Call("md5(verif_in(0), true)", sv(s))
	if !t.crash("md5", r, s) {
		if got, ok := asStr(r); !ok || got != string(want[:]) {
			w.Violation("md5:differs-from-crypto/md5:raw", fmt.Sprintf("md5(%q, true) = %s, crypto/md5 gives %x", s, describe(r), want), "bin", []byte(s))
		}
	}
	for _, algo := range sortedKeys(hashRefs) {
		ref := hashRefs[algo]([]byte(s))
		r := b.Call("hash(verif_in(0), verif_in(1))", sv(algo), sv(s))
		w.Count("evaluations", 1)
		if t.crash("hash", r, algo+"\x00"+s) {
			continue
		}
		got, ok := asStr(r)
		if ok && got == hex.EncodeToString(ref) {
			continue
		}
		s256 := sha256.Sum256([]byte(s))
		s512 := sha512.Sum512([]byte(s))
		switch {
		case ok && got == hex.EncodeToString(s256[:]):
			w.Violation("hash:substitutes-sha256:algo="+algo, fmt.Sprintf("hash(%q, %q) returns the SHA-256 digest %s instead of %x", algo, s, got, ref), "bin", []byte(algo+"\x00"+s))
		case ok && got == hex.EncodeToString(s512[:]):
			w.Violation("hash:substitutes-sha512:algo="+algo, fmt.Sprintf("hash(%q, %q) returns the SHA-512 digest %s instead of %x", algo, s, got, ref), "bin", []byte(algo+"\x00"+s))
		default:
			w.Violation("hash:wrong-digest:algo="+algo, fmt.Sprintf("hash(%q, %q) = %s, the reference gives %x", algo, s, describe(r), ref), "bin", []byte(algo+"\x00"+s))
		}
	}
	w.Nontrivial("hash", s)
}

// decodersTotal feeds arbitrary bytes to the text decoders: they must return (a string or
// false) or throw a catchable error — never panic.
func (t *textSec) decodersTotal(in string) {
	t.w.Count("evaluations", 1)
	for _, expr := range []string{"base64_decode(verif_in(0))", "base64_decode(verif_in(0), true)", "urldecode(verif_in(0))", "rawurldecode(verif_in(0))"} {
		fn, _, _ := strings.Cut(expr, "(")
		r := t.b.Call(expr, sv(in))
		if t.crash(fn, r, in) {
			continue
		}
		if r.HasVal {
			switch x := r.Val.(type) {
			case *data.StringValue:
			case *data.BoolValue:
				if x.Value {
					t.w.Violation(fn+":returns-true", fmt.Sprintf("%s on %q returns true", expr, in), "bin", []byte(in))
				}
			default:
				t.w.Violation(fn+":odd-result-type", fmt.Sprintf("%s on %q returns %s", expr, in, describe(r)), "bin", []byte(in))
			}
		}
	}
	t.w.Nontrivial("dec", in)
}

func runText(w *Worker) {
	t := &textSec{w: w, b: NewBridge(""), unsafe: map[string]map[byte]bool{}}

	// every worker runs the 256 single bytes through the URL oracles first (they define the
	// known-unsafe cells); only shard 0 counts and reports them
	for c := 0; c < 256; c++ {
		s := string([]byte{byte(c)})
		if !w.Begin([]byte(s)) {
			continue
		}
		if w.Shard != 0 {
			w.counts["evaluations"]--
			t.urlOnly(s) // single bytes only record cells, they never report
			continue
		}
		t.encoders(s)
		t.hashes(s)
		t.decodersTotal(s)
	}
	if w.Shard == 0 {
		for _, oracle := range sortedKeys(t.unsafe) {
			var bs []int
			for c := range t.unsafe[oracle] {
				bs = append(bs, int(c))
			}
			sort.Ints(bs)
			var sb strings.Builder
			for _, c := range bs {
				fmt.Fprintf(&sb, "%%%02X", c)
			}
			fn, _, _ := strings.Cut(oracle, ":")
			w.Violation(oracle+":bytes="+sb.String(), fmt.Sprintf("%s leaves the bytes %s in a form that net/url does not read back as the same value in that position (single-byte inputs, enumerated completely)", fn, sb.String()), "txt", []byte(sb.String()))
		}
		if !w.Begin([]byte{}) {
			return
		}
		t.encoders("")
		t.hashes("")
		t.decodersTotal("")
	}

	// all byte pairs
	for i := 0; i < 65536; i++ {
		if !w.Mine(i) {
			continue
		}
		s := string([]byte{byte(i >> 8), byte(i)})
		if !w.Begin([]byte(s)) {
			continue
		}
		t.encoders(s)
		t.decodersTotal(s)
		if i%w.Pick(64, 4) == 0 {
			t.hashes(s)
		}
	}

	// seeded strings up to 4 KiB
	r := w.Rand("strings")
	n := w.Pick(8000, 200000) / w.N
	for i := 0; i < n; i++ {
		var s string
		switch r.Intn(6) {
		case 0:
			l := r.Intn(4097)
			if r.Intn(3) > 0 {
				l = r.Intn(64)
			}
			bb := make([]byte, l)
			for k := range bb {
				bb[k] = byte(r.Intn(256))
			}
			s = string(bb)
		default:
			s = pickStr(r, false)
		}
		if !w.Begin([]byte(s)) {
			continue
		}
		t.encoders(s)
		if i%4 == 0 {
			t.hashes(s)
		}
		// mutated encodings for the decoders
		var enc string
		switch r.Intn(3) {
		case 0:
			enc = base64.StdEncoding.EncodeToString([]byte(s))
		case 1:
			enc = url.QueryEscape(s)
		default:
			enc = strings.ReplaceAll(url.QueryEscape(s), "+", "%20")
		}
		if len(enc) > 300 {
			enc = enc[:300]
		}
		for _, m := range mutateText(r, enc, w.Pick(6, 12)) {
			t.decodersTotal(m)
		}
		if i < 3 {
			w.Sample(fmt.Sprintf("%q", s))
		}
	}
}

// urlOnly re-derives the known-unsafe byte table in shards other than 0.
func (t *textSec) urlOnly(s string) {
	for _, fn := range []string{"urlencode", "rawurlencode"} {
		r := t.b.Call(fn+"(verif_in(0))", sv(s))
		enc, ok := asStr(r)
		if !ok {
			continue
		}
		t.judge(fn+":query-unsafe", s, queryReads(enc, s), "")
		if fn == "rawurlencode" {
			t.judge(fn+":path-unsafe", s, pathReads(enc, s), "")
		}
	}
}

func mutateText(r interface{ Intn(int) int }, enc string, k int) []string {
	out := make([]string, 0, k)
	for i := 0; i < k; i++ {
		b := []byte(enc)
		switch r.Intn(6) {
		case 0: // truncate
			if len(b) > 0 {
				b = b[:r.Intn(len(b))]
			}
		case 1: // broken escape
			p := r.Intn(len(b) + 1)
			ins := []string{"%", "%%", "%z", "%4", "%g0", "%0g", "=", "==", "===", "+", " ", "\n", "\x00", "\xff", "-", "_"}[r.Intn(16)]
			b = append(b[:p:p], append([]byte(ins), b[p:]...)...)
		case 2: // flip a byte
			if len(b) > 0 {
				b[r.Intn(len(b))] = byte(r.Intn(256))
			}
		case 3: // delete a byte
			if len(b) > 0 {
				p := r.Intn(len(b))
				b = append(b[:p:p], b[p+1:]...)
			}
		case 4: // duplicate a slice
			if len(b) > 1 {
				p := r.Intn(len(b))
				q := p + r.Intn(len(b)-p)
				b = append(b[:q:q], append(append([]byte{}, b[p:q]...), b[q:]...)...)
			}
		default: // padding games
			b = append(b, []string{"=", "==", "A", "%", "%2"}[r.Intn(5)]...)
		}
		out = append(out, string(b))
	}
	return out
}
