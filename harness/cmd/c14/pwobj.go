package main

// Section "pwobj": annotation-driven Protowire::serialize / Protowire::parse($data, Class).

import (
	"bytes"
	"fmt"
	"math"

	"github.com/php-any/origami/data"
	pw "google.golang.org/protobuf/encoding/protowire"
)

const pwobjPrelude = `
use Protowire\Annotation\Field;

class VInner {
    #[Field(number: 1, type: PROTOWIRE_VARINT)]
    public $x;
    #[Field(number: 2, type: PROTOWIRE_LENGTH_DELIMITED)]
    public $s;
}

class VDoc {
    #[Field(number: 1, type: PROTOWIRE_VARINT)]
    public $a;
    #[Field(number: 2, type: PROTOWIRE_LENGTH_DELIMITED)]
    public $b;
    #[Field(number: 3, type: PROTOWIRE_FIXED64)]
    public $c;
    #[Field(number: 4, type: PROTOWIRE_FIXED32)]
    public $d;
    #[Field(number: 2047, type: PROTOWIRE_VARINT)]
    public $k;
}

class VEnc {
    #[Field(number: 5, type: PROTOWIRE_VARINT, encoding: "zigzag")]
    public $e;
    #[Field(number: 6, type: PROTOWIRE_FIXED64, encoding: "double")]
    public $f;
    #[Field(number: 7, type: PROTOWIRE_FIXED32, encoding: "float")]
    public $g;
    #[Field(number: 8, type: PROTOWIRE_LENGTH_DELIMITED, encoding: "packed")]
    public $h;
    #[Field(number: 9, type: PROTOWIRE_LENGTH_DELIMITED, encoding: "message")]
    public $i;
    #[Field(number: 10, type: PROTOWIRE_START_GROUP)]
    public $j;
}

function verif_inner($x, $s) { $o = new VInner(); $o->x = $x; $o->s = $s; return $o; }
function verif_doc($a, $b, $c, $d, $k) { $o = new VDoc(); $o->a = $a; $o->b = $b; $o->c = $c; $o->d = $d; $o->k = $k; return $o; }
function verif_enc($e, $f, $g, $h, $x, $s) { $o = new VEnc(); $o->e = $e; $o->f = $f; $o->g = $g; $o->h = $h; $o->i = verif_inner($x, $s); $o->j = verif_inner($s === '' ? 0 : 1, $s); return $o; }
function verif_props($o) { return [$o->a, $o->b, $o->c, $o->d, $o->k]; }
`

func runPwObj(w *Worker) {
	b := NewBridge(pwobjPrelude)
	if b.BadPrelude != "" {
		w.Violation("pwobj:prelude", "the documented annotation syntax of docs/protowire.md is not accepted: "+b.BadPrelude, "php", []byte("<?php\n"+pwobjPrelude))
		return
	}
	r := w.Rand("objects")
	iv := func(i int64) data.Value { return data.NewIntValue(int(i)) }
	n := w.Pick(600, 20000) / w.N
	for i := 0; i < n; i++ {
		a, c, k := pickInt(r), pickInt(r), pickInt(r)
		d := int64(uint32(pickInt(r)))
		s := pickStr(r, false)
		if !w.Begin([]byte(fmt.Sprintf("doc a=%d b=%q c=%d d=%d k=%d", a, s, c, d, k))) {
			continue
		}
		// documented part: number + type
		var want []byte
		want = pw.AppendVarint(pw.AppendTag(want, 1, pw.VarintType), uint64(a))
		want = pw.AppendBytes(pw.AppendTag(want, 2, pw.BytesType), []byte(s))
		want = pw.AppendFixed64(pw.AppendTag(want, 3, pw.Fixed64Type), uint64(c))
		want = pw.AppendFixed32(pw.AppendTag(want, 4, pw.Fixed32Type), uint32(d))
		want = pw.AppendVarint(pw.AppendTag(want, 2047, pw.VarintType), uint64(k))
		res := b.Call("Protowire::serialize(verif_doc(verif_in(0), verif_in(1), verif_in(2), verif_in(3), verif_in(4)))", iv(a), sv(s), iv(c), iv(d), iv(k))
		desc := fmt.Sprintf("Protowire::serialize(VDoc{a=%d, b=%q, c=%d, d=%d, k=%d})", a, s, c, d, k)
		if res.Panic != nil {
			w.Violation("Protowire.serialize:"+panicKey(res), fmt.Sprintf("%s panics in Go: %v", desc, res.Panic), "txt", []byte(desc))
		} else if got, ok := asStr(res); !ok || !bytes.Equal([]byte(got), want) {
			w.Violation("Protowire.serialize:documented-types:differs-from-protowire.Append", fmt.Sprintf("%s = %x (%s); the wire encoding of these fields is %x", desc, got, describe(res), want), "txt", []byte(desc))
		} else {
			w.Nontrivial("doc", got)
			// and back into the class
			r2 := b.Call("verif_props(Protowire::parse(verif_in(0), 'VDoc'))", sv(got))
			exp := vList(vInt(a), vStr(s), vInt(c), vInt(d), vInt(k))
			if r2.Panic != nil {
				w.Violation("Protowire.parse(class):"+panicKey(r2), fmt.Sprintf("Protowire::parse(%x, 'VDoc') panics in Go: %v", got, r2.Panic), "txt", []byte(desc))
			} else if gv, bad := fromData(r2.Val); !r2.HasVal || bad != "" || !equal(exp, gv, eqOpts{ordered: true, strictNumTyp: true}) {
				w.Violation("Protowire.parse(class):not-inverse", fmt.Sprintf("Protowire::parse(%s, 'VDoc') gives the properties %s, expected %s", desc, describe(r2), exp), "txt", []byte(desc))
			}
		}

		// encodings declared by the annotation class (zigzag, double, float, packed, message) and groups
		e := pickInt(r)
		f := pickFloat(r)
		g := float64(float32(pickFloat(r)))
		if math.IsInf(g, 0) {
			g = 2.5
		}
		var hs []int64
		for j := r.Intn(4); j > 0; j-- {
			hs = append(hs, pickInt(r))
		}
		x := pickInt(r)
		var hv []data.Value
		var packed []byte
		for _, h := range hs {
			hv = append(hv, iv(h))
			packed = pw.AppendVarint(packed, uint64(h))
		}
		inner := func(x int64, s string) []byte {
			var in []byte
			in = pw.AppendVarint(pw.AppendTag(in, 1, pw.VarintType), uint64(x))
			return pw.AppendBytes(pw.AppendTag(in, 2, pw.BytesType), []byte(s))
		}
		gx := int64(1)
		if s == "" {
			gx = 0
		}
		type part struct {
			name string
			enc  []byte
		}
		parts := []part{
			{"zigzag", pw.AppendVarint(pw.AppendTag(nil, 5, pw.VarintType), pw.EncodeZigZag(e))},
			{"double", pw.AppendFixed64(pw.AppendTag(nil, 6, pw.Fixed64Type), math.Float64bits(f))},
			{"float", pw.AppendFixed32(pw.AppendTag(nil, 7, pw.Fixed32Type), math.Float32bits(float32(g)))},
			{"packed", pw.AppendBytes(pw.AppendTag(nil, 8, pw.BytesType), packed)},
			{"message", pw.AppendBytes(pw.AppendTag(nil, 9, pw.BytesType), inner(x, s))},
			{"group", pw.AppendTag(append(pw.AppendTag(nil, 10, pw.StartGroupType), inner(gx, s)...), 10, pw.EndGroupType)},
		}
		desc2 := fmt.Sprintf("Protowire::serialize(VEnc{e=%d zigzag, f=%v double, g=%v float, h=%v packed, i=VInner{%d,%q} message, j=VInner{%d,%q} group})", e, f, g, hs, x, s, gx, s)
		if !w.Begin([]byte(desc2)) {
			continue
		}
		res = b.Call("Protowire::serialize(verif_enc(verif_in(0), verif_in(1), verif_in(2), verif_in(3), verif_in(4), verif_in(5)))",
			iv(e), data.NewFloatValue(f), data.NewFloatValue(g), data.NewArrayValue(hv), iv(x), sv(s))
		if res.Panic != nil {
			w.Violation("Protowire.serialize:"+panicKey(res), fmt.Sprintf("%s panics in Go: %v", desc2, res.Panic), "txt", []byte(desc2))
			continue
		}
		got, ok := asStr(res)
		if !ok {
			w.Violation("Protowire.serialize:encodings:no-string", fmt.Sprintf("%s: %s", desc2, describe(res)), "txt", []byte(desc2))
			continue
		}
		rest := []byte(got)
		for _, p := range parts {
			if bytes.HasPrefix(rest, p.enc) {
				rest = rest[len(p.enc):]
				continue
			}
			kn := p.name
			if kn == "double" || kn == "float" {
				kn = "double-or-float"
			}
			w.Violation("Protowire.serialize:encoding="+kn+":differs-from-reference", fmt.Sprintf("%s = %x: the %s field should be encoded as %x, found %x…", desc2, got, p.name, p.enc, rest[:min(len(rest), len(p.enc))]), "txt", []byte(desc2))
			rest = nil
			break
		}
		if rest != nil && len(rest) == 0 {
			w.Nontrivial("enc", got)
		}
		if i < 2 {
			w.Sample(desc)
		}
	}
}
