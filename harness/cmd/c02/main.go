// C02 — control flow and function calls behave as the reference semantics prescribe.
// Differential monitor: generated programs are run by the real CLI (one process each) and
// by the reference interpreter (verif/ref) over the generator's own AST.
package main

import (
	"fmt"
	"sort"
	"sync"

	"verif/diffprog"
	"verif/gen"
	"verif/lib"
)

func main() {
	e := lib.Init("C02", "exploration")
	e.RunScriptWitnesses()
	e.Extra("regression_inputs_of_repaired_defects", e.RunRegressionScripts())
	off := func(f string) bool { return e.Quarantined(f) }

	type tcase struct {
		name string
		p    *gen.Program
	}
	var cases []tcase
	skippedQuarantine := 0
	for _, nc := range diffprog.LoopExitFamily(false) {
		q := false
		for f := range nc.Prog.Features {
			if off(f) {
				q = true
			}
		}
		if q {
			skippedQuarantine++
			continue
		}
		cases = append(cases, tcase{"nest:" + nc.Name, nc.Prog})
	}
	nEnum := len(cases)
	nRand := e.Pick(500, 30000)
	r := e.Rand("programs")
	for i := 0; i < nRand; i++ {
		cfg := gen.Config{MaxDepth: 2 + r.Intn(4), Budget: 15 + r.Intn(50), Disabled: off}
		cases = append(cases, tcase{fmt.Sprintf("rand:%d", i), gen.Generate(r, cfg)})
	}

	var mu sync.Mutex
	var distinct lib.DistinctCounter
	skips := map[string]int{}
	covSum := map[string]int{}
	featSum := map[string]int{}
	executed := 0
	minimized := 0
	var samples []any
	lib.ParallelMap(len(cases), 0, func(i int) {
		c := cases[i]
		v := diffprog.Compare(e, e.Origami(), c.p)
		mu.Lock()
		defer mu.Unlock()
		if v.Skip != "" {
			skips[v.Skip]++
			return
		}
		if v.Incon != "" {
			e.Inconclusive(c.name + ": " + v.Incon)
			return
		}
		executed++
		src := gen.Source(c.p)
		nontrivial := false
		for k, n := range v.Exp.Cov {
			covSum[k] += n
			switch k {
			case "break", "continue", "return.in.loop", "recursion", "switch.fallthrough", "static.persist", "default.param", "match.arm":
				nontrivial = true
			}
		}
		for f := range c.p.Features {
			featSum[f]++
		}
		if nontrivial {
			distinct.Add(lib.Hash(src))
		}
		if len(samples) < 3 && nontrivial && i >= nEnum {
			samples = append(samples, map[string]any{"case": c.name, "source": src, "stdout": v.Exp.Out})
		}
		if v.Bad != "" {
			p := c.p
			if minimized < 6 {
				minimized++
				mu.Unlock()
				p = diffprog.Minimize(e, e.Origami(), p, v.Bad)
				v2 := diffprog.Compare(e, e.Origami(), p)
				mu.Lock()
				if v2.Bad == v.Bad {
					v = v2
				}
			}
			e.Violation("C02:"+v.Bad+":"+lib.Hash(gen.Source(p)), c.name+": "+v.Bad+": "+v.Detail, "php", diffprog.Replay(p, v))
		}
	})
	if len(samples) == 0 && len(cases) > 0 {
		samples = append(samples, map[string]any{"case": cases[0].name, "source": gen.Source(cases[0].p)})
	}
	e.Extra("enumerated_nest_family", nEnum)
	e.Extra("enumerated_skipped_by_quarantine", skippedQuarantine)
	e.Extra("random_programs", nRand)
	e.Extra("outside_domain_skipped", skips)
	e.Extra("reference_coverage_counters", sortMap(covSum))
	e.Extra("programs_using_feature", sortMap(featSum))
	e.Assume("reference interpreter verif/ref implements PHP semantics for the generated core (docs/control-structures.md shows nothing else)",
		"programs whose reference run exceeds the step budget, leaves ±2^31 or needs behaviour the statement leaves open are skipped, not judged")
	e.Finish(lib.Coverage{
		Evaluations:        executed,
		DistinctNontrivial: distinct.N(),
		Rule:               "enumerated loop-nest family (4 loop kinds ^ depth 2..3 x break/continue x level x position plain/if/switch) plus seeded typed random programs (depth<=5); distinct = source hash; non-trivial = the reference run executed >=1 break/continue/return-inside-loop/recursive call/switch fall-through/static persistence/default parameter/match arm",
		Samples:            samples,
		Exhaustive:         false,
	})
}

func sortMap(m map[string]int) map[string]int {
	// maps marshal with sorted keys already; keep a copy so later mutation cannot race
	out := map[string]int{}
	ks := make([]string, 0, len(m))
	for k := range m {
		ks = append(ks, k)
	}
	sort.Strings(ks)
	for _, k := range ks {
		out[k] = m[k]
	}
	return out
}
