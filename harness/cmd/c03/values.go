package main

import (
	"encoding/hex"
	"fmt"
	"math"
	"math/rand"
	"strconv"
	"strings"
)

// Val is an operand or a result in the harness's own representation (never an origami type).
// K: int float str bool null arr0 arr1 amap obj fn   (operands; fn = a closure)
//
//	arr amap obj other:<GoType> nil               (additional result kinds)
type Val struct {
	K string `json:"k"`
	I int64  `json:"i,omitempty"`
	F uint64 `json:"f,omitempty"` // float64 bits
	S string `json:"s,omitempty"` // raw bytes
	B bool   `json:"b,omitempty"`
}

func vInt(i int64) Val     { return Val{K: "int", I: i} }
func vFloat(f float64) Val { return Val{K: "float", F: math.Float64bits(f)} }
func vStr(s string) Val    { return Val{K: "str", S: s} }
func vBool(b bool) Val     { return Val{K: "bool", B: b} }
func vNull() Val           { return Val{K: "null"} }

func (v Val) Fl() float64 { return math.Float64frombits(v.F) }

// AsF converts a numeric operand to float64 the way every reference operation does.
func (v Val) AsF() float64 {
	if v.K == "int" {
		return float64(v.I)
	}
	return v.Fl()
}

func (v Val) IsNum() bool    { return v.K == "int" || v.K == "float" }
func (v Val) IsScalar() bool { return v.IsNum() || v.K == "str" || v.K == "bool" || v.K == "null" }
func (v Val) IsNaN() bool    { return v.K == "float" && math.IsNaN(v.Fl()) }

// Kind is the coarse operand kind used in violation keys.
func (v Val) Kind() string {
	switch v.K {
	case "arr0", "arr1", "arr", "amap":
		return "arr"
	}
	return v.K
}

// Sub is the fine operand class, used in the explanation and in truthiness keys.
func (v Val) Sub() string {
	switch v.K {
	case "int":
		switch {
		case v.I == 0:
			return "int0"
		case v.I < 0:
			return "int.neg"
		}
		return "int.pos"
	case "float":
		f := v.Fl()
		switch {
		case math.IsNaN(f):
			return "float.nan"
		case f == 0:
			return "float0"
		case f < 0:
			return "float.neg"
		}
		return "float.pos"
	case "str":
		switch {
		case v.S == "":
			return "str.empty"
		case v.S == "0":
			return "str.zero"
		case isNumericString(v.S):
			return "str.num"
		}
		return "str"
	case "bool":
		if v.B {
			return "true"
		}
		return "false"
	case "arr0":
		return "arr.empty"
	case "arr1":
		return "arr"
	case "amap":
		return "arr.assoc"
	}
	return v.K
}

// isNumericString is deliberately generous: anything that any of the usual conventions
// (PHP numeric strings with surrounding blanks, Go's ParseFloat/ParseInt incl. hex, inf, nan,
// underscores) would read as a number is "numeric" and thereby kept out of the exactly
// compared string domain.
func isNumericString(s string) bool {
	t := strings.TrimSpace(s)
	if t == "" {
		return false
	}
	if _, err := strconv.ParseFloat(t, 64); err == nil {
		return true
	}
	if _, err := strconv.ParseInt(t, 0, 64); err == nil {
		return true
	}
	// leading-numeric strings ("12abc") are coerced by PHP with a warning: also out
	c := t[0]
	if c >= '0' && c <= '9' {
		return true
	}
	if (c == '-' || c == '+' || c == '.') && len(t) > 1 && (t[1] >= '0' && t[1] <= '9' || t[1] == '.') {
		return true
	}
	return false
}

// Equal is exact equality of two results (floats by bits, all NaNs alike).
func (v Val) Equal(w Val) bool {
	if v.K != w.K {
		return false
	}
	switch v.K {
	case "int":
		return v.I == w.I
	case "float":
		if math.IsNaN(v.Fl()) && math.IsNaN(w.Fl()) {
			return true
		}
		return v.F == w.F
	case "str":
		return v.S == w.S
	case "bool":
		return v.B == w.B
	}
	return true
}

func (v Val) String() string {
	switch v.K {
	case "int":
		return "int(" + strconv.FormatInt(v.I, 10) + ")"
	case "float":
		return "float(" + fmtFloat(v.Fl()) + ")"
	case "str":
		return "string(" + strconv.Quote(v.S) + ")"
	case "bool":
		return "bool(" + strconv.FormatBool(v.B) + ")"
	case "arr0":
		return "[]"
	case "arr1":
		return "[0]"
	case "amap":
		return "['k'=>1]"
	case "obj":
		return "object(C03Obj)"
	case "fn":
		return "closure"
	}
	return v.K
}

func fmtFloat(f float64) string {
	switch {
	case math.IsNaN(f):
		return "NaN"
	case math.IsInf(f, 1):
		return "+Inf"
	case math.IsInf(f, -1):
		return "-Inf"
	}
	return strconv.FormatFloat(f, 'g', -1, 64)
}

// Lit renders an operand as origami source text. ok=false when there is no literal for it
// (non-finite floats, strings with bytes the single-quoted syntax cannot carry verbatim).
// Negative numbers are parenthesised so that no precedence question (C04) is involved.
func (v Val) Lit() (string, bool) {
	switch v.K {
	case "int":
		s := strconv.FormatInt(v.I, 10)
		if v.I < 0 {
			return "(" + s + ")", true
		}
		return s, true
	case "float":
		f := v.Fl()
		if math.IsNaN(f) || math.IsInf(f, 0) {
			return "", false
		}
		s := strconv.FormatFloat(f, 'g', -1, 64)
		if !strings.ContainsAny(s, ".e") {
			s += ".0"
		} else if strings.Contains(s, "e") && !strings.Contains(s, ".") {
			// 1e+308 -> 1.0e+308
			i := strings.Index(s, "e")
			s = s[:i] + ".0" + s[i:]
		}
		if math.Signbit(f) {
			return "(" + s + ")", true
		}
		return s, true
	case "str":
		for i := 0; i < len(v.S); i++ {
			c := v.S[i]
			if c < 0x20 || c > 0x7e || c == '\'' || c == '\\' || c == '$' || c == '{' {
				return "", false
			}
		}
		return "'" + v.S + "'", true
	case "bool":
		if v.B {
			return "true", true
		}
		return "false", true
	case "null":
		return "null", true
	case "arr0":
		return "[]", true
	case "arr1":
		return "[0]", true
	case "amap":
		return "['k' => 1]", true
	case "obj":
		return "new C03Obj()", true
	case "fn":
		return "function () { return 1; }", true
	}
	return "", false
}

// Describe is the exact (bit-level) description used in replay headers.
func (v Val) Describe() string {
	switch v.K {
	case "float":
		return fmt.Sprintf("float %s (bits 0x%016x)", fmtFloat(v.Fl()), v.F)
	case "str":
		return fmt.Sprintf("string %q (hex %s)", v.S, hex.EncodeToString([]byte(v.S)))
	}
	return v.String()
}

// ---------------------------------------------------------------------------------
// pools

const (
	minInt = math.MinInt64
	maxInt = math.MaxInt64
)

func poolValues() []Val {
	var p []Val
	for _, i := range []int64{0, 1, -1, 2, -2, 3, 7, -7, 10, 63, 64, 65, 1 << 31, 1<<53 + 1, maxInt, maxInt - 1, minInt, minInt + 1, 3037000500} {
		p = append(p, vInt(i))
	}
	for _, f := range []float64{0.0, math.Copysign(0, -1), 0.5, -0.5, 1.0, -1.0, 1.5, 2.0, 2.5, -2.5, 3.0, 63.0, 64.0, 1e308, -1e308, 5e-324,
		9007199254740993.0, 9223372036854775808.0, 0.1, math.NaN(), math.Inf(1), math.Inf(-1)} {
		p = append(p, vFloat(f))
	}
	for _, s := range []string{"", "0", "a", "b", "abc", "ab", "A", " ", "1e1", "10", "1", "-1", "1.5", "abc ", "a0"} {
		p = append(p, vStr(s))
	}
	p = append(p, vBool(true), vBool(false), vNull(), Val{K: "arr0"}, Val{K: "arr1"}, Val{K: "amap"}, Val{K: "obj"}, Val{K: "fn"})
	return p
}

func randInt(r *rand.Rand) int64 {
	switch r.Intn(8) {
	case 0:
		return int64(r.Intn(41) - 20)
	case 1:
		return int64(r.Intn(2000001) - 1000000)
	case 2:
		return int64(r.Uint64())
	case 3: // around a power of two
		s := uint(r.Intn(63))
		v := int64(1)<<s + int64(r.Intn(3)-1)
		if r.Intn(2) == 0 {
			v = -v
		}
		return v
	case 4:
		return int64(r.Intn(140)) // shift counts, also at and over the width
	case 5:
		return int64(r.Int63n(1<<53)) - 1<<52
	case 6:
		return int64(r.Int63n(1<<32)) - 1<<31
	}
	return int64(r.Intn(7) - 3)
}

func randFloat(r *rand.Rand) float64 {
	switch r.Intn(8) {
	case 0:
		return float64(r.Intn(41) - 20)
	case 1:
		return float64(r.Intn(4001)-2000) / 8
	case 2:
		return r.NormFloat64() * 1000
	case 3: // random finite bit pattern
		for {
			f := math.Float64frombits(r.Uint64())
			if !math.IsNaN(f) && !math.IsInf(f, 0) {
				return f
			}
		}
	case 4:
		return float64(r.Int63n(1<<53)) - 1<<52 + 0.5
	case 5:
		return r.Float64()*2 - 1
	case 6:
		return float64(int64(r.Uint64())) // integral, possibly beyond 2^53
	}
	return float64(r.Intn(7)-3) + 0.5
}

const strAlphabet = "abcABCxyz019 -.e_"

func randStr(r *rand.Rand, anyBytes bool) string {
	n := r.Intn(7)
	b := make([]byte, n)
	for i := range b {
		if anyBytes && r.Intn(6) == 0 {
			b[i] = byte(r.Intn(256))
		} else {
			b[i] = strAlphabet[r.Intn(len(strAlphabet))]
		}
	}
	return string(b)
}

func randOfKind(r *rand.Rand, k string) Val {
	switch k {
	case "int":
		return vInt(randInt(r))
	case "float":
		return vFloat(randFloat(r))
	case "str":
		return vStr(randStr(r, true))
	case "bool":
		return vBool(r.Intn(2) == 0)
	case "null":
		return vNull()
	}
	return Val{K: k}
}

// randPair draws a seeded operand pair, weighted towards the exactly compared domain.
func randPair(r *rand.Rand, pool []Val) (Val, Val) {
	x := r.Intn(100)
	switch {
	case x < 25:
		return randOfKind(r, "int"), randOfKind(r, "int")
	case x < 40:
		return randOfKind(r, "int"), randOfKind(r, "float")
	case x < 55:
		return randOfKind(r, "float"), randOfKind(r, "int")
	case x < 70:
		return randOfKind(r, "float"), randOfKind(r, "float")
	case x < 82:
		a := randStr(r, true)
		b := randStr(r, true)
		if r.Intn(4) == 0 { // common prefixes make ordering interesting
			b = a + randStr(r, true)
		}
		if r.Intn(8) == 0 {
			b = a
		}
		return vStr(a), vStr(b)
	}
	kinds := []string{"int", "float", "str", "bool", "null", "arr0", "arr1", "amap", "obj", "fn"}
	pick := func() Val {
		if r.Intn(3) == 0 {
			return pool[r.Intn(len(pool))]
		}
		return randOfKind(r, kinds[r.Intn(len(kinds))])
	}
	return pick(), pick()
}
