package main

import (
	"math"
	"math/big"
)

// Boundary-directed operand pairs: for every operator whose exact integer result has an
// overflow (or conversion) boundary, operands that land just below, on and just above it.
// Deterministic (no seed), enumerated completely in both tiers. Each pair names the operators
// it was built for (used by the CLI sample; in-process every operator is applied anyway).
type bpair struct {
	A, B Val
	Ops  []string
}

// iroot returns floor(n^(1/k)).
func iroot(n *big.Int, k int) int64 {
	lo, hi := int64(1), int64(math.MaxInt64)
	if k >= 2 {
		hi = 1 << 33
	}
	for lo < hi {
		mid := lo + (hi-lo+1)/2
		p := new(big.Int).Exp(big.NewInt(mid), big.NewInt(int64(k)), nil)
		if p.Cmp(n) <= 0 {
			lo = mid
		} else {
			hi = mid - 1
		}
	}
	return lo
}

func boundaryPairs() []bpair {
	var out []bpair
	seen := map[[2]Val]bool{}
	add := func(a, b Val, ops ...string) {
		k := [2]Val{a, b}
		if seen[k] {
			return
		}
		seen[k] = true
		out = append(out, bpair{a, b, ops})
	}
	two63 := new(big.Int).Lsh(big.NewInt(1), 63)
	two64 := new(big.Int).Lsh(big.NewInt(1), 64)
	around := func(c int64, d int64) []int64 {
		var r []int64
		for x := -d; x <= d; x++ {
			if (x < 0 && c < math.MinInt64-x) || (x > 0 && c > math.MaxInt64-x) {
				continue
			}
			r = append(r, c+x)
		}
		return r
	}

	// ** : bases around the e-th roots of 2^63 and 2^64, with the neighbouring exponents
	pow := func(base, e int64) {
		for _, ee := range []int64{e - 1, e, e + 1} {
			if ee >= 0 {
				add(vInt(base), vInt(ee), "**")
				add(vInt(-base), vInt(ee), "**")
			}
		}
	}
	for e := 2; e <= 63; e++ {
		for _, n := range []*big.Int{two63, two64} {
			r := iroot(n, e)
			for _, b := range around(r, 2) {
				if b >= 2 {
					pow(b, int64(e))
				}
			}
		}
	}
	// ** : bases whose repeated squares |b|^(2^k) straddle 2^63 / 2^64 (the intermediate
	// values of square-and-multiply), with every exponent whose top bit is 2^k
	for k := 1; k <= 5; k++ {
		p := 1 << k
		r63, r64 := iroot(two63, p), iroot(two64, p)
		var bases []int64
		bases = append(bases, around(r63, 2)...)
		bases = append(bases, around(r64, 2)...)
		for i := int64(1); i <= 3; i++ {
			bases = append(bases, r63+(r64-r63)*i/4)
		}
		for _, b := range bases {
			if b < 2 {
				continue
			}
			for e := p; e < 2*p && e <= 63; e++ {
				add(vInt(b), vInt(int64(e)), "**")
				add(vInt(-b), vInt(int64(e)), "**")
			}
			add(vInt(b), vInt(int64(2*p)), "**")
		}
	}
	// * : factor pairs around sqrt(2^63), 2^32 x 2^31, 2^62 x 2, a third of the range x 3
	mul := func(xs, ys []int64) {
		for _, x := range xs {
			for _, y := range ys {
				for _, s := range [][2]int64{{1, 1}, {-1, 1}, {1, -1}, {-1, -1}} {
					add(vInt(s[0]*x), vInt(s[1]*y), "*")
				}
			}
		}
	}
	mul(around(3037000500, 2), around(3037000500, 2))
	mul(around(1<<32, 2), around(1<<31, 2))
	mul(around(1<<31, 2), around(1<<32, 2))
	mul(around(1<<62, 1), []int64{1, 2, 3})
	mul(around(math.MaxInt64/3, 2), []int64{3})
	for _, x := range []int64{math.MinInt64, math.MinInt64 + 1, math.MaxInt64} {
		for _, y := range []int64{-1, 1, 2, -2, 0} {
			add(vInt(x), vInt(y), "*", "/", "%")
			add(vInt(y), vInt(x), "*", "/", "%")
		}
	}
	// + - : pairs around +-2^63
	edge := append(around(math.MaxInt64, 3), around(math.MinInt64, 3)...)
	edge = append(edge, around(1<<62, 1)...)
	edge = append(edge, around(-(1<<62), 1)...)
	small := []int64{0, 1, -1, 2, -2, 3, -3}
	for _, x := range edge {
		for _, y := range append(append([]int64{}, small...), edge...) {
			add(vInt(x), vInt(y), "+", "-")
			add(vInt(y), vInt(x), "+", "-")
		}
	}
	// << >> : counts at the width, operands around 1, -1, 2^31, 2^62
	var sh []int64
	for _, c := range []int64{0, -3, -5, -255, -(1 << 31), -(1 << 32), -(1<<62 + 1), 1, -1, 2, -2, 3, 1 << 31, 1<<31 - 1, 1<<31 + 1, 1 << 32, 1 << 62, 1<<62 - 1, 1<<62 + 1, -(1 << 62), math.MaxInt64, math.MinInt64, math.MinInt64 + 1} {
		sh = append(sh, c)
	}
	for _, x := range sh {
		for _, c := range []int64{0, 1, 30, 31, 32, 33, 61, 62, 63, 64, 65, 66, 100, 127, 128, 129, 1 << 31, 1 << 32, math.MaxInt64} {
			add(vInt(x), vInt(c), "<<", ">>")
		}
	}
	// % / : MinInt and -1 and their neighbours
	dv := []int64{math.MinInt64, math.MinInt64 + 1, math.MaxInt64, math.MaxInt64 - 1, -1, 1, 0, 2, -2, 3}
	for _, x := range dv {
		for _, y := range dv {
			add(vInt(x), vInt(y), "%", "/")
		}
	}
	// int <-> float around 2^53 and 2^63 (arithmetic and comparisons, both orders)
	var ints []int64
	ints = append(ints, around(1<<53, 2)...)
	ints = append(ints, around(-(1<<53), 2)...)
	ints = append(ints, around(math.MaxInt64, 2)...)
	ints = append(ints, around(math.MinInt64, 2)...)
	ints = append(ints, around(1<<52, 1)...)
	two63f := 9223372036854775808.0
	fl := []float64{1 << 53, 1<<53 - 1, 1<<53 - 2, 1<<53 + 2, 1<<53 + 4, -(1 << 53), -(1<<53 - 1), -(1<<53 + 2),
		1<<52 + 0.5, 1<<52 - 0.5, two63f, -two63f, math.Nextafter(two63f, 0), math.Nextafter(-two63f, 0),
		math.Nextafter(two63f, math.Inf(1)), math.Nextafter(-two63f, math.Inf(-1)), 1.0, -1.0, 0.5}
	cmp := []string{"+", "-", "*", "/", "==", "!=", "<", "<=", ">", ">=", "<=>"}
	for _, i := range ints {
		for _, f := range fl {
			add(vInt(i), vFloat(f), cmp...)
			add(vFloat(f), vInt(i), cmp...)
		}
	}
	return out
}
