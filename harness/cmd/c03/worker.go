package main

import (
	"bufio"
	"encoding/json"
	"fmt"
	"os"
	"regexp"
	"runtime/debug"
	"strings"

	"github.com/php-any/origami/data"
	"github.com/php-any/origami/node"
	"github.com/php-any/origami/parser"
	"github.com/php-any/origami/runtime"

	"verif/lib"
	"verif/ori"
)

// Outcome of one evaluation.
type Outcome struct {
	T    string `json:"t"` // value | throw | panic | parse
	V    Val    `json:"v"`
	Msg  string `json:"msg,omitempty"`
	Site string `json:"site,omitempty"`
	Nil  bool   `json:"nil,omitempty"` // the expression evaluated to no value at all (Go nil)
}

func (o Outcome) String() string {
	switch o.T {
	case "value":
		return o.V.String()
	case "throw":
		return "throws " + short(o.Msg, 80)
	case "panic":
		return "GO PANIC " + short(o.Msg, 120) + " at " + o.Site
	}
	return o.T + " " + short(o.Msg, 80)
}

func short(s string, n int) string {
	s = strings.ReplaceAll(s, "\n", " ")
	if len(s) > n {
		return s[:n] + "…"
	}
	return s
}

// same: equal outcomes (two throws are alike whatever the message).
func (o Outcome) same(p Outcome) bool {
	if o.T != p.T {
		return false
	}
	if o.T == "value" {
		return o.V.Equal(p.V)
	}
	return true
}

type compiled struct {
	prog       *node.Program
	vars       []data.Variable
	ia, ib, ir int
	err        string
}

type evaluator struct {
	vm       *runtime.VM
	p        *parser.Parser
	cache    map[string]*compiled
	uncaught data.Control
	nparse   int
}

const prelude = "<?php\nclass C03Obj { public $p = 1; }\n"

func newEvaluator() *evaluator {
	vm, p := ori.NewVM()
	ev := &evaluator{vm: vm, p: p, cache: map[string]*compiled{}}
	vm.SetThrowControl(func(c data.Control) { ev.uncaught = c })
	data.WriteOutput = func(string) {}
	o := ev.eval(prelude+"$r = 1;", nil, nil, true)
	if o.T != "value" {
		fmt.Fprintln(os.Stderr, "c03 worker: cannot define the operand class:", o)
		os.Exit(3)
	}
	return ev
}

func (ev *evaluator) compile(src string, cache bool) *compiled {
	if c, ok := ev.cache[src]; ok {
		return c
	}
	c := &compiled{ia: -1, ib: -1, ir: -1}
	ev.nparse++
	func() {
		defer func() {
			if r := recover(); r != nil {
				c.err = fmt.Sprintf("parser panic: %v", r)
			}
		}()
		prog, acl := ev.p.ParseString(src, "/verif-c03/case.php")
		if acl != nil {
			c.err = "parse error: " + acl.AsString()
			return
		}
		c.prog = prog
		c.vars = ev.p.GetVariables()
		for i, v := range c.vars {
			switch v.GetName() {
			case "a":
				c.ia = i
			case "b":
				c.ib = i
			case "r":
				c.ir = i
			}
		}
	}()
	if cache {
		ev.cache[src] = c
	}
	return c
}

var reAddr = regexp.MustCompile(`0x[0-9a-f]+`)

// normPanic shortens a panic message to something stable and whitespace free.
func normPanic(msg string) string {
	m := msg
	if i := strings.Index(m, "interface conversion: "); i >= 0 {
		// interface conversion: *data.ArrayValue is not data.AsInt: missing method AsInt —
		// one unchecked type assertion is one defect whatever operand type trips it
		return "unchecked-type-assertion"
	}
	m = strings.TrimPrefix(m, "runtime error: ")
	m = reAddr.ReplaceAllString(m, "ADDR")
	m = strings.Join(strings.Fields(m), "-")
	if len(m) > 70 {
		m = m[:70]
	}
	return m
}

// eval runs src with $a and $b bound (nil = not bound) and returns what happened.
// The result is $r when the program has one, else the value of the last statement.
func (ev *evaluator) eval(src string, a, b *Val, cache bool) (out Outcome) {
	c := ev.compile(src, cache)
	if c.err != "" {
		return Outcome{T: "parse", Msg: c.err}
	}
	ev.uncaught = nil
	defer func() {
		if r := recover(); r != nil {
			st := string(debug.Stack())
			out = Outcome{T: "panic", Msg: fmt.Sprint(r), Site: panicSite(st)}
		}
	}()
	ctx := ev.vm.CreateContext(c.vars)
	if a != nil && c.ia >= 0 {
		ctx.SetVariableValue(c.vars[c.ia], ev.toData(*a))
	}
	if b != nil && c.ib >= 0 {
		ctx.SetVariableValue(c.vars[c.ib], ev.toData(*b))
	}
	v, ctl := c.prog.GetValue(ctx)
	if ev.uncaught != nil {
		return Outcome{T: "throw", Msg: ev.uncaught.AsString()}
	}
	if ctl != nil {
		return Outcome{T: "throw", Msg: fmt.Sprintf("%T: %s", ctl, ctl.AsString())}
	}
	if c.ir >= 0 {
		rv, rc := ctx.GetVariableValue(c.vars[c.ir])
		if rc != nil {
			return Outcome{T: "throw", Msg: rc.AsString()}
		}
		return Outcome{T: "value", V: fromData(rv)}
	}
	return Outcome{T: "value", V: fromData(v), Nil: v == nil}
}

func (ev *evaluator) scriptValue(expr string) data.Value {
	src := "<?php\n$r = " + expr + ";"
	c := ev.compile(src, true)
	if c.err != "" {
		panic("c03 harness: " + c.err)
	}
	ctx := ev.vm.CreateContext(c.vars)
	c.prog.GetValue(ctx)
	rv, _ := ctx.GetVariableValue(c.vars[c.ir])
	return rv
}

// toData builds a fresh origami value for every evaluation (operators must not be able to
// leak a mutation from one case into the next).
func (ev *evaluator) toData(v Val) data.Value {
	switch v.K {
	case "int":
		return data.NewIntValue(int(v.I))
	case "float":
		return data.NewFloatValue(v.Fl())
	case "str":
		return data.NewStringValue(v.S)
	case "bool":
		return data.NewBoolValue(v.B)
	case "null":
		return data.NewNullValue()
	case "arr0":
		return data.NewArrayValue([]data.Value{})
	case "arr1":
		return data.NewArrayValue([]data.Value{data.NewIntValue(0)})
	case "amap":
		return ev.scriptValue("['k' => 1]")
	case "obj":
		return ev.scriptValue("new C03Obj()")
	case "fn":
		return ev.scriptValue("function () { return 1; }")
	}
	panic("c03 harness: operand kind " + v.K)
}

func fromData(x data.GetValue) Val {
	switch t := x.(type) {
	case nil:
		// a Go nil result is what scripts see as null ($r = <expr> stores a NullValue)
		return vNull()
	case *data.IntValue:
		return vInt(int64(t.Value))
	case *data.FloatValue:
		return vFloat(t.Value)
	case *data.StringValue:
		return vStr(t.Value)
	case *data.BoolValue:
		return vBool(t.Value)
	case *data.NullValue:
		return vNull()
	case *data.ArrayValue:
		return Val{K: "arr"}
	case *data.ObjectValue:
		return Val{K: "amap"}
	case *data.ClassValue:
		return Val{K: "obj"}
	case *data.FuncValue:
		return Val{K: "fn"}
	}
	return Val{K: fmt.Sprintf("other:%T", x)}
}

// ---------------------------------------------------------------------------------
// worker protocol

type workerIn struct {
	Pairs    [][2]Val `json:"pairs"`
	LitUpTo  int      `json:"lit_up_to"` // pairs [0,LitUpTo) also get the literal forms
	Unary    []Val    `json:"unary"`
	Same     []Val    `json:"same"`  // values put on both sides of every operator
	Start    int      `json:"start"` // resume after a death: first item index to run
	BaseIdx  int      `json:"base_idx"`
	MaxWhats int      `json:"max_whats"`
}

type violLine struct {
	T      string `json:"t"` // viol
	Idx    int    `json:"idx"`
	Key    string `json:"key"`
	What   string `json:"what"`
	Replay string `json:"replay"`
}

type doneLine struct {
	T        string         `json:"t"` // done
	Evals    int            `json:"evals"`
	Nontriv  int            `json:"nontriv"`
	Counts   map[string]int `json:"counts"`
	Parses   int            `json:"parses"`
	ParseErr []string       `json:"parse_err"`
	Samples  []string       `json:"samples"`
	Outcomes map[string]int `json:"outcomes"`
}

type workerState struct {
	ev       *evaluator
	w        *bufio.Writer
	sink     func(idx int, key, what, replay string) // nil: write a viol line to w
	seen     map[string]bool
	counts   map[string]int
	evals    int
	nontriv  int
	parseErr map[string]bool
	samples  []string
	outcomes map[string]int
	idx      int
}

func (ws *workerState) viol(key, what, replay string) {
	ws.counts[key]++
	if ws.seen[key] {
		return
	}
	ws.seen[key] = true
	if ws.sink != nil {
		ws.sink(ws.idx, key, what, replay)
		return
	}
	b, _ := json.Marshal(violLine{T: "viol", Idx: ws.idx, Key: key, What: what, Replay: replay})
	ws.w.Write(b)
	ws.w.WriteByte('\n')
}

func workerMain(inPath, outPath string) {
	raw, err := os.ReadFile(inPath)
	if err != nil {
		fmt.Fprintln(os.Stderr, err)
		os.Exit(3)
	}
	var in workerIn
	if err := json.Unmarshal(raw, &in); err != nil {
		fmt.Fprintln(os.Stderr, err)
		os.Exit(3)
	}
	f, err := os.OpenFile(outPath, os.O_CREATE|os.O_WRONLY|os.O_APPEND, 0o644)
	if err != nil {
		fmt.Fprintln(os.Stderr, err)
		os.Exit(3)
	}
	defer f.Close()
	ws := &workerState{ev: newEvaluator(), w: bufio.NewWriterSize(f, 1<<16), seen: map[string]bool{}, counts: map[string]int{},
		parseErr: map[string]bool{}, outcomes: map[string]int{}}
	n := len(in.Pairs) + len(in.Unary) + len(in.Same)
	for i := in.Start; i < n; i++ {
		ws.idx = in.BaseIdx + i
		fmt.Fprintf(ws.w, "B %d\n", i)
		ws.w.Flush()
		if i < len(in.Pairs) {
			ws.doPair(in.Pairs[i][0], in.Pairs[i][1], i < in.LitUpTo)
		} else if i < len(in.Pairs)+len(in.Unary) {
			ws.doUnary(in.Unary[i-len(in.Pairs)])
		} else {
			ws.doSame(in.Same[i-len(in.Pairs)-len(in.Unary)])
		}
		fmt.Fprintf(ws.w, "E %d\n", i)
	}
	var pe []string
	for k := range ws.parseErr {
		pe = append(pe, k)
	}
	b, _ := json.Marshal(doneLine{T: "done", Evals: ws.evals, Nontriv: ws.nontriv, Counts: ws.counts, Parses: ws.ev.nparse, ParseErr: pe, Samples: ws.samples, Outcomes: ws.outcomes})
	ws.w.Write(b)
	ws.w.WriteByte('\n')
	ws.w.Flush()
}

// panicSite is lib.PanicSite with the checked tree's root stripped, so that a scratch
// worktree (VERIF_REPO) yields the same call-site keys as /repo.
func panicSite(trace string) string {
	s := lib.PanicSite(trace)
	if root := os.Getenv("VERIF_REPO"); root != "" {
		s = strings.TrimPrefix(s, strings.TrimSuffix(root, "/")+"/")
	}
	return s
}

// evalSamePtr runs `$a OP $b` with one and the same origami value bound to both variables.
func (ev *evaluator) evalSamePtr(src string, v Val) (out Outcome) {
	c := ev.compile(src, true)
	if c.err != "" {
		return Outcome{T: "parse", Msg: c.err}
	}
	ev.uncaught = nil
	defer func() {
		if r := recover(); r != nil {
			st := string(debug.Stack())
			out = Outcome{T: "panic", Msg: fmt.Sprint(r), Site: panicSite(st)}
		}
	}()
	ctx := ev.vm.CreateContext(c.vars)
	d := ev.toData(v)
	if c.ia >= 0 {
		ctx.SetVariableValue(c.vars[c.ia], d)
	}
	if c.ib >= 0 {
		ctx.SetVariableValue(c.vars[c.ib], d)
	}
	val, ctl := c.prog.GetValue(ctx)
	if ev.uncaught != nil {
		return Outcome{T: "throw", Msg: ev.uncaught.AsString()}
	}
	if ctl != nil {
		return Outcome{T: "throw", Msg: fmt.Sprintf("%T: %s", ctl, ctl.AsString())}
	}
	return Outcome{T: "value", V: fromData(val)}
}
