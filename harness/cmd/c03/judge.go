package main

import (
	"fmt"
	"math"
	"sort"
	"strings"
)

// source templates -----------------------------------------------------------------

func opSrc(op string) string {
	if op == "neg" {
		return "-"
	}
	return op
}

func srcExpr(op string) string   { return "<?php\n$a " + op + " $b;" }
func srcAssign(op string) string { return "<?php\n$r = $a " + op + " $b;" }
func srcCompound(op string) string {
	return "<?php\n$r = $a;\n$r " + compoundOf[op] + " $b;"
}
func srcUnaryExpr(op string) string   { return "<?php\n" + opSrc(op) + "$a;" }
func srcUnaryAssign(op string) string { return "<?php\n$r = " + opSrc(op) + "$a;" }

// truthiness contexts: name, program, how the observation is read
type truthCtx struct {
	Name, Src string
	Mode      string // "12": $r is 1 (truthy) / 2 (falsy); "bool": $r is the truthiness; "nbool": $r is its negation
}

var truthCtxs = []truthCtx{
	{"if", "<?php\n$r = 0;\nif ($a) { $r = 1; } else { $r = 2; }", "12"},
	{"elseif", "<?php\n$r = 0;\nif (false) { $r = 3; } elseif ($a) { $r = 1; } else { $r = 2; }", "12"},
	{"while", "<?php\n$r = 2;\nwhile ($a) { $r = 1; break; }", "12"},
	{"for", "<?php\n$r = 2;\nfor (; $a; ) { $r = 1; break; }", "12"},
	{"ternary", "<?php\n$r = $a ? 1 : 2;", "12"},
	{"not", "<?php\n$r = !$a;", "nbool"},
	{"and", "<?php\n$r = $a && true;", "bool"},
	{"and.rhs", "<?php\n$r = true && $a;", "bool"},
	{"or", "<?php\n$r = $a || false;", "bool"},
	{"or.rhs", "<?php\n$r = false || $a;", "bool"},
	{"cast", "<?php\n$r = (bool)$a;", "bool"},
}

// readTruth maps an outcome of a truthiness context to "T", "F" or a description of what
// else happened.
func readTruth(mode string, o Outcome) string {
	if o.T != "value" {
		return o.T
	}
	switch mode {
	case "12":
		if o.V.K == "int" && o.V.I == 1 {
			return "T"
		}
		if o.V.K == "int" && o.V.I == 2 {
			return "F"
		}
	case "bool", "nbool":
		if o.V.K == "bool" {
			if o.V.B == (mode == "bool") {
				return "T"
			}
			return "F"
		}
	}
	return "result:" + o.V.String()
}

// replay rendering -----------------------------------------------------------------

func litOr(v Val, name string) string {
	if l, ok := v.Lit(); ok {
		return "$" + name + " = " + l + ";"
	}
	return "$" + name + " = null; // NOT EXPRESSIBLE AS A LITERAL: bind " + v.Describe() + " (the in-process engine binds the Go value directly)"
}

func replayScript(title string, body string, a, b *Val, what string) string {
	var sb strings.Builder
	sb.WriteString("<?php\n// C03 replay — " + title + "\n")
	for _, l := range strings.Split(what, "\n") {
		sb.WriteString("// " + l + "\n")
	}
	sb.WriteString("class C03Obj { public $p = 1; }\n")
	if a != nil {
		sb.WriteString("// $a is " + a.Describe() + "\n" + litOr(*a, "a") + "\n")
	}
	if b != nil {
		sb.WriteString("// $b is " + b.Describe() + "\n" + litOr(*b, "b") + "\n")
	}
	sb.WriteString(body + "\n")
	sb.WriteString("echo gettype($r), ' ', json_encode($r), \"\\n\";\n")
	return sb.String()
}

// ---------------------------------------------------------------------------------

func kindsKey(a, b Val) string { return a.Kind() + "," + b.Kind() }

func kindsKeyUnordered(a, b Val) string {
	k := []string{a.Kind(), b.Kind()}
	sort.Strings(k)
	return k[0] + "," + k[1]
}

func (ws *workerState) count(o Outcome) {
	ws.evals++
	ws.outcomes[o.T]++
	if o.T == "parse" {
		ws.parseErr[o.Msg] = true
	}
}

// symptom of an outcome against a defined expectation ("" = agrees)
func symptom(exp Exp, o Outcome) string {
	switch {
	case exp.Throw:
		if o.T == "throw" {
			return ""
		}
		return "nothrow"
	case o.T == "throw":
		return "throw"
	case o.T != "value":
		return o.T
	case o.V.K != exp.V.K:
		return "type:" + strings.ReplaceAll(o.V.K, " ", "")
	case exp.KindOnly:
		return ""
	case !o.V.Equal(exp.V):
		if exp.Ulps > 0 && exp.V.K == "float" && withinUlps(o.V.Fl(), exp.V.Fl(), exp.Ulps) {
			return ""
		}
		return "value"
	}
	return ""
}

// withinUlps: two finite floats of the same sign at most n representable values apart.
func withinUlps(x, y float64, n int) bool {
	if math.IsNaN(x) || math.IsNaN(y) || math.IsInf(x, 0) || math.IsInf(y, 0) || (x < 0) != (y < 0) {
		return false
	}
	a, b := int64(math.Float64bits(math.Abs(x))), int64(math.Float64bits(math.Abs(y)))
	d := a - b
	if d < 0 {
		d = -d
	}
	return d <= int64(n)
}

func expString(e Exp) string {
	switch {
	case !e.Def:
		return "(not fixed by the reference)"
	case e.Throw:
		return "a catchable error"
	case e.KindOnly:
		return "a value of kind " + e.V.K
	}
	return e.V.String()
}

// judge one evaluation of operator op (binary when b != nil).
// base is the outcome of the plain expression form (nil when this *is* the plain form).
func (ws *workerState) judge(op, form, body string, a Val, b *Val, exp Exp, o Outcome, base *Outcome) {
	ws.count(o)
	var cell, expr string
	if b != nil {
		cell = op + "/" + kindsKey(a, *b)
		expr = a.String() + " " + op + " " + b.String()
	} else {
		cell = op + "/" + a.Kind()
		expr = opSrc(op) + a.String()
	}
	mk := func(what string) string {
		return replayScript(expr+" ["+form+" form]", body, &a, b, what)
	}
	if o.T == "parse" {
		return
	}
	if o.T == "panic" {
		key := "panic@" + o.Site + "/" + normPanic(o.Msg)
		what := fmt.Sprintf("%s [%s form] crashes the interpreter (Go panic outside try): %s at %s; operand classes %s", expr, form, short(o.Msg, 160), o.Site, subOf(a, b))
		ws.viol(key, what, mk(what))
		return
	}
	if exp.Def {
		if !exp.KindOnly {
			ws.nontriv++
			if len(ws.samples) < 4 && ws.evals%97 == 1 {
				ws.samples = append(ws.samples, fmt.Sprintf("%s [%s] -> %s (reference %s)", expr, form, o, expString(exp)))
			}
		}
		sym := symptom(exp, o)
		if sym == "" {
			return
		}
		if base != nil && base.same(o) {
			return // same defect as the plain form, reported there
		}
		if base != nil && zeroSignOnly(*base, o) {
			ws.zeroSign(form, expr, o, *base, mk)
			return
		}
		key := "bin/" + cell + "/" + sym
		if b == nil {
			key = "un/" + cell + "/" + sym
		}
		if exp.Note != "" {
			key += "/" + exp.Note
		}
		if base != nil {
			key += "/form=" + form
		}
		what := fmt.Sprintf("%s [%s form] gives %s, the reference gives %s; operand classes %s", expr, form, o, expString(exp), subOf(a, b))
		ws.viol(key, what, mk(what))
		return
	}
	// outside the exactly compared domain: the operator is still a function of its operands,
	// whatever the syntactic position it is used in
	if base != nil && zeroSignOnly(*base, o) {
		ws.zeroSign(form, expr, o, *base, mk)
		return
	}
	if base != nil && (a.K == "fn" || (b != nil && b.K == "fn")) && base.T == o.T && base.V.K == o.V.K {
		return // a closure's string form names the instance: only the kind of the result is comparable
	}
	if base != nil && !base.same(o) && base.T != "panic" {
		key := "form/" + form + "/" + cell
		what := fmt.Sprintf("%s gives %s in the %s form but %s as a plain expression; operand classes %s", expr, o, form, *base, subOf(a, b))
		ws.viol(key, what, mk(what))
	}
}

// zeroSignOnly: two float zero results that differ in sign only. When the plain expression
// and another syntactic form differ like this the operator computed the same value and the
// store into $r lost the sign: one defect, not one per operator and operand-kind pair.
func zeroSignOnly(x, y Outcome) bool {
	return x.T == "value" && y.T == "value" && x.V.K == "float" && y.V.K == "float" &&
		x.V.Fl() == 0 && y.V.Fl() == 0 && x.V.F != y.V.F
}

func (ws *workerState) zeroSign(form, expr string, o, base Outcome, mk func(string) string) {
	what := fmt.Sprintf("%s gives %s in the %s form but %s as a plain expression: the sign of a float zero is lost when the result is stored into a variable that already holds the other zero", expr, o, form, base)
	ws.viol("form/"+form+"/float-zero-sign", what, mk(what))
}

func subOf(a Val, b *Val) string {
	if b == nil {
		return a.Sub()
	}
	return a.Sub() + "," + b.Sub()
}

func (ws *workerState) doPair(a, b Val, lit bool) {
	ev := ws.ev
	res := map[string]Outcome{}
	la, oka := a.Lit()
	lb, okb := b.Lit()
	for _, op := range binaryOps {
		exp := refBinary(op, a, b)
		body := "$r = $a " + op + " $b;"
		oE := ev.eval(srcExpr(op), &a, &b, true)
		res[op] = oE
		if (op == "&&" || op == "||") && exp.Def && !exp.KindOnly && symptom(exp, oE) == "value" {
			// a wrong && / || result that follows from how the operands are (mis)judged as
			// truthy in this very operator is a truthiness violation of that operand class,
			// not one defect per operand-kind pair
			lhs, rhs := "<?php\n$r = $a && true;", "<?php\n$r = true && $a;"
			if op == "||" {
				lhs, rhs = "<?php\n$r = $a || false;", "<?php\n$r = false || $a;"
			}
			obsA := readTruth("bool", ev.eval(lhs, &a, nil, true))
			obsB := readTruth("bool", ev.eval(rhs, &b, nil, true))
			ws.evals += 2
			if e2, ok := ws.attributeLogic(op, a, b, oE.V.B, obsA, obsB, body); ok {
				exp = e2
			}
		}
		ws.judge(op, "expr", body, a, &b, exp, oE, nil)
		oA := ev.eval(srcAssign(op), &a, &b, true)
		ws.judge(op, "assign", body, a, &b, exp, oA, &oE)
		if compoundOf[op] != "" {
			oC := ev.eval(srcCompound(op), &a, &b, true)
			ws.judge(op, "compound", "$r = $a; $r "+compoundOf[op]+" $b;", a, &b, exp, oC, &oE)
		}
		if lit {
			if oka && okb && a.K != "obj" && b.K != "obj" {
				body := "$r = " + la + " " + op + " " + lb + ";"
				o := ev.eval("<?php\n"+body, nil, nil, false)
				ws.judge(op, "literals", body, a, &b, exp, o, &oE)
			}
			if okb && b.K != "obj" {
				body := "$r = $a " + op + " " + lb + ";"
				o := ev.eval("<?php\n"+body, &a, nil, false)
				ws.judge(op, "rhs-literal", body, a, &b, exp, o, &oE)
			}
			if oka && a.K != "obj" {
				body := "$r = " + la + " " + op + " $b;"
				o := ev.eval("<?php\n"+body, nil, &b, false)
				ws.judge(op, "lhs-literal", body, a, &b, exp, o, &oE)
			}
		}
	}
	ws.laws(a, b, res)
}

// attributeLogic: got is the (wrong) result of a && b / a || b; obsA, obsB are how the same
// operator judges each operand alone. When got is what those judgements imply, the violation
// is reported per misjudged operand class (same keys as the boolean contexts) and the
// expectation implied by the observed truthiness is returned for the remaining forms.
func (ws *workerState) attributeLogic(op string, a, b Val, got bool, obsA, obsB, body string) (Exp, bool) {
	if (obsA != "T" && obsA != "F") || (obsB != "T" && obsB != "F") {
		return Exp{}, false
	}
	ta, tb := obsA == "T", obsB == "T"
	implied := ta && tb
	ctxA, ctxB := "and", "and.rhs"
	if op == "||" {
		implied = ta || tb
		ctxA, ctxB = "or", "or.rhs"
	}
	if implied != got {
		return Exp{}, false
	}
	n := 0
	for _, x := range []struct {
		v   Val
		obs bool
		ctx string
	}{{a, ta, ctxA}, {b, tb, ctxB}} {
		if ref, ok := truthy(x.v); ok && ref != x.obs {
			n++
			what := fmt.Sprintf("%s must be %s in every boolean context but operator %s judges it %s (%s %s %s gives %v)", x.v, tf(ref), op, tf(x.obs), a, op, b, got)
			ws.viol("truthy/"+x.v.Sub()+"/"+x.ctx, what, replayScript(a.String()+" "+op+" "+b.String(), body, &a, &b, what))
		}
	}
	if n == 0 {
		return Exp{}, false
	}
	return expV(vBool(got)), true
}

func tf(b bool) string {
	if b {
		return "truthy"
	}
	return "falsy"
}

func isBoolVal(o Outcome) (bool, bool) {
	if o.T == "value" && o.V.K == "bool" {
		return o.V.B, true
	}
	return false, false
}

// laws (ii) on every pair, from the plain-expression outcomes.
func (ws *workerState) laws(a, b Val, res map[string]Outcome) {
	pair := a.String() + " , " + b.String()
	law := func(name, keyKinds, what, body string) {
		key := "law/" + name + "/" + keyKinds
		w := what + "; operand classes " + subOf(a, &b)
		ws.viol(key, w, replayScript("law "+name+" on "+pair, body, &a, &b, w))
	}
	ws.evals++ // the reversed == below
	// kinds of comparison results
	for _, op := range []string{"==", "!=", "===", "!==", "<", "<=", ">", ">="} {
		if o := res[op]; o.T == "value" && o.V.K != "bool" {
			law("kind/"+op, kindsKey(a, b), fmt.Sprintf("%s %s %s is %s, not a bool", a, op, b, o), "$r = $a "+op+" $b;")
		}
	}
	if o := res["<=>"]; o.T == "value" && !(o.V.K == "int" && o.V.I >= -1 && o.V.I <= 1) {
		law("kind/<=>", kindsKey(a, b), fmt.Sprintf("%s <=> %s is %s, not -1, 0 or 1", a, b, o), "$r = $a <=> $b;")
	}
	// == symmetric
	// (where the reference fixes every evaluation involved the exact comparison already says
	// everything; the laws are for the rest of the operand space)
	def := func(op string, x, y Val) bool { e := refBinary(op, x, y); return e.Def && !e.KindOnly }
	rev := ws.ev.eval(srcExpr("=="), &b, &a, true)
	if x, ok := isBoolVal(res["=="]); ok && !(def("==", a, b) && def("==", b, a)) {
		if y, ok := isBoolVal(rev); ok && x != y {
			law("eq-sym", kindsKeyUnordered(a, b), fmt.Sprintf("(%s == %s) is %v but (%s == %s) is %v", a, b, x, b, a, y),
				"$r = [$a == $b, $b == $a];")
		}
	}
	// complements
	if x, ok := isBoolVal(res["=="]); ok && !(def("==", a, b) && def("!=", a, b)) {
		if y, ok := isBoolVal(res["!="]); ok && x == y {
			law("ne-compl", kindsKey(a, b), fmt.Sprintf("(%s == %s) and (%s != %s) are both %v", a, b, a, b, x), "$r = [$a == $b, $a != $b];")
		}
	}
	if x, ok := isBoolVal(res["==="]); ok && !(def("===", a, b) && def("!==", a, b)) {
		if y, ok := isBoolVal(res["!=="]); ok && x == y {
			law("nes-compl", kindsKey(a, b), fmt.Sprintf("(%s === %s) and (%s !== %s) are both %v", a, b, a, b, x), "$r = [$a === $b, $a !== $b];")
		}
	}
	// <=> agrees with < and > (NaN excluded: neither statement nor docs say what <=> does there)
	if !a.IsNaN() && !b.IsNaN() && !(def("<=>", a, b) && def("<", a, b) && def(">", a, b)) {
		sp := res["<=>"]
		lt, okl := isBoolVal(res["<"])
		gt, okg := isBoolVal(res[">"])
		if sp.T == "value" && sp.V.K == "int" && okl && okg {
			if (sp.V.I < 0) != lt || (sp.V.I > 0) != gt {
				law("spaceship", kindsKey(a, b), fmt.Sprintf("(%s <=> %s) is %d but (<) is %v and (>) is %v", a, b, sp.V.I, lt, gt),
					"$r = [$a <=> $b, $a < $b, $a > $b];")
			}
		}
	}
}

func (ws *workerState) doUnary(a Val) {
	ev := ws.ev
	for _, op := range unaryOps {
		exp := refUnary(op, a)
		body := "$r = " + opSrc(op) + "$a;"
		oE := ev.eval(srcUnaryExpr(op), &a, nil, true)
		ws.judge(op, "expr", body, a, nil, exp, oE, nil)
		oA := ev.eval(srcUnaryAssign(op), &a, nil, true)
		ws.judge(op, "assign", body, a, nil, exp, oA, &oE)
		if oE.T == "value" && oE.Nil {
			// not null, not an error: nothing. Stored into a variable it becomes null, but as the
			// operand of an enclosing operator it stays absent (so !-true is null, not a bool)
			what := fmt.Sprintf("%s%s evaluates to no value at all (neither a value nor a catchable error): `$t = %s$a; !$t` and `!%s$a` differ; operand class %s", opSrc(op), a, opSrc(op), opSrc(op), a.Sub())
			ws.viol("un/"+op+"/"+a.Kind()+"/no-value", what, replayScript("no value from "+opSrc(op)+a.String(), "$r = !"+opSrc(op)+"$a;", &a, nil, what))
		}
		if op == "!" && !oE.Nil {
			if o := oE; o.T == "value" && o.V.K != "bool" {
				what := fmt.Sprintf("!%s is %s, not a bool; operand class %s", a, o, a.Sub())
				ws.viol("law/kind/!/"+a.Kind(), what, replayScript("law kind/! on "+a.String(), body, &a, nil, what))
			}
		}
	}
	// nested unary operators: juxtaposed, parenthesised, with a literal operand; each against
	// the composed reference and against the same applications done one statement at a time
	lit, okLit := a.Lit()
	for _, c := range unaryChains {
		exp := refUnaryChain(c, a)
		staged := chainStaged(c, "$a")
		oS := ev.eval("<?php\n"+staged, &a, nil, true)
		if ws.chainHasNoValue(c, a) {
			ws.count(oS)
			continue // reported once per operator and kind as un/<op>/<kind>/no-value
		}
		ws.judge(c.Name, "expr", staged, a, nil, exp, oS, nil)
		for _, parens := range []bool{false, true} {
			form := "nested"
			if parens {
				form = "nested-parens"
			}
			body := "$r = " + chainSrc(c, "$a", parens) + ";"
			o := ev.eval("<?php\n"+body, &a, nil, true)
			ws.judge(c.Name, form, body, a, nil, exp, o, &oS)
		}
		if okLit && a.K != "obj" && a.K != "fn" {
			body := "$r = " + chainSrc(c, lit, false) + ";"
			o := ev.eval("<?php\n"+body, nil, nil, false)
			ws.judge(c.Name, "nested-literal", body, a, nil, exp, o, &oS)
		}
	}
	// (iii) truthiness is context independent
	ref, okRef := truthy(a)
	obs := make([]string, len(truthCtxs))
	var line []string
	for i, tc := range truthCtxs {
		o := ev.eval(tc.Src, &a, nil, true)
		ws.count(o)
		if o.T == "panic" {
			key := "panic@" + o.Site + "/" + normPanic(o.Msg)
			what := fmt.Sprintf("%s in boolean context '%s' crashes the interpreter (Go panic outside try): %s at %s", a, tc.Name, short(o.Msg, 160), o.Site)
			ws.viol(key, what, replayScript("truthiness of "+a.String()+" in "+tc.Name, strings.TrimPrefix(tc.Src, "<?php\n"), &a, nil, what))
		}
		obs[i] = readTruth(tc.Mode, o)
		line = append(line, tc.Name+"="+obs[i])
	}
	all := strings.Join(line, " ")
	if okRef {
		ws.nontriv++
		want := "F"
		if ref {
			want = "T"
		}
		for i, tc := range truthCtxs {
			if obs[i] != want && obs[i] != "panic" {
				key := "truthy/" + a.Sub() + "/" + tc.Name
				what := fmt.Sprintf("%s must be %s in every boolean context but is %s in '%s' (all contexts: %s)", a, want, obs[i], tc.Name, all)
				ws.viol(key, what, replayScript("truthiness of "+a.String()+" in "+tc.Name, strings.TrimPrefix(tc.Src, "<?php\n"), &a, nil, what))
			}
		}
		return
	}
	first := ""
	for i := range truthCtxs {
		if obs[i] == "panic" {
			continue
		}
		if first == "" {
			first = obs[i]
		}
		if obs[i] != first || (obs[i] != "T" && obs[i] != "F") {
			key := "truthy-incoherent/" + a.Sub()
			what := fmt.Sprintf("%s is not equally truthy in all boolean contexts: %s", a, all)
			ws.viol(key, what, replayScript("truthiness of "+a.String(), "$r = [$a ? 1 : 2, !$a, (bool)$a, $a && true, $a || false];", &a, nil, what))
			break
		}
	}
}

// ---------------------------------------------------------------------------------
// the same value on both sides

var cmpOps = []string{"==", "!=", "===", "!==", "<", "<=", ">", ">=", "<=>"}

type sameForm struct {
	Name string
	Pre  string // statements before the expression
	L, R string // operand spellings
}

var sameForms = []sameForm{
	{"same-var", "", "$a", "$a"},
	{"alias", "$b = $a;\n", "$a", "$b"},
	{"ref", "$b = &$a;\n", "$a", "$b"},
}

// reflexive judges the laws every value obeys against itself, from the outcomes res[op] of
// `v OP v` in one syntactic form: v == v, !(v != v), v === v, !(v !== v), v <=> v is 0,
// !(v < v), !(v > v), v <= v, v >= v (NaN: only the complements and !(<), !(>)).
// Where the reference fixes the evaluation exactly that comparison already decides it.
func (ws *workerState) reflexive(v Val, form string, res map[string]Outcome, replay func(op, what string) string) {
	nan := v.IsNaN()
	def := func(op string) bool { e := refBinary(op, v, v); return e.Def && !e.KindOnly }
	want := map[string]bool{"==": true, "!=": false, "===": true, "!==": false, "<": false, ">": false, "<=": true, ">=": true}
	for _, op := range []string{"==", "!=", "===", "!==", "<", ">", "<=", ">="} {
		if def(op) || (nan && op != "<" && op != ">") {
			continue
		}
		if got, ok := isBoolVal(res[op]); ok && got != want[op] {
			what := fmt.Sprintf("%s %s %s with the same value on both sides [%s form] is %v; operand class %s", v, op, v, form, got, v.Sub())
			ws.viol("law/reflexive/"+op+"/"+v.Kind(), what, replay(op, what))
		}
	}
	if o := res["<=>"]; !def("<=>") && !nan && o.T == "value" && o.V.K == "int" && o.V.I != 0 {
		what := fmt.Sprintf("%s <=> %s with the same value on both sides [%s form] is %d; operand class %s", v, v, form, o.V.I, v.Sub())
		ws.viol("law/reflexive/<=>/"+v.Kind(), what, replay("<=>", what))
	}
	for _, p := range [][2]string{{"==", "!="}, {"===", "!=="}} {
		if def(p[0]) && def(p[1]) {
			continue
		}
		x, okx := isBoolVal(res[p[0]])
		y, oky := isBoolVal(res[p[1]])
		if okx && oky && x == y {
			what := fmt.Sprintf("(%s %s %s) and (%s %s %s) with the same value on both sides [%s form] are both %v: not complements; operand class %s", v, p[0], v, v, p[1], v, form, x, v.Sub())
			ws.viol("law/reflexive/compl"+p[0]+"/"+v.Kind(), what, replay(p[1], what))
		}
	}
}

func (ws *workerState) doSame(v Val) {
	ev := ws.ev
	scalar := v.IsScalar()
	for _, f := range sameForms {
		res := map[string]Outcome{}
		for _, op := range binaryOps {
			src := "<?php\n" + f.Pre + f.L + " " + op + " " + f.R + ";"
			body := f.Pre + "$r = " + f.L + " " + op + " " + f.R + ";"
			o := ev.eval(src, &v, nil, true)
			res[op] = o
			ws.judgeSame(op, f.Name, body, v, scalar, o)
		}
		form := f
		if v.Kind() == "arr" && f.Name == "alias" {
			continue // $b = $a copies an array; equality of two equal arrays is not this property's
		}
		ws.reflexive(v, f.Name, res, func(op, what string) string {
			return replayScript(v.String()+" "+op+" itself ["+form.Name+" form]", form.Pre+"$r = "+form.L+" "+op+" "+form.R+";", &v, nil, what)
		})
	}
	// one Go value bound to both variables (what two reads of one array element or property give)
	res := map[string]Outcome{}
	for _, op := range binaryOps {
		o := ev.evalSamePtr(srcExpr(op), v)
		res[op] = o
		ws.judgeSame(op, "same-instance", "$b = $a;\n$r = $a "+op+" $b;", v, scalar, o)
	}
	if v.Kind() != "arr" { // binding clones arrays
		ws.reflexive(v, "same-instance", res, func(op, what string) string {
			return replayScript(v.String()+" "+op+" itself [same-instance form]", "$b = $a;\n$r = $a "+op+" $b;", &v, nil, what)
		})
	}
	// $r OP= $r
	for _, op := range binaryOps {
		if compoundOf[op] == "" {
			continue
		}
		body := "$r = $a;\n$r " + compoundOf[op] + " $r;"
		o := ev.eval("<?php\n"+body, &v, nil, true)
		ws.judgeSame(op, "compound-self", body, v, scalar, o)
	}
}

// judgeSame: scalars have no identity, so `v OP v` must be what the reference says and, where
// it says nothing, what two separately built equal operands give. Objects, arrays and closures
// get the no-crash clause and the reflexive laws only (an object is legitimately == itself and
// != a second instance).
func (ws *workerState) judgeSame(op, form, body string, v Val, scalar bool, o Outcome) {
	if !scalar {
		ws.judge(op, form, body, v, &v, Exp{}, o, nil)
		return
	}
	base := ws.ev.eval(srcExpr(op), &v, &v, true)
	ws.evals++
	ws.judge(op, form, body, v, &v, refBinary(op, v, v), o, &base)
}

// chainHasNoValue: some inner application of the chain, evaluated on the value the previous ones
// produce, yields no value (Go nil). Nested and staged evaluation then differ for that one
// reason, which has its own key.
func (ws *workerState) chainHasNoValue(c unaryChain, a Val) bool {
	cur := a
	for i := len(c.Ops) - 1; i >= 1; i-- {
		o := ws.ev.eval(srcUnaryExpr(c.Ops[i]), &cur, nil, true)
		ws.evals++
		if o.T != "value" {
			return false // throws / panics: both spellings stop there
		}
		if o.Nil {
			return true
		}
		switch o.V.K {
		case "int", "float", "str", "bool", "null":
			cur = o.V
		default:
			return false
		}
	}
	return false
}
