package main

import (
	"math"
	"math/big"
	"strconv"
)

// The reference semantics. Only what the property statement, DESIGN.md §C03 and
// docs/operators.md + docs/data-types.md fix is "defined"; everything else is left to the
// coherence laws and the no-crash clause.

var binaryOps = []string{"+", "-", "*", "/", "%", "**", "&", "|", "^", "<<", ">>",
	"==", "!=", "===", "!==", "<", "<=", ">", ">=", "<=>", "&&", "||", "."}

// compound assignment spelling of a binary operator ("" = none)
var compoundOf = map[string]string{"+": "+=", "-": "-=", "*": "*=", "/": "/=", "%": "%=", "**": "**=",
	"&": "&=", "|": "|=", "^": "^=", "<<": "<<=", ">>": ">>=", ".": ".="}

var unaryOps = []string{"!", "~", "neg"}

// Exp is what the reference demands for one evaluation.
type Exp struct {
	Def      bool   // the reference defines the outcome
	Throw    bool   // a catchable error
	V        Val    // the value (kind + payload)
	KindOnly bool   // only V.K is demanded
	Ulps     int    // float value may be off by this many units in the last place (0 = exact)
	Note     string // appended to the violation key: which part of the cell this evaluation is in
}

func expV(v Val) Exp       { return Exp{Def: true, V: v} }
func expThrow() Exp        { return Exp{Def: true, Throw: true} }
func undefined() Exp       { return Exp{} }
func expKind(k string) Exp { return Exp{Def: true, KindOnly: true, V: Val{K: k}} }

// truthy is the reference truthiness; ok=false where the documents leave it open
// (the string "0": PHP says false, origami's documents only say "non-empty string is true";
// NaN; blank-ish strings are fine: only "" is false).
func truthy(v Val) (t bool, ok bool) {
	switch v.K {
	case "bool":
		return v.B, true
	case "int":
		return v.I != 0, true
	case "float":
		if math.IsNaN(v.Fl()) {
			return false, false
		}
		return v.Fl() != 0, true
	case "str":
		if v.S == "0" {
			return false, false
		}
		return v.S != "", true
	case "null":
		return false, true
	case "arr0":
		return false, true
	case "arr1", "amap":
		return true, true
	case "obj", "fn":
		return true, true
	}
	return false, false
}

func bigFits(z *big.Int) (int64, bool) {
	if z.IsInt64() {
		return z.Int64(), true
	}
	return 0, false
}

func isZeroNum(v Val) bool {
	if v.K == "int" {
		return v.I == 0
	}
	return v.Fl() == 0
}

const two53 = 1 << 53

// cmpNum compares two numeric operands; ok=false when the mixed int/float comparison is not
// exactly defined (|int| above 2^53, where int->float conversion rounds) or a NaN is involved
// (nan=true then: every ordered comparison and == is false, != is true).
func cmpNum(a, b Val) (c int, nan bool, ok bool) {
	if a.K == "int" && b.K == "int" {
		switch {
		case a.I < b.I:
			return -1, false, true
		case a.I > b.I:
			return 1, false, true
		}
		return 0, false, true
	}
	for _, x := range []Val{a, b} {
		if x.K == "int" && (x.I > two53 || x.I < -two53) {
			return 0, false, false
		}
	}
	fa, fb := a.AsF(), b.AsF()
	if math.IsNaN(fa) || math.IsNaN(fb) {
		return 0, true, true
	}
	switch {
	case fa < fb:
		return -1, false, true
	case fa > fb:
		return 1, false, true
	}
	return 0, false, true
}

func cmpStr(a, b string) int {
	switch {
	case a < b:
		return -1
	case a > b:
		return 1
	}
	return 0
}

func dotString(v Val) (string, bool) {
	switch v.K {
	case "int":
		return strconv.FormatInt(v.I, 10), true
	case "str":
		return v.S, true
	}
	return "", false
}

// strictEqual: same kind and same value (scalars only).
func strictEqual(a, b Val) bool {
	if a.K != b.K {
		return false
	}
	switch a.K {
	case "int":
		return a.I == b.I
	case "float":
		return a.Fl() == b.Fl()
	case "str":
		return a.S == b.S
	case "bool":
		return a.B == b.B
	}
	return true // null
}

func refBinary(op string, a, b Val) Exp {
	if !a.IsScalar() || !b.IsScalar() {
		return undefined()
	}
	num := a.IsNum() && b.IsNum()
	ii := a.K == "int" && b.K == "int"
	ss := a.K == "str" && b.K == "str"
	strDomain := ss && !(isNumericString(a.S) && isNumericString(b.S))
	switch op {
	case "+", "-", "*":
		if ii {
			x, y := big.NewInt(a.I), big.NewInt(b.I)
			z := new(big.Int)
			switch op {
			case "+":
				z.Add(x, y)
			case "-":
				z.Sub(x, y)
			case "*":
				z.Mul(x, y)
			}
			if v, ok := bigFits(z); ok {
				return expV(vInt(v))
			}
			return undefined() // overflow: the statement says 64-bit integers, PHP says float
		}
		if num {
			fa, fb := a.AsF(), b.AsF()
			switch op {
			case "+":
				return expV(vFloat(fa + fb))
			case "-":
				return expV(vFloat(fa - fb))
			}
			return expV(vFloat(fa * fb))
		}
		if op == "+" && ss && !isNumericString(a.S) && !isNumericString(b.S) {
			return expV(vStr(a.S + b.S)) // docs/operators.md: + on strings concatenates
		}
	case "/":
		if num {
			if isZeroNum(b) {
				return expThrow()
			}
			return expV(vFloat(a.AsF() / b.AsF()))
		}
	case "%":
		if num && isZeroNum(b) {
			return expThrow()
		}
		if ii {
			if b.I == -1 {
				return expV(vInt(0))
			}
			return expV(vInt(a.I % b.I))
		}
	case "**":
		if ii {
			if b.I < 0 {
				return undefined()
			}
			// the result is the exact integer while it fits and a float (the nearest one, give
			// or take pow's rounding) when it does not: an int that wrapped around is garbage
			if b.I > two53 && a.I != 0 && a.I != 1 {
				return undefined() // the exponent itself is not a float64: parity is lost on the float path
			}
			if b.I > 1100 && a.I != 0 && a.I != 1 && a.I != -1 {
				inf := math.Inf(1)
				if a.I < 0 && b.I%2 == 1 {
					inf = math.Inf(-1)
				}
				return expV(vFloat(inf))
			}
			z := new(big.Int).Exp(big.NewInt(a.I), big.NewInt(b.I), nil)
			if v, ok := bigFits(z); ok {
				return expV(vInt(v))
			}
			f, _ := new(big.Float).SetInt(z).Float64()
			e := expV(vFloat(f))
			// float pow squares repeatedly (relative error grows with the exponent) and a base
			// above 2^53 is rounded before it is raised
			e.Ulps = 16 + 2*int(b.I)
			e.Note = "above-2^63" // |exact result| beyond the int range
			if z.Cmp(new(big.Int).Lsh(big.NewInt(1), 63)) == 0 {
				e.Note = "at-2^63" // exactly MaxInt+1: the float-to-int range test's own boundary
			}
			return e
		}
		if num {
			return expV(vFloat(math.Pow(a.AsF(), b.AsF())))
		}
	case "&", "|", "^":
		if ii {
			switch op {
			case "&":
				return expV(vInt(a.I & b.I))
			case "|":
				return expV(vInt(a.I | b.I))
			}
			return expV(vInt(a.I ^ b.I))
		}
	case "<<", ">>":
		if ii && b.I >= 0 {
			if b.I > 63 {
				// at or over the width: << shifts everything out, >> is arithmetic (sign fill)
				if op == ">>" && a.I < 0 {
					return expV(vInt(-1))
				}
				return expV(vInt(0))
			}
			if op == "<<" {
				return expV(vInt(a.I << uint(b.I)))
			}
			return expV(vInt(a.I >> uint(b.I)))
		}
	case "===", "!==":
		eq := strictEqual(a, b)
		return expV(vBool(eq == (op == "===")))
	case "==", "!=":
		var eq bool
		switch {
		case num:
			c, nan, ok := cmpNum(a, b)
			if !ok {
				return undefined()
			}
			eq = !nan && c == 0
		case strDomain:
			eq = a.S == b.S
		case a.K == "bool" && b.K == "bool":
			eq = a.B == b.B
		case a.K == "null" && b.K == "null":
			eq = true
		default:
			return undefined()
		}
		return expV(vBool(eq == (op == "==")))
	case "<", "<=", ">", ">=", "<=>":
		var c int
		nan := false
		switch {
		case num:
			var ok bool
			c, nan, ok = cmpNum(a, b)
			if !ok {
				return undefined()
			}
		case strDomain:
			c = cmpStr(a.S, b.S)
		default:
			return undefined()
		}
		if op == "<=>" {
			if nan {
				return undefined()
			}
			return expV(vInt(int64(c)))
		}
		if nan {
			return expV(vBool(false))
		}
		switch op {
		case "<":
			return expV(vBool(c < 0))
		case "<=":
			return expV(vBool(c <= 0))
		case ">":
			return expV(vBool(c > 0))
		}
		return expV(vBool(c >= 0))
	case "&&", "||":
		ta, oka := truthy(a)
		tb, okb := truthy(b)
		if op == "&&" {
			if oka && !ta {
				return expV(vBool(false))
			}
			if oka && okb {
				return expV(vBool(ta && tb))
			}
		} else {
			if oka && ta {
				return expV(vBool(true))
			}
			if oka && okb {
				return expV(vBool(ta || tb))
			}
		}
		return expKind("bool")
	case ".":
		sa, oka := dotString(a)
		sb, okb := dotString(b)
		if oka && okb {
			return expV(vStr(sa + sb))
		}
		return expKind("str")
	}
	return undefined()
}

func refUnary(op string, a Val) Exp {
	if !a.IsScalar() {
		return undefined()
	}
	switch op {
	case "!":
		// the value of !$a is judged as the boolean context 'not' (truthiness, clause iii)
		return expKind("bool")
	case "~":
		if a.K == "int" {
			return expV(vInt(^a.I))
		}
	case "neg":
		if a.K == "int" && a.I != minInt {
			return expV(vInt(-a.I))
		}
		if a.K == "float" {
			return expV(vFloat(-a.Fl()))
		}
	}
	return undefined()
}

// ---------------------------------------------------------------------------------
// nested unary operators: every sequence of two and three of ! ~ - (outermost first)

type unaryChain struct {
	Name string   // key spelling, e.g. "!!", "--" (= - -$a), "~-"
	Ops  []string // outermost first, elements of unaryOps
}

var unaryChains = func() []unaryChain {
	var out []unaryChain
	sym := map[string]string{"!": "!", "~": "~", "neg": "-"}
	var rec func(prefix []string, n int)
	rec = func(prefix []string, n int) {
		if n == 0 {
			name := ""
			for _, o := range prefix {
				name += sym[o]
			}
			out = append(out, unaryChain{name, append([]string{}, prefix...)})
			return
		}
		for _, o := range unaryOps {
			rec(append(prefix, o), n-1)
		}
	}
	rec(nil, 2)
	rec(nil, 3)
	return out
}()

// chainSrc spells the chain applied to operand text x; parens=true wraps every inner application.
func chainSrc(c unaryChain, x string, parens bool) string {
	s := x
	for i := len(c.Ops) - 1; i >= 0; i-- {
		o := opSrc(c.Ops[i])
		if parens && i != len(c.Ops)-1 {
			s = o + "(" + s + ")"
		} else if o == "-" && len(s) > 0 && s[0] == '-' {
			s = o + " " + s // "--" would be a decrement
		} else {
			s = o + s
		}
	}
	return s
}

// chainStaged spells the same applications one statement at a time ($r holds the result).
func chainStaged(c unaryChain, x string) string {
	s := "$r = " + opSrc(c.Ops[len(c.Ops)-1]) + x + ";"
	for i := len(c.Ops) - 2; i >= 0; i-- {
		s += "\n$r = " + opSrc(c.Ops[i]) + "$r;"
	}
	return s
}

// refUnaryChain composes the reference; every application coerces its operand first, so a
// doubled operator is not the identity (!!5 is true, not 5).
func refUnaryChain(c unaryChain, a Val) Exp {
	v := a
	for i := len(c.Ops) - 1; i >= 0; i-- {
		if !v.IsScalar() {
			break
		}
		var e Exp
		if c.Ops[i] == "!" {
			t, ok := truthy(v)
			if !ok {
				e = undefined()
			} else {
				e = expV(vBool(!t))
			}
		} else {
			e = refUnary(c.Ops[i], v)
		}
		if !e.Def || e.KindOnly || e.Throw {
			if i == 0 && c.Ops[0] == "!" {
				return expKind("bool") // operand known ("0", NaN), only its truthiness is open
			}
			return undefined()
		}
		v = e.V
		if i == 0 {
			return expV(v)
		}
	}
	return undefined()
}
