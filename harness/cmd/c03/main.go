// Command c03 checks property C03: scalar operators give reference results; truthiness is
// context independent; no operand combination crashes the interpreter.
//
// Two engines (DESIGN.md §C03):
//   - in-process workers (child processes of this driver, `c03 worker in out`): every operator
//     is parsed as `$a OP $b` and evaluated with Go values bound straight into the context, so
//     results are compared bit-exactly and a Go panic outside `try` is observed by recover();
//   - the real CLI: a seeded sample of the same cases as one-case scripts (also the replays).
package main

import (
	"bufio"
	"encoding/hex"
	"encoding/json"
	"fmt"
	"math"
	"os"
	"path/filepath"
	"runtime"
	"sort"
	"strconv"
	"strings"
	"sync"
	"time"

	"verif/lib"
)

type found struct {
	idx               int
	key, what, replay string
}

type merger struct {
	mu     sync.Mutex
	best   map[string]found
	counts map[string]int
}

func (m *merger) add(f found) {
	m.mu.Lock()
	defer m.mu.Unlock()
	if old, ok := m.best[f.key]; !ok || f.idx < old.idx {
		m.best[f.key] = f
	}
}

func main() {
	if len(os.Args) >= 4 && os.Args[1] == "worker" {
		workerMain(os.Args[2], os.Args[3])
		return
	}
	e := lib.Init("C03", "exploration")
	e.RunScriptWitnesses()

	pool := poolValues()
	// ---- case lists: a pure function of seed and tier
	type pairT = [2]Val
	var poolPairs, randPairs []pairT
	seen := map[string]bool{}
	pkey := func(a, b Val) string {
		x, _ := json.Marshal([2]Val{a, b})
		return string(x)
	}
	for _, a := range pool {
		for _, b := range pool {
			if k := pkey(a, b); !seen[k] {
				seen[k] = true
				poolPairs = append(poolPairs, pairT{a, b})
			}
		}
	}
	// boundary-directed pairs (deterministic): enumerated like the pool, all forms
	bnd := boundaryPairs()
	nPoolOnly := len(poolPairs)
	var bndKept []bpair
	for _, bp := range bnd {
		if k := pkey(bp.A, bp.B); !seen[k] {
			seen[k] = true
			poolPairs = append(poolPairs, pairT{bp.A, bp.B})
			bndKept = append(bndKept, bp)
		}
	}
	rp := e.Rand("pairs")
	nRand := e.Pick(8000, 400000)
	for len(randPairs) < nRand {
		a, b := randPair(rp, pool)
		if k := pkey(a, b); !seen[k] {
			seen[k] = true
			randPairs = append(randPairs, pairT{a, b})
		}
	}
	seen = nil
	var unary []Val
	useen := map[string]bool{}
	addU := func(v Val) {
		x, _ := json.Marshal(v)
		if !useen[string(x)] {
			useen[string(x)] = true
			unary = append(unary, v)
		}
	}
	for _, v := range pool {
		addU(v)
	}
	ru := e.Rand("unary")
	for i := 0; i < e.Pick(64, 2000); i++ {
		for _, k := range []string{"int", "float", "str"} {
			addU(randOfKind(ru, k))
		}
	}

	// ---- engine 1: in-process workers
	nw := runtime.NumCPU()
	if nw > 16 {
		nw = 16
	}
	if nw < 2 {
		nw = 2
	}
	shards := make([]workerIn, nw)
	for i, p := range poolPairs {
		s := &shards[i%nw]
		s.Pairs = append(s.Pairs, p)
	}
	for i := range shards {
		shards[i].LitUpTo = len(shards[i].Pairs)
	}
	for i, p := range randPairs {
		s := &shards[i%nw]
		s.Pairs = append(s.Pairs, p)
	}
	for i, v := range unary {
		s := &shards[i%nw]
		s.Unary = append(s.Unary, v)
		s.Same = append(s.Same, v)
	}
	base := 0
	for i := range shards {
		shards[i].BaseIdx = base
		base += len(shards[i].Pairs) + len(shards[i].Unary) + len(shards[i].Same)
	}
	mg := &merger{best: map[string]found{}, counts: map[string]int{}}
	var tot struct {
		sync.Mutex
		evals, nontriv, parses, restarts, items int
		parseErr                                map[string]bool
		samples                                 []string
		outcomes                                map[string]int
	}
	tot.parseErr = map[string]bool{}
	tot.outcomes = map[string]int{}
	self := e.Bin("c03")
	t0 := time.Now()
	lib.ParallelMap(nw, nw, func(w int) {
		sh := shards[w]
		n := len(sh.Pairs) + len(sh.Unary) + len(sh.Same)
		start := 0
		for attempt := 0; start < n; attempt++ {
			if attempt > 25 {
				e.Inconclusive(fmt.Sprintf("worker %d: gave up after %d restarts", w, attempt))
				return
			}
			sh.Start = start
			inP := filepath.Join(e.Scratch, fmt.Sprintf("w%d-%d.in.json", w, attempt))
			outP := filepath.Join(e.Scratch, fmt.Sprintf("w%d-%d.out", w, attempt))
			b, _ := json.Marshal(sh)
			_ = os.WriteFile(inP, b, 0o644)
			r := lib.RunProc(lib.ProcSpec{Argv: []string{self, "worker", inP, outP}, Dir: e.Scratch, Timeout: time.Duration(e.Pick(15, 60)) * time.Minute})
			done, lastB, lastE := readWorkerOut(outP, mg, &tot.Mutex, func(d doneLine) {
				tot.evals += d.Evals
				tot.nontriv += d.Nontriv
				tot.parses += d.Parses
				for _, p := range d.ParseErr {
					tot.parseErr[p] = true
				}
				tot.samples = append(tot.samples, d.Samples...)
				for k, v := range d.Outcomes {
					tot.outcomes[k] += v
				}
				mg.mu.Lock()
				for k, v := range d.Counts {
					mg.counts[k] += v
				}
				mg.mu.Unlock()
			})
			_ = os.Remove(inP)
			_ = os.Remove(outP)
			if done {
				tot.Lock()
				tot.items += n - start
				tot.Unlock()
				return
			}
			if r.TimedOut {
				e.Inconclusive(fmt.Sprintf("worker %d: watchdog fired at item %d", w, lastB))
				return
			}
			if lastB < 0 || lastB == lastE {
				e.Inconclusive(fmt.Sprintf("worker %d died outside a case (exit %d %s): %s", w, r.Exit, r.Signal, short(r.Stderr, 300)))
				return
			}
			// the item that began and did not end killed the process
			var a, b2 Val
			desc := ""
			if lastB < len(sh.Pairs) {
				a, b2 = sh.Pairs[lastB][0], sh.Pairs[lastB][1]
				desc = a.String() + " , " + b2.String()
			} else if lastB < len(sh.Pairs)+len(sh.Unary) {
				a = sh.Unary[lastB-len(sh.Pairs)]
				desc = a.String()
			} else {
				a = sh.Same[lastB-len(sh.Pairs)-len(sh.Unary)]
				b2 = a
				desc = a.String() + " on both sides"
			}
			_, cls := lib.GoCrash(r)
			site := panicSite(r.Stderr)
			what := fmt.Sprintf("evaluating the operators on operands %s killed the in-process worker (not recoverable): %s", desc, cls)
			mg.add(found{idx: sh.BaseIdx + lastB, key: "died@" + site, what: what, replay: replayScript("worker death on "+desc, "$r = null; // all operators were being applied to $a, $b", &a, &b2, what+"\n"+short(r.Stderr, 1500))})
			tot.Lock()
			tot.restarts++
			tot.items += lastB + 1 - start
			tot.Unlock()
			start = lastB + 1
		}
	})

	e.Extra("in_process_wall_s", float64(int(time.Since(t0).Seconds()*10))/10)
	// ---- engine 2: the real CLI on a seeded sample
	t1 := time.Now()
	cliStats := runCLI(e, mg, pool, poolPairs[:nPoolOnly], bndKept, randPairs, unary, base)

	e.Extra("cli_wall_s", float64(int(time.Since(t1).Seconds()*10))/10)
	// ---- verdicts
	keys := make([]string, 0, len(mg.best))
	for k := range mg.best {
		keys = append(keys, k)
	}
	sort.Strings(keys)
	for _, k := range keys {
		f := mg.best[k]
		e.Violation(k, f.what, "php", []byte(f.replay))
	}
	if len(tot.parseErr) > 0 {
		var pe []string
		for k := range tot.parseErr {
			pe = append(pe, k)
		}
		sort.Strings(pe)
		if len(pe) > 8 {
			pe = pe[:8]
		}
		e.Inconclusive("some operator templates were rejected by the parser (not judged): " + strings.Join(pe, " | "))
	}
	e.Extra("in_process_evaluations", tot.evals)
	e.Extra("in_process_items", tot.items)
	e.Extra("in_process_parses", tot.parses)
	e.Extra("in_process_outcomes", tot.outcomes)
	e.Extra("worker_restarts", tot.restarts)
	e.Extra("pool_values", len(pool))
	e.Extra("pool_pairs_enumerated", nPoolOnly)
	e.Extra("boundary_pairs_enumerated", len(bndKept))
	e.Extra("same_value_items", len(unary))
	e.Extra("seeded_pairs", len(randPairs))
	e.Extra("unary_and_truthiness_values", len(unary))
	e.Extra("operators", map[string]any{"binary": binaryOps, "compound": len(compoundOf), "unary": unaryOps, "truthiness_contexts": len(truthCtxs)})
	e.Extra("cli", cliStats)
	e.Extra("violating_cells_with_counts", mg.counts)
	e.Assume("reference = Go integer/float arithmetic as described in DESIGN.md §C03; exact comparison only on int/int, int/float, float/float, non-numeric string/string, bool/bool, null/null (see NOTES.md)",
		"operands are bound into the context as Go values (in-process) or written as literals (CLI); non-finite floats and arbitrary-byte strings only in-process")
	samples := []any{}
	sort.Strings(tot.samples)
	for i, s := range tot.samples {
		if i%(len(tot.samples)/6+1) == 0 {
			samples = append(samples, s)
		}
	}
	for _, s := range cliStats.Samples {
		samples = append(samples, s)
	}
	e.Finish(lib.Coverage{
		Evaluations:        tot.evals + cliStats.Evaluations,
		DistinctNontrivial: tot.nontriv + cliStats.Nontrivial,
		Rule:               "evaluations (operator x distinct operand pair x syntactic form, pairs de-duplicated globally) for which the reference fixes an exact value or a catchable error, plus values whose reference truthiness is fixed (all boolean contexts run)",
		Samples:            samples,
		Exhaustive:         false,
	})
}

// readWorkerOut folds one worker output file into the merger. It returns whether the worker
// finished and the last item begun / ended.
func readWorkerOut(path string, mg *merger, mu *sync.Mutex, onDone func(doneLine)) (done bool, lastB, lastE int) {
	lastB, lastE = -1, -1
	f, err := os.Open(path)
	if err != nil {
		return
	}
	defer f.Close()
	sc := bufio.NewScanner(f)
	sc.Buffer(make([]byte, 1<<20), 64<<20)
	for sc.Scan() {
		line := sc.Text()
		switch {
		case strings.HasPrefix(line, "B "):
			lastB, _ = strconv.Atoi(line[2:])
		case strings.HasPrefix(line, "E "):
			lastE, _ = strconv.Atoi(line[2:])
		case strings.HasPrefix(line, "{"):
			var probe struct {
				T string `json:"t"`
			}
			if json.Unmarshal([]byte(line), &probe) != nil {
				continue
			}
			if probe.T == "viol" {
				var v violLine
				if json.Unmarshal([]byte(line), &v) == nil {
					mg.add(found{idx: v.Idx, key: v.Key, what: v.What, replay: v.Replay})
				}
			} else if probe.T == "done" {
				var d doneLine
				if json.Unmarshal([]byte(line), &d) == nil {
					mu.Lock()
					onDone(d)
					mu.Unlock()
					done = true
				}
			}
		}
	}
	return
}

// ---------------------------------------------------------------------------------
// CLI engine

type cliStatsT struct {
	Scripts      int            `json:"scripts"`
	Evaluations  int            `json:"evaluations"`
	Nontrivial   int            `json:"nontrivial"`
	Outcomes     map[string]int `json:"outcomes"`
	Unclassified int            `json:"unclassified"`
	Samples      []string       `json:"-"`
}

type cliCase struct {
	kind string // bin | un | catch | truth
	op   string
	a, b Val
	src  string
	res  lib.ProcResult
}

const cliPrelude = "<?php\nclass C03Obj { public $p = 1; }\n"
const cliRender = "echo \"\\nC03R|\", gettype($r), \"|\", (gettype($r) == \"string\" ? bin2hex($r) : json_encode($r)), \"|\\n\";\n"

func cliLit(v Val) (string, bool) {
	if v.K == "float" && (math.IsNaN(v.Fl()) || math.IsInf(v.Fl(), 0)) {
		return "", false
	}
	return v.Lit()
}

func runCLI(e *lib.Env, mg *merger, pool []Val, poolPairs [][2]Val, bnd []bpair, randPairs [][2]Val, unary []Val, baseIdx int) cliStatsT {
	st := cliStatsT{Outcomes: map[string]int{}}
	r := e.Rand("cli")
	var cases []*cliCase
	addBin := func(op string, a, b Val) {
		la, oka := cliLit(a)
		lb, okb := cliLit(b)
		if !oka || !okb {
			return
		}
		body := "$a = " + la + ";\n$b = " + lb + ";\n$r = $a " + op + " $b;\n"
		extra := ""
		if op == "&&" || op == "||" {
			unit := map[string]string{"&&": "true", "||": "false"}[op]
			extra = "$r = $a " + op + " " + unit + ";\necho \"\\nC03X|lhs|\", gettype($r), \"|\", json_encode($r), \"|\\n\";\n" +
				"$r = " + unit + " " + op + " $b;\necho \"\\nC03X|rhs|\", gettype($r), \"|\", json_encode($r), \"|\\n\";\n"
		}
		cases = append(cases, &cliCase{kind: "bin", op: op, a: a, b: b, src: cliPrelude + body + cliRender + extra})
		if refBinary(op, a, b).Throw {
			src := cliPrelude + "$a = " + la + ";\n$b = " + lb + ";\ntry {\n  $r = $a " + op + " $b;\n  echo \"\\nC03R|novalue-expected|\", gettype($r), \"|\\n\";\n} catch (Throwable $t) {\n  echo \"\\nC03C|\", bin2hex($t->getMessage()), \"|\\n\";\n}\n"
			cases = append(cases, &cliCase{kind: "catch", op: op, a: a, b: b, src: src})
		}
	}
	nPool := e.Pick(70, 1200)
	nRand := e.Pick(50, 800)
	for _, op := range binaryOps {
		for i := 0; i < nPool; i++ {
			p := poolPairs[r.Intn(len(poolPairs))]
			addBin(op, p[0], p[1])
		}
		for i := 0; i < nRand; i++ {
			p := randPairs[r.Intn(len(randPairs))]
			addBin(op, p[0], p[1])
		}
	}
	// boundary-directed pairs, each with the operators it was built for
	nB := e.Pick(700, len(bnd))
	for i := 0; i < nB && len(bnd) > 0; i++ {
		bp := bnd[i]
		if nB < len(bnd) {
			bp = bnd[r.Intn(len(bnd))]
		}
		addBin(bp.Ops[r.Intn(len(bp.Ops))], bp.A, bp.B)
	}
	// the same value on both sides: one script per value, all comparison operators, three forms
	for i, v := range unary {
		if i >= len(pool)+e.Pick(20, 400) {
			break
		}
		la, ok := cliLit(v)
		if !ok {
			continue
		}
		var sb strings.Builder
		sb.WriteString(cliPrelude + "$a = " + la + ";\n")
		for _, f := range sameForms {
			sb.WriteString(f.Pre)
			for _, op := range cmpOps {
				sb.WriteString("$r = " + f.L + " " + op + " " + f.R + ";\necho \"\\nC03S|" + f.Name + "|" + op + "|\", gettype($r), \"|\", json_encode($r), \"|\\n\";\n")
			}
		}
		cases = append(cases, &cliCase{kind: "same", a: v, src: sb.String()})
	}
	nU := len(pool) + e.Pick(60, 1500)
	for i, v := range unary {
		if i >= nU {
			break
		}
		la, ok := cliLit(v)
		if !ok {
			continue
		}
		for _, op := range unaryOps {
			cases = append(cases, &cliCase{kind: "un", op: op, a: v, src: cliPrelude + "$a = " + la + ";\n$r = " + opSrc(op) + "$a;\n" + cliRender})
		}
		// nested unary operators, one script per value: gettype-level comparison on the real CLI
		var cb strings.Builder
		cb.WriteString(cliPrelude + "$a = " + la + ";\n")
		for _, ch := range unaryChains {
			cb.WriteString("$r = " + chainSrc(ch, "$a", false) + ";\necho \"\\nC03U|" + ch.Name + "|\", gettype($r), \"|\", (gettype($r) == \"string\" ? bin2hex($r) : json_encode($r)), \"|\\n\";\n")
		}
		cases = append(cases, &cliCase{kind: "chain", a: v, src: cb.String()})
		var sb strings.Builder
		sb.WriteString(cliPrelude + "$a = " + la + ";\n")
		for _, tc := range truthCtxs {
			sb.WriteString(strings.ReplaceAll(strings.TrimPrefix(tc.Src, "<?php\n"), "\n", " ") + "\n")
			sb.WriteString("echo \"\\nC03T|" + tc.Name + "|\", gettype($r), \"|\", json_encode($r), \"|\\n\";\n")
		}
		cases = append(cases, &cliCase{kind: "truth", a: v, src: sb.String()})
	}
	lib.ParallelMap(len(cases), 0, func(i int) {
		cases[i].res = e.RunScript(cases[i].src, 120*time.Second)
	})
	st.Scripts = len(cases)

	// judge sequentially, re-using the in-process judge with a collecting sink
	ws := &workerState{seen: map[string]bool{}, counts: map[string]int{}, parseErr: map[string]bool{}, outcomes: map[string]int{}}
	ws.sink = func(idx int, key, what, replay string) {
		mg.add(found{idx: idx, key: key, what: what, replay: replay})
	}
	for i, c := range cases {
		ws.idx = baseIdx + i
		if c.res.TimedOut {
			e.Inconclusive("CLI watchdog fired on: " + short(c.src, 200))
			continue
		}
		if c.res.Err != nil {
			e.Inconclusive("CLI could not be started: " + c.res.Err.Error())
			continue
		}
		switch c.kind {
		case "bin", "un":
			var exp Exp
			var bp *Val
			if c.kind == "bin" {
				exp = refBinary(c.op, c.a, c.b)
				bp = &c.b
			} else {
				exp = refUnary(c.op, c.a)
			}
			o, ok := cliOutcome(c.res, exp)
			if !ok {
				st.Unclassified++
				e.Inconclusive(fmt.Sprintf("CLI outcome not understood (exit %d): stdout %q stderr %q", c.res.Exit, short(c.res.Stdout, 120), short(c.res.Stderr, 200)))
				continue
			}
			body := strings.TrimPrefix(c.src, cliPrelude)
			if i := strings.Index(body, cliRender); i >= 0 {
				body = body[:i]
			}
			if (c.op == "&&" || c.op == "||") && exp.Def && !exp.KindOnly && symptom(exp, o) == "value" {
				obs := map[string]string{}
				for _, l := range strings.Split(c.res.Stdout, "\n") {
					if f := strings.Split(l, "|"); len(f) >= 4 && f[0] == "C03X" {
						if v, ok := cliValue(f[2], f[3], Exp{}); ok {
							obs[f[1]] = readTruth("bool", Outcome{T: "value", V: v})
						}
					}
				}
				if e2, ok := ws.attributeLogic(c.op, c.a, c.b, o.V.B, obs["lhs"], obs["rhs"], strings.TrimSpace(body)); ok {
					exp = e2
				}
			}
			ws.judgeCLI(c.op, body, c.a, bp, exp, o, c.src)
			if len(st.Samples) < 3 && i%211 == 7 {
				st.Samples = append(st.Samples, fmt.Sprintf("CLI: %s -> %s (reference %s)", strings.ReplaceAll(strings.TrimSpace(body), "\n", " "), o, expString(exp)))
			}
		case "catch":
			ws.count(Outcome{T: "catch"})
			expr := c.a.String() + " " + c.op + " " + c.b.String()
			if crash, cls := lib.GoCrash(c.res); crash {
				what := expr + " inside try crashes the CLI: " + cls
				ws.viol("panic@"+panicSite(c.res.Stderr)+"/cli", what, c.src)
				continue
			}
			msg, caught := cliField(c.res.Stdout, "C03C|")
			if !caught {
				if _, val := cliField(c.res.Stdout, "C03R|"); val {
					continue // "nothrow" is reported by the plain case
				}
				what := fmt.Sprintf("%s must raise an error that `catch (Throwable $t)` catches, but the catch block did not run (exit %d, stderr %s)", expr, c.res.Exit, short(c.res.Stderr, 200))
				ws.viol("bin/"+c.op+"/"+kindsKey(c.a, c.b)+"/uncatchable", what, c.src)
				continue
			}
			if m, err := hex.DecodeString(msg); err == nil && strings.Contains(string(m), "panic(") {
				what := fmt.Sprintf("%s is 'caught' only because try recovers a Go panic: %s", expr, short(string(m), 200))
				ws.viol("bin/"+c.op+"/"+kindsKey(c.a, c.b)+"/panic-in-try", what, c.src)
			}
		case "truth":
			ws.judgeTruthCLI(c)
		case "same":
			ws.judgeSameCLI(c)
		case "chain":
			ws.judgeChainCLI(c)
		}
	}
	st.Evaluations = ws.evals
	st.Nontrivial = ws.nontriv
	for k, v := range ws.outcomes {
		st.Outcomes[k] = v
	}
	mg.mu.Lock()
	for k, v := range ws.counts {
		mg.counts[k] += v
	}
	mg.mu.Unlock()
	return st
}

// cliField returns the first field after a marker line "MARK|f1|f2|".
func cliField(stdout, mark string) (string, bool) {
	for _, l := range strings.Split(stdout, "\n") {
		if strings.HasPrefix(l, mark) {
			f := strings.Split(l[len(mark):], "|")
			return f[0], true
		}
	}
	return "", false
}

func cliValue(kind, payload string, exp Exp) (Val, bool) {
	switch kind {
	case "int", "integer":
		i, err := strconv.ParseInt(payload, 10, 64)
		if err != nil {
			return Val{}, false
		}
		return vInt(i), true
	case "float", "double":
		if payload == "null" { // json_encode of a non-finite float
			if exp.Def && !exp.Throw && exp.V.K == "float" && (math.IsInf(exp.V.Fl(), 0) || math.IsNaN(exp.V.Fl())) {
				return exp.V, true // the CLI rendering cannot tell the non-finite values apart
			}
			return vFloat(math.NaN()), true
		}
		f, err := strconv.ParseFloat(payload, 64)
		if err != nil {
			return Val{}, false
		}
		return vFloat(f), true
	case "string":
		b, err := hex.DecodeString(payload)
		if err != nil {
			return Val{}, false
		}
		return vStr(string(b)), true
	case "bool", "boolean":
		if payload == "true" {
			return vBool(true), true
		}
		if payload == "false" {
			return vBool(false), true
		}
		return Val{}, false
	case "null", "NULL":
		return vNull(), true
	case "array":
		return Val{K: "arr"}, true
	case "object":
		return Val{K: "amap"}, true
	case "class":
		return Val{K: "obj"}, true
	}
	return Val{K: "other:" + kind}, true
}

// cliOutcome classifies a process result of a one-case script.
func cliOutcome(r lib.ProcResult, exp Exp) (Outcome, bool) {
	if crash, cls := lib.GoCrash(r); crash {
		msg := cls
		if i := strings.Index(r.Stderr, "panic: "); i >= 0 {
			msg = r.Stderr[i+7:]
			if j := strings.Index(msg, "\n"); j >= 0 {
				msg = msg[:j]
			}
		}
		// "panic: xxx [recovered]" variants keep their first line
		return Outcome{T: "panic", Msg: msg, Site: panicSite(r.Stderr)}, true
	}
	for _, l := range strings.Split(r.Stdout, "\n") {
		if strings.HasPrefix(l, "C03R|") {
			f := strings.Split(l, "|")
			if len(f) < 3 {
				return Outcome{}, false
			}
			v, ok := cliValue(f[1], f[2], exp)
			if !ok {
				return Outcome{}, false
			}
			return Outcome{T: "value", V: v}, true
		}
	}
	if strings.Contains(r.Stderr, "Fatal error") || strings.Contains(r.Stdout, "Fatal error") {
		msg := r.Stderr
		if i := strings.Index(msg, "Fatal error"); i >= 0 {
			msg = msg[i:]
		}
		return Outcome{T: "throw", Msg: short(msg, 120)}, true
	}
	return Outcome{}, false
}

func (ws *workerState) judgeCLI(op, body string, a Val, b *Val, exp Exp, o Outcome, src string) {
	ws.count(o)
	var cell, expr string
	if b != nil {
		cell = "bin/" + op + "/" + kindsKey(a, *b)
		expr = a.String() + " " + op + " " + b.String()
	} else {
		cell = "un/" + op + "/" + a.Kind()
		expr = opSrc(op) + a.String()
	}
	if o.T == "panic" {
		what := fmt.Sprintf("%s crashes the CLI (Go panic, exit status 2): %s at %s; operand classes %s", expr, short(o.Msg, 160), o.Site, subOf(a, b))
		ws.viol("panic@"+o.Site+"/"+normPanic(o.Msg), what, src)
		return
	}
	if !exp.Def {
		return
	}
	if !exp.KindOnly {
		ws.nontriv++
	}
	if sym := symptom(exp, o); sym != "" {
		what := fmt.Sprintf("%s gives %s on the CLI, the reference gives %s; operand classes %s", expr, o, expString(exp), subOf(a, b))
		key := cell + "/" + sym
		if exp.Note != "" {
			key += "/" + exp.Note
		}
		ws.viol(key, what, src)
	}
}

func (ws *workerState) judgeTruthCLI(c *cliCase) {
	a := c.a
	if crash, _ := lib.GoCrash(c.res); crash {
		o, _ := cliOutcome(c.res, Exp{})
		ws.count(o)
		what := fmt.Sprintf("%s in a boolean context crashes the CLI: %s at %s", a, short(o.Msg, 160), o.Site)
		ws.viol("panic@"+o.Site+"/"+normPanic(o.Msg), what, c.src)
		return
	}
	obs := map[string]string{}
	for _, l := range strings.Split(c.res.Stdout, "\n") {
		if !strings.HasPrefix(l, "C03T|") {
			continue
		}
		f := strings.Split(l, "|")
		if len(f) < 4 {
			continue
		}
		v, ok := cliValue(f[2], f[3], Exp{})
		if !ok {
			obs[f[1]] = "result:" + f[2] + ":" + f[3]
			continue
		}
		for _, tc := range truthCtxs {
			if tc.Name == f[1] {
				obs[f[1]] = readTruth(tc.Mode, Outcome{T: "value", V: v})
			}
		}
	}
	var line []string
	for _, tc := range truthCtxs {
		ws.count(Outcome{T: "value"})
		if _, ok := obs[tc.Name]; !ok {
			obs[tc.Name] = "missing"
		}
		line = append(line, tc.Name+"="+obs[tc.Name])
	}
	all := strings.Join(line, " ")
	ref, okRef := truthy(a)
	if okRef {
		ws.nontriv++
		want := "F"
		if ref {
			want = "T"
		}
		for _, tc := range truthCtxs {
			if obs[tc.Name] != want {
				what := fmt.Sprintf("%s must be %s in every boolean context but is %s in '%s' on the CLI (all contexts: %s)", a, want, obs[tc.Name], tc.Name, all)
				ws.viol("truthy/"+a.Sub()+"/"+tc.Name, what, c.src)
			}
		}
		return
	}
	first := obs[truthCtxs[0].Name]
	for _, tc := range truthCtxs {
		if o := obs[tc.Name]; o != first || (o != "T" && o != "F") {
			what := fmt.Sprintf("%s is not equally truthy in all boolean contexts on the CLI: %s", a, all)
			ws.viol("truthy-incoherent/"+a.Sub(), what, c.src)
			break
		}
	}
}

// judgeSameCLI: `v OP v` for the comparison operators in the same-var / alias / ref forms.
func (ws *workerState) judgeSameCLI(c *cliCase) {
	v := c.a
	if crash, _ := lib.GoCrash(c.res); crash {
		o, _ := cliOutcome(c.res, Exp{})
		ws.count(o)
		what := fmt.Sprintf("comparing %s with itself crashes the CLI: %s at %s", v, short(o.Msg, 160), o.Site)
		ws.viol("panic@"+o.Site+"/"+normPanic(o.Msg), what, c.src)
		return
	}
	res := map[string]map[string]Outcome{}
	for _, l := range strings.Split(c.res.Stdout, "\n") {
		f := strings.Split(l, "|")
		if len(f) < 5 || f[0] != "C03S" {
			continue
		}
		val, ok := cliValue(f[3], f[4], Exp{})
		if !ok {
			continue
		}
		if res[f[1]] == nil {
			res[f[1]] = map[string]Outcome{}
		}
		res[f[1]][f[2]] = Outcome{T: "value", V: val}
	}
	for _, f := range sameForms {
		for _, op := range cmpOps {
			o, ok := res[f.Name][op]
			if !ok {
				continue
			}
			ws.count(o)
			if v.IsScalar() {
				exp := refBinary(op, v, v)
				if exp.Def && !exp.KindOnly {
					ws.nontriv++
					if sym := symptom(exp, o); sym != "" {
						what := fmt.Sprintf("%s %s %s [%s form] gives %s on the CLI, the reference gives %s; operand class %s", v, op, v, f.Name, o, expString(exp), v.Sub())
						ws.viol("bin/"+op+"/"+kindsKey(v, v)+"/"+sym+"/form="+f.Name, what, c.src)
					}
				}
			}
		}
		if v.Kind() == "arr" && f.Name == "alias" {
			continue
		}
		ws.reflexive(v, f.Name, res[f.Name], func(op, what string) string { return c.src })
	}
}

// judgeChainCLI: nested unary operators on the CLI against the composed reference. An uncaught
// error or a crash ends the script; the chains after it are simply not observed.
func (ws *workerState) judgeChainCLI(c *cliCase) {
	v := c.a
	if crash, _ := lib.GoCrash(c.res); crash {
		o, _ := cliOutcome(c.res, Exp{})
		ws.count(o)
		what := fmt.Sprintf("a nested unary operator on %s crashes the CLI: %s at %s", v, short(o.Msg, 160), o.Site)
		ws.viol("panic@"+o.Site+"/"+normPanic(o.Msg), what, c.src)
		return
	}
	got := map[string]Val{}
	for _, l := range strings.Split(c.res.Stdout, "\n") {
		f := strings.Split(l, "|")
		if len(f) < 4 || f[0] != "C03U" {
			continue
		}
		if val, ok := cliValue(f[2], f[3], Exp{}); ok {
			got[f[1]] = val
		}
	}
	for _, ch := range unaryChains {
		val, ok := got[ch.Name]
		if !ok {
			continue
		}
		o := Outcome{T: "value", V: val}
		ws.count(o)
		exp := refUnaryChain(ch, v)
		if !exp.Def {
			continue
		}
		if !exp.KindOnly {
			ws.nontriv++
		}
		if exp.V.K == "float" && val.K == "float" && math.IsNaN(val.Fl()) && (math.IsNaN(exp.V.Fl()) || math.IsInf(exp.V.Fl(), 0)) {
			continue // json_encode cannot render non-finite floats
		}
		if sym := symptom(exp, o); sym != "" {
			what := fmt.Sprintf("%s gives %s on the CLI, the reference gives %s; operand class %s", chainSrc(ch, v.String(), false), o, expString(exp), v.Sub())
			ws.viol("un/"+ch.Name+"/"+v.Kind()+"/"+sym+"/form=nested", what, c.src)
		}
	}
}
