package main

// Error-location clause of C18: programs with one planted fault on a known line are run by
// the real CLI; the first diagnostic on stderr must name the script file and the fault's
// line. A failing program is minimised chunk by chunk so that the violation key names the
// lexical context that makes the location drift (stable from seed to seed).

import (
	"fmt"
	"os"
	"path/filepath"
	"regexp"
	"sort"
	"strconv"
	"strings"
	"sync/atomic"
	"time"

	"verif/lib"
)

type diag struct {
	Found bool
	Msg   string
	File  string
	Line  int
	Raw   string
}

var (
	reZY       = regexp.MustCompile(`^ZY Fatal error: (.*) in (.*?):(\d+):(\d+)$`)
	reDetailed = regexp.MustCompile(`^📄 文件: (.*):(\d+):(\d+)$`)
	reDetMsg   = regexp.MustCompile(`^❌ 错误: (.*)$`)
	rePHP1     = regexp.MustCompile(`^(?:PHP )?Fatal error: (.*) in (.*) on line (\d+)$`)
	rePHP2     = regexp.MustCompile(`^(?:PHP )?Fatal error: (.*) in (.*):(\d+)$`)
)

// parseDiag extracts the first diagnostic of the CLI's stderr.
func parseDiag(stderr string) diag {
	lines := strings.Split(strings.ReplaceAll(stderr, "\r\n", "\n"), "\n")
	for i, l := range lines {
		if m := reZY.FindStringSubmatch(l); m != nil {
			n, _ := strconv.Atoi(m[3])
			return diag{Found: true, Msg: m[1], File: m[2], Line: n, Raw: l}
		}
		if m := reDetailed.FindStringSubmatch(l); m != nil {
			n, _ := strconv.Atoi(m[2])
			d := diag{Found: true, File: m[1], Line: n, Raw: l}
			for _, l2 := range lines[i+1:] {
				if mm := reDetMsg.FindStringSubmatch(l2); mm != nil {
					d.Msg = mm[1]
					break
				}
			}
			return d
		}
		if m := rePHP1.FindStringSubmatch(l); m != nil {
			n, _ := strconv.Atoi(m[3])
			return diag{Found: true, Msg: m[1], File: m[2], Line: n, Raw: l}
		}
		if m := rePHP2.FindStringSubmatch(l); m != nil {
			n, _ := strconv.Atoi(m[3])
			return diag{Found: true, Msg: m[1], File: m[2], Line: n, Raw: l}
		}
	}
	return diag{}
}

// parseLocEcho reads the first "C18LOC|msg|file|line" line a catch block printed.
func parseLocEcho(stdout string) diag {
	for _, l := range strings.Split(strings.ReplaceAll(stdout, "\r\n", "\n"), "\n") {
		if rest, ok := strings.CutPrefix(l, "C18LOC|"); ok {
			f := strings.Split(rest, "|")
			if len(f) == 3 {
				if n, err := strconv.Atoi(f[2]); err == nil {
					return diag{Found: true, Msg: f[0], File: f[1], Line: n, Raw: l}
				}
			}
		}
	}
	return diag{}
}

var runCounter atomic.Int64

type runOutcome struct {
	Path   string
	Diag   diag
	Crash  bool
	Timed  bool
	Stderr string
	Stdout string
	Exit   int
}

// runProgram writes src under the scratch directory with the mode's extension and runs the
// CLI on it. With include=true the source is written next to a one-line main file that
// require's it, and the CLI runs the main file; Path is always the file that holds src.
func runProgram(e *lib.Env, src, mode string, include bool) runOutcome {
	n := runCounter.Add(1)
	dir := filepath.Join(e.Scratch, fmt.Sprintf("e%d", n%64))
	_ = os.MkdirAll(dir, 0o755)
	ext := ".zy"
	if mode == "php" {
		ext = ".php"
	}
	if mode == "html" {
		ext = ".html"
	}
	p := filepath.Join(dir, fmt.Sprintf("q%d%s", n, ext))
	_ = os.WriteFile(p, []byte(src), 0o644)
	entry := p
	if include {
		entry = filepath.Join(dir, fmt.Sprintf("q%d_main.php", n))
		main := fmt.Sprintf("<?php\n$pad1 = 1;\n$pad2 = 2;\n$pad3 = 3;\n$pad4 = 4;\n$pad5 = 5;\nrequire __DIR__ . \"/%s\";\n", filepath.Base(p))
		_ = os.WriteFile(entry, []byte(main), 0o644)
	}
	r := lib.RunProc(lib.ProcSpec{Argv: []string{e.Origami(), entry}, Dir: dir, Timeout: 120 * time.Second})
	_ = os.Remove(p)
	if include {
		_ = os.Remove(entry)
	}
	o := runOutcome{Path: p, Stderr: r.Stderr, Stdout: r.Stdout, Exit: r.Exit, Timed: r.TimedOut}
	if c, _ := lib.GoCrash(r); c {
		o.Crash = true
		return o
	}
	o.Diag = parseDiag(r.Stderr)
	return o
}

type locVerdict int

const (
	locOK       locVerdict = iota
	locWrong               // diagnostic of the planted fault, wrong file or line
	locNoDiag              // nothing to compare (no diagnostic printed)
	locOther               // a diagnostic, but not the planted fault's
	locCrash               // Go-level crash (C01's domain)
	locWatchdog            // wall-clock watchdog
)

// judge runs p and compares the reported location with the planted one. msg is the message
// the fault's diagnostic must contain (nonce, or learnt from the fault's baseline run).
func judge(e *lib.Env, p *program, msg string) (locVerdict, runOutcome, int) {
	src, want, wantMax := p.render2()
	o := runProgram(e, src, p.Mode, p.Include)
	switch {
	case o.Timed:
		return locWatchdog, o, want
	case o.Crash:
		return locCrash, o, want
	}
	if p.Fault.CatchPrint && !o.Crash && !o.Timed {
		// the location comes from getFile()/getLine() printed by the program's own catch block
		o.Diag = parseLocEcho(o.Stdout)
	}
	if !o.Diag.Found {
		return locNoDiag, o, want
	}
	if msg != "" && !strings.Contains(o.Diag.Msg, msg) {
		return locOther, o, want
	}
	// the file is compared by base name (unique per run; the include wrapper's main file has
	// another one) so that path normalisation by the CLI cannot matter
	if filepath.Base(o.Diag.File) != filepath.Base(o.Path) || o.Diag.Line < want || o.Diag.Line > wantMax {
		return locWrong, o, want
	}
	return locOK, o, want
}

// minimise removes everything from a failing program that is not needed for the location to
// be wrong, and returns the violation key.
func minimise(e *lib.Env, p *program, msg string) (key string, min *program, sub *subsumer, runs int) {
	cur := *p
	cur.Tail = nil
	fails := func(c *program, m string) bool {
		runs++
		v, _, _ := judge(e, c, m)
		return v == locWrong
	}
	if !fails(&cur, msg) {
		cur.Tail = p.Tail // the tail matters (unexpected): keep it
	}
	// greedy one-at-a-time removal until fixpoint
	for changed := true; changed; {
		changed = false
		for i := 0; i < len(cur.Head); i++ {
			c := cur
			c.Head = append(append([]chunk{}, cur.Head[:i]...), cur.Head[i+1:]...)
			if fails(&c, msg) {
				cur = c
				changed = true
				i--
			}
		}
	}
	if cur.CRLF {
		c := cur
		c.CRLF = false
		if fails(&c, msg) {
			cur = c
		}
	}
	if cur.Shebang {
		c := cur
		c.Shebang = false
		if fails(&c, msg) {
			cur = c
		}
	}
	if cur.Include {
		c := cur
		c.Include = false
		if fails(&c, msg) {
			cur = c
		}
	}
	if cur.Wrap != "" {
		c := cur
		c.Wrap = ""
		if fails(&c, msg) {
			cur = c
		}
	}
	modeAny := false
	if !cur.Shebang && cur.Mode != "html" {
		hasHTML := false
		for _, c := range cur.Head {
			if phpOnlyChunk[c.Kind] {
				hasHTML = true
			}
		}
		if !hasHTML {
			c := cur
			if c.Mode == "php" {
				c.Mode = "zy"
			} else {
				c.Mode = "php"
			}
			modeAny = fails(&c, msg)
		}
	}
	faultAny := false
	if cur.Mode == "html" {
		// only the html faults exist on this path
	} else if cur.Fault.Kind != "throw" {
		c := cur
		g := &genState{r: e.Rand("minimise-fault")}
		c.Fault = g.fault("throw")
		faultAny = fails(&c, c.Fault.Nonce)
	} else {
		// is it the throw itself? try another simple fault
		c := cur
		g := &genState{r: e.Rand("minimise-fault")}
		c.Fault = g.fault("undef-func")
		faultAny = fails(&c, c.Fault.Nonce)
	}
	ctx := features(&cur)
	if len(ctx) == 0 {
		ctx = []string{"none"}
	}
	key = "errloc/ctx=" + strings.Join(ctx, "+")
	if !modeAny {
		key += "/mode=" + cur.Mode
	}
	if !faultAny {
		key += "/fault=" + cur.Fault.Kind
	}
	sub = &subsumer{feat: features(&cur), key: key}
	if !modeAny {
		sub.mode = cur.Mode
	}
	if !faultAny {
		sub.fault = cur.Fault.Kind
	}
	return key, &cur, sub, runs
}

// features names the lexical context of a program: its chunk kinds (a trailing comment is a
// line comment) and the file-level transforms.
func features(p *program) []string {
	seen := map[string]bool{}
	var ctx []string
	add := func(k string) {
		if k == "trailing-comment" {
			k = "line-comment"
		}
		if !seen[k] {
			seen[k] = true
			ctx = append(ctx, k)
		}
	}
	for _, c := range p.Head {
		add(c.Kind)
	}
	if p.CRLF {
		add("crlf")
	}
	if p.Shebang {
		add("shebang")
	}
	if p.Include {
		add("included")
	}
	if p.Wrap != "" {
		add("in-" + p.Wrap + "-body")
	}
	sort.Strings(ctx)
	return ctx
}

// subsumer: a minimised failure. Another failing program that contains the same features
// (and mode / fault where they matter) is attributed to the same key without being
// minimised again.
type subsumer struct {
	feat  []string
	mode  string
	fault string
	key   string
}

func (s *subsumer) covers(p *program) bool {
	if s.mode != "" && p.Mode != s.mode {
		return false
	}
	if s.fault != "" && p.Fault.Kind != s.fault {
		return false
	}
	have := map[string]bool{}
	for _, f := range features(p) {
		have[f] = true
	}
	for _, f := range s.feat {
		if !have[f] {
			return false
		}
	}
	return true
}
