package main

// Span invariants of C18, decided on the result of lexer.Tokenize / TokenizeTemplate.
//
// For a source text src and the top-level token list toks the property demands
//   S1  0 <= Start <= End <= len(src)
//   S2  spans ordered and non-overlapping: toks[i].End <= toks[i+1].Start
//   S3  Line == number of '\n' in src[:Start]
//   S4  for identifiers, keywords, operators, numbers and unescaped strings:
//       Literal == src[Start:End]
//
// Synthetic tokens are treated per their construction (DESIGN.md §4 C18):
//   * an auto-semicolon carries the newline's span (nothing special to do: it is a
//     SEMICOLON whose literal "\n" is the source text at its span);
//   * `$`+name (VARIABLE) and `\`+name (IDENTIFIER) merges span both parts; the lexer
//     drops blanks between the parts, so the comparison for VARIABLE / IDENTIFIER is made
//     after removing blanks (space, tab, CR, U+3000) from the source slice.
//     Without a gap this is exact equality.

import (
	"fmt"
	"strings"

	"github.com/php-any/origami/lexer"
	"github.com/php-any/origami/token"
)

type spanViolation struct {
	Rule  string // S1..S4
	Class string // token class of the offending token
	Index int
	What  string
}

func tokClass(t token.TokenType) string {
	switch {
	case t == token.HEREDOC_START:
		return "operator"
	case t >= token.KEYWORD_START && t <= token.KEYWORD_END:
		return "keyword"
	case t > token.KEYWORD_END && t < token.INTERPOLATION_TOKEN:
		return "operator"
	case t == token.INTERPOLATION_TOKEN:
		return "interpolation"
	case t == token.INTERPOLATION_VALUE:
		return "interpolation-value"
	case t == token.NUMBER || t == token.INT || t == token.FLOAT:
		return "number"
	case t == token.STRING:
		return "string"
	case t == token.HEREDOC:
		return "heredoc"
	case t == token.NOWDOC:
		return "nowdoc"
	case t == token.BOOL || t == token.NULL || t == token.TRUE || t == token.FALSE:
		return "keyword"
	case t == token.BYTE:
		return "byte"
	case t == token.IDENTIFIER:
		return "identifier"
	case t == token.VARIABLE:
		return "variable"
	case t == token.HTML_TAG:
		return "html"
	case t == token.UNKNOWN:
		return "unknown"
	case t == token.NEWLINE:
		return "newline"
	case t == token.WHITESPACE:
		return "whitespace"
	case t == token.START_TAG || t == token.END_TAG:
		return "php-tag"
	case t == token.COMMENT || t == token.MULTILINE_COMMENT:
		return "comment"
	}
	return fmt.Sprintf("type%d", int(t))
}

func stripBlanks(s string) string {
	if !strings.ContainsAny(s, " \t\r") && !strings.Contains(s, "　") {
		return s
	}
	s = strings.ReplaceAll(s, "　", "")
	return strings.Map(func(r rune) rune {
		if r == ' ' || r == '\t' || r == '\r' {
			return -1
		}
		return r
	}, s)
}

func clip(s string) string {
	if len(s) > 60 {
		return s[:60] + "…"
	}
	return s
}

// checkSpans returns the violations of S1–S4 (at most one per rule: the first), and the
// number of tokens whose literal was compared (S4 domain).
func checkSpans(src string, toks []lexer.Token) (viol []spanViolation, compared int) {
	seen := map[string]bool{}
	add := func(rule, class string, i int, what string) {
		if seen[rule] {
			return
		}
		seen[rule] = true
		viol = append(viol, spanViolation{rule, class, i, what})
	}
	// prefix newline counts, computed lazily and monotonically where possible
	nl := make([]int32, len(src)+1)
	for i := 0; i < len(src); i++ {
		nl[i+1] = nl[i]
		if src[i] == '\n' {
			nl[i+1]++
		}
	}
	prevEnd := 0
	for i, t := range toks {
		cl := tokClass(t.Type())
		s, e := t.Start(), t.End()
		if s < 0 || e > len(src) || s > e {
			add("S1", cl, i, fmt.Sprintf("token #%d %s %q has span [%d,%d) outside the source (len %d)", i, cl, clip(t.Literal()), s, e, len(src)))
			continue
		}
		if i > 0 && s < prevEnd {
			add("S2", cl, i, fmt.Sprintf("token #%d %s %q span [%d,%d) starts before the end %d of the previous token %q", i, cl, clip(t.Literal()), s, e, prevEnd, clip(toks[i-1].Literal())))
		}
		if e > prevEnd {
			prevEnd = e
		}
		if want := int(nl[s]); t.Line() != want {
			add("S3", cl, i, fmt.Sprintf("token #%d %s %q at offset %d records line %d but %d newlines precede it", i, cl, clip(t.Literal()), s, t.Line(), want))
		}
		text := src[s:e]
		lit := t.Literal()
		switch cl {
		case "keyword", "operator", "number":
			compared++
			if lit != text {
				add("S4", cl, i, fmt.Sprintf("token #%d %s literal %q but source[%d:%d] is %q", i, cl, clip(lit), s, e, clip(text)))
			}
		case "identifier", "variable":
			compared++
			if lit != text && lit != stripBlanks(text) {
				add("S4", cl, i, fmt.Sprintf("token #%d %s literal %q but source[%d:%d] is %q", i, cl, clip(lit), s, e, clip(text)))
			}
		case "string", "heredoc", "nowdoc":
			// only strings without escapes; interpolated strings are INTERPOLATION_TOKENs
			if strings.Contains(lit, "\\") || strings.Contains(text, "\\") {
				break
			}
			// a heredoc whose body has a `$` but no interpolation is handed on as a synthetic
			// double-quoted STRING ("body"): a conversion by construction, not a span error
			if cl == "string" && strings.HasPrefix(text, "<<<") {
				break
			}
			compared++
			if lit != text {
				add("S4", cl, i, fmt.Sprintf("token #%d %s literal %q but source[%d:%d] is %q", i, cl, clip(lit), s, e, clip(text)))
			}
		}
	}
	return
}

func dumpTokens(src string, toks []lexer.Token) string {
	var sb strings.Builder
	for i, t := range toks {
		s, e := t.Start(), t.End()
		text := "<out of range>"
		if s >= 0 && e <= len(src) && s <= e {
			text = src[s:e]
		}
		fmt.Fprintf(&sb, "#%d %-12s [%d,%d) line=%d pos=%d lit=%q src=%q\n", i, tokClass(t.Type()), s, e, t.Line(), t.Pos(), clip(t.Literal()), clip(text))
	}
	return sb.String()
}
