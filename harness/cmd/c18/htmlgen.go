package main

// Generator of `<!DOCTYPE …` documents: the sources that lexer.Tokenize hands to the HtmlLexer
// (lexer/html_lexer.go). Every construct the HTML lexer knows is produced in a form that spans
// several lines, so that its line accounting is observable on the tokens behind it.

import (
	"fmt"
	"math/rand"
	"strings"
)

func htmlLines(r *rand.Rand, min, max, mb int) []string {
	var ls []string
	for i, n := 0, min+r.Intn(max-min+1); i < n; i++ {
		if r.Intn(6) == 0 {
			ls = append(ls, "")
			continue
		}
		ls = append(ls, strings.Repeat(" ", r.Intn(5))+words(r, 1+r.Intn(3), mb))
	}
	return ls
}

var htmlElementKinds = []string{
	"comment-ml", "comment-1", "attr-ml-dq", "attr-ml-sq", "text-ml", "text-interp", "script", "style",
	"php-block", "php-echo", "cdata", "tag-ml", "void-tags", "nested", "backtick-attr", "pi", "entity-text", "blank",
}

func htmlElement(r *rand.Rand, kind string, depth int) string {
	j := func(ls []string) string { return strings.Join(ls, "\n") }
	switch kind {
	case "comment-ml":
		return "<!-- " + j(htmlLines(r, 2, 5, 50)) + "\n-->\n"
	case "comment-1":
		return "<!-- " + words(r, 2, 50) + " -->\n"
	case "attr-ml-dq":
		return fmt.Sprintf("<div class=\"%s\" data-n=%d>%s</div>\n", j(htmlLines(r, 2, 4, 40)), r.Intn(99), words(r, 1, 50))
	case "attr-ml-sq":
		return fmt.Sprintf("<span title='%s' hidden>%s</span>\n", j(htmlLines(r, 2, 4, 40)), words(r, 1, 50))
	case "backtick-attr":
		return fmt.Sprintf("<a :href=`/u/%s\n/%d` @click=\"go(%d)\">%s</a>\n", pick(r, asciiWords), r.Intn(9), r.Intn(9), words(r, 1, 50))
	case "text-ml":
		return "<p>" + j(htmlLines(r, 2, 5, 60)) + "</p>\n"
	case "text-interp":
		return "<p>" + words(r, 1, 60) + " {$name}\n" + words(r, 1, 60) + " {$user->name} " + pick(r, mbWords) + "\n{$items[0]}</p>\n"
	case "entity-text":
		return "<td>a &amp; b &lt; c > d \" e ' f\n" + words(r, 2, 60) + " = : / 12.5\n</td>\n"
	case "script":
		return "<script type=\"text/javascript\">\n  var a = 1 < 2 && \"x\";\n  // " + words(r, 2, 50) + "\n  function f() { return '<b>' + `t\n${a}`; }\n" + j(htmlLines(r, 0, 3, 20)) + "\n</script>\n"
	case "style":
		return "<style>\n  body { color: red; }\n  .a > .b::after { content: \"" + pick(r, mbWords) + "\"; }\n  /* " + j(htmlLines(r, 1, 3, 40)) + " */\n</style>\n"
	case "php-block":
		return "<?php\n  $x = " + fmt.Sprint(r.Intn(99)) + ";\n  // " + words(r, 1, 50) + "\n  echo \"" + pick(r, mbWords) + "\n\";\n?>\n"
	case "php-echo":
		return "<b><?php echo $x; ?></b><?= $y\n ?>\n"
	case "pi":
		return "<?xml version=\"1.0\"\n encoding=\"utf-8\"?>\n"
	case "cdata":
		return "<![CDATA[ " + j(htmlLines(r, 2, 4, 50)) + " <not-a-tag> ]]>\n"
	case "tag-ml":
		return fmt.Sprintf("<input\n  type=\"text\"\n  id=main%d\n  value=%d\n  v-if=\"a > b\"\n  disabled\n/>\n", r.Intn(99), r.Intn(999))
	case "void-tags":
		return "<br/><hr />\n<img src=\"a.png\" alt='" + pick(r, mbWords) + "'>\n"
	case "blank":
		return strings.Repeat("\n", 1+r.Intn(3)) + " \t\n"
	case "nested":
		if depth > 2 {
			return "<i>x</i>\n"
		}
		var sb strings.Builder
		sb.WriteString("<section\n  class=\"s\">\n")
		for i, n := 0, 1+r.Intn(3); i < n; i++ {
			sb.WriteString(strings.Repeat("  ", depth+1))
			sb.WriteString(htmlElement(r, htmlElementKinds[r.Intn(len(htmlElementKinds))], depth+1))
		}
		sb.WriteString("</section>\n")
		return sb.String()
	}
	panic("unknown html element " + kind)
}

func genHTMLDoc(r *rand.Rand) string {
	var sb strings.Builder
	switch r.Intn(4) {
	case 0:
		sb.WriteString("<!DOCTYPE html>\n")
	case 1:
		sb.WriteString("<!DOCTYPE html\n  PUBLIC \"-//W3C//DTD XHTML 1.0 Strict//EN\"\n  \"http://www.w3.org/TR/xhtml1/DTD/xhtml1-strict.dtd\">\n")
	case 2:
		sb.WriteString("<!DOCTYPE html><html>")
	default:
		sb.WriteString("<!DOCTYPE html>\n<html lang=\"" + pick(r, []string{"en", "zh-CN", "de"}) + "\">\n<head>\n<meta charset=\"utf-8\">\n<title>" + words(r, 1, 70) + "</title>\n</head>\n<body>\n")
	}
	for i, n := 0, 2+r.Intn(9); i < n; i++ {
		sb.WriteString(htmlElement(r, htmlElementKinds[r.Intn(len(htmlElementKinds))], 0))
	}
	sb.WriteString("<footer id=\"end\">" + pick(r, mbWords) + "</footer>\n</body>\n</html>\n")
	s := sb.String()
	if r.Intn(4) == 0 {
		s = strings.ReplaceAll(s, "\n", "\r\n")
	}
	return s
}

// faults for documents run through the HTML path: an interpolation in a text run that calls a
// method on null, on the first or on a later line of the run
var htmlFaultKinds = []string{"html-interp-method", "html-interp-method-ml", "html-interp-method-attrs"}

func htmlFault(r *rand.Rand, kind string) *fault {
	n := fmt.Sprintf("%04x", r.Intn(0x10000))
	f := &fault{Kind: kind, Nonce: "nomethod_" + n}
	switch kind {
	case "html-interp-method":
		f.Text = fmt.Sprintf("<p>%s {$hv->%s()} u</p>\n", words(r, 1, 70), f.Nonce)
	case "html-interp-method-ml":
		f.Text = fmt.Sprintf("<p>%s\n%s\n%s {$hv->%s()} u\nlast</p>\n", words(r, 1, 60), words(r, 1, 60), pick(r, mbWords), f.Nonce)
		f.Line = 2
	case "html-interp-method-attrs":
		f.Text = fmt.Sprintf("<div\n  class=\"a\nb\"\n  id=x>{$hv->%s()}</div>\n", f.Nonce)
		f.Line = 3
	default:
		panic("unknown html fault " + kind)
	}
	return f
}

// element kinds that a document may hold in front of a planted fault and still run cleanly
var htmlRunnableKinds = []string{"comment-ml", "comment-1", "attr-ml-dq", "attr-ml-sq", "text-ml", "cdata", "tag-ml", "void-tags", "blank", "entity-text", "script", "style", "backtick-attr"}

func genHTMLProgram(r *rand.Rand, kinds []string, q quarantine) *program {
	p := &program{Mode: "html", CRLF: r.Intn(4) == 0}
	for i, n := 0, 1+r.Intn(6); i < n; i++ {
		k := kinds[r.Intn(len(kinds))]
		p.Head = append(p.Head, chunk{Kind: "html:" + k, Text: htmlElement(r, k, 1)})
	}
	fk := htmlFaultKinds[r.Intn(len(htmlFaultKinds))]
	if q.htmlMLInterp && fk == "html-interp-method-ml" {
		fk = "html-interp-method"
	}
	p.Fault = htmlFault(r, fk)
	p.Tail = []chunk{{Kind: "html:text", Text: "<p>after</p>\n"}}
	return p
}
