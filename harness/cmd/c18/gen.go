package main

// Generator of origami programs for C18. A program is a list of independent chunks
// (statements that run without error and use only their own variables plus $v0), an
// optional planted fault on a known line, and file-level transforms (CRLF, template mode,
// shebang). Every chunk kind is a lexical stressor for position tracking: multi-byte text,
// multi-line strings, heredoc/nowdoc, nested interpolation, comments, inline HTML.
//
// Everything is a pure function of the *rand.Rand handed in.

import (
	"fmt"
	"math/rand"
	"strings"
)

type chunk struct {
	Kind string
	Text string // LF line ends; ends with "\n"
}

type fault struct {
	Kind string
	Text string // LF line ends; ends with "\n"
	Line int    // 0-based line inside Text on which the diagnostic must be reported
	Span int    // the faulty construct itself spans Line..Line+Span: any of these lines is accepted
	// Lines [0,UseFrom) of Text are declarations (classes, functions) that stay at top level;
	// lines [UseFrom,…) are plain statements that a wrapper may move into a function / method /
	// closure body that is called from another line.
	UseFrom int
	Nonce   string // text that the diagnostic's message must contain ("" = learn from baseline)
	Parse   bool   // a parse-time fault (nothing runs)
	// CatchPrint: the fault is caught by an outer catch block that prints
	// "C18LOC|getMessage()|getFile()|getLine()" on stdout; the location is read there
	CatchPrint bool
	AtEOF      bool // the fault is the last thing in the file and is detected at end of input:
	// any line from the fault's line to the line after the last newline is accepted
}

type program struct {
	Mode    string // "zy" (script mode, lexer.Tokenize) | "php" (template mode, lexer.TokenizeTemplate)
	CRLF    bool
	Shebang bool   // "#!..." first line (php mode only)
	Include bool   // the program is require'd from a one-line main file; the diagnostic must name the included file
	Wrap    string // "" | func | method | static | closure | nested: where the fault's statements run (runtime faults only)
	Head    []chunk
	Fault   *fault
	Tail    []chunk
}

var mbWords = []string{"日本語", "héllo", "ñandú", "Ωmega", "😀", "Привет", "中文字符", "é", "ça", "naïve", "한글", "ß", "→", "∑x", "ü"}
var asciiWords = []string{"alpha", "beta", "gamma", "delta", "lorem", "ipsum", "dolor", "x", "yy", "zzz", "foo bar", "a-b", "q.e.d"}

func pick(r *rand.Rand, xs []string) string { return xs[r.Intn(len(xs))] }

// words returns n words, mixing ASCII and multi-byte text; mb in [0,100] = share of multi-byte.
func words(r *rand.Rand, n, mb int) string {
	var parts []string
	for i := 0; i < n; i++ {
		if r.Intn(100) < mb {
			parts = append(parts, pick(r, mbWords))
		} else {
			parts = append(parts, pick(r, asciiWords))
		}
	}
	return strings.Join(parts, " ")
}

var identMB = []string{"变量", "héllo", "値", "naïve", "数据", "ключ", "größe"}

type genState struct {
	r   *rand.Rand
	n   int  // fresh-name counter
	php bool // template mode: html chunks allowed
	// quarantine switches (features switched off while a known finding is active)
	noCRLFLineComment bool
	crlf              bool
	q                 quarantine
}

func (g *genState) fresh(prefix string) string {
	g.n++
	if prefix == "v" && g.r.Intn(6) == 0 {
		return fmt.Sprintf("%s%d", pick(g.r, identMB), g.n)
	}
	return fmt.Sprintf("%s%d", prefix, g.n)
}

func (g *genState) indent() string {
	switch g.r.Intn(5) {
	case 0:
		return "\t"
	case 1:
		return "  "
	case 2:
		return "        "
	}
	return "    "
}

var chunkKinds = []string{
	"assign-int", "assign-str", "assign-str-mb", "mlstring", "mlstring-sq", "heredoc", "nowdoc",
	"heredoc-interp", "interp", "interp-ml", "line-comment", "trailing-comment", "block-comment",
	"block-comment-ml", "echo", "func", "class", "if", "array-ml", "expr-ml", "blank", "fwspace",
	"closure", "html", "html-ml", "docblock", "numbers", "nested-interp", "heredoc-shaped",
	// a backslash directly in front of a real line break (and other escapes next to line breaks)
	"bs-newline",
	// passes that rewrite the source or the token list before parsing: alternative syntax
	// (parser/preprocessor.go, .php files only) with headers that span lines; automatic
	// semicolons, `\Name` merging (lexer/preprocessor.go)
	"alt-if", "alt-while", "alt-for", "alt-foreach", "alt-switch", "alt-nested", "alt-html", "asi", "ns-name",
	// unusual but legal layouts: line break between the keyword and `(`, between `)` and `:`
	"alt-loose-kw-paren", "alt-loose-paren-colon",
}

// chunk kinds that need template mode (.php): inline HTML and the alternative-syntax rewriter
var phpOnlyChunk = map[string]bool{"html": true, "html-ml": true, "alt-if": true, "alt-while": true, "alt-for": true,
	"alt-foreach": true, "alt-switch": true, "alt-nested": true, "alt-html": true,
	"alt-loose-kw-paren": true, "alt-loose-paren-colon": true}

// mlHeader lays a parenthesised condition out over several lines (PSR-12 and friends).
func mlHeader(r *rand.Rand, cond, in string) string {
	switch r.Intn(6) {
	case 0:
		return " (\n" + in + cond + "\n)"
	case 1:
		return " (\n" + in + cond + ")"
	case 2:
		return " (" + cond + "\n)"
	case 3:
		return " (\n" + in + "// " + pick(r, mbWords) + "\n" + in + cond + "\n" + in + "&& true\n)"
	case 4:
		return " (" + cond + " &&\n" + in + "true)"
	default:
		return "(\n\n" + in + cond + "\n\n)"
	}
}

func (g *genState) chunk(kind string) chunk {
	r := g.r
	v := g.fresh("v")
	var t string
	switch kind {
	case "assign-int":
		t = fmt.Sprintf("$%s = %d;\n", v, r.Intn(1000))
	case "assign-str":
		t = fmt.Sprintf("$%s = '%s';\n", v, words(r, 1+r.Intn(3), 0))
	case "assign-str-mb":
		q := "\""
		if r.Intn(2) == 0 {
			q = "'"
		}
		t = fmt.Sprintf("$%s = %s%s%s;\n", v, q, words(r, 1+r.Intn(4), 80), q)
	case "mlstring":
		var ls []string
		for i, n := 0, 2+r.Intn(3); i < n; i++ {
			ls = append(ls, words(r, 1+r.Intn(3), 50))
		}
		t = fmt.Sprintf("$%s = \"%s\";\n", v, strings.Join(ls, "\n"))
	case "mlstring-sq":
		var ls []string
		for i, n := 0, 2+r.Intn(3); i < n; i++ {
			ls = append(ls, words(r, 1+r.Intn(3), 50))
		}
		t = fmt.Sprintf("$%s = '%s';\n", v, strings.Join(ls, "\n"))
	case "heredoc", "nowdoc", "heredoc-interp":
		id := pick(r, []string{"EOT", "TXT", "HTML", "SQL", "END_1"})
		var ls []string
		for i, n := 0, 1+r.Intn(4); i < n; i++ {
			l := words(r, 1+r.Intn(3), 50)
			if kind == "heredoc-interp" && (i == 0 || r.Intn(2) == 0) {
				if r.Intn(2) == 0 {
					l += " {$v0} " + pick(r, mbWords)
				} else {
					l = pick(r, mbWords) + " $v0 " + l
				}
			}
			ls = append(ls, l)
		}
		open := "<<<" + id
		if kind == "nowdoc" {
			open = "<<<'" + id + "'"
		}
		t = fmt.Sprintf("$%s = %s\n%s\n%s;\n", v, open, strings.Join(ls, "\n"), id)
	case "heredoc-shaped":
		t = "$" + v + " = " + heredocShaped(r, "$v0", false) + ";\n"
	case "bs-newline":
		a, b := words(r, 1, 50), words(r, 1, 50)
		switch r.Intn(8) {
		case 0:
			t = fmt.Sprintf("$%s = \"%s\\\n%s\";\n", v, a, b) // "a\<LF>b"
		case 1:
			t = fmt.Sprintf("$%s = '%s\\\n%s';\n", v, a, b) // 'a\<LF>b'
		case 2:
			t = fmt.Sprintf("$%s = \"%s\\\\\n%s\";\n", v, a, b) // "a\\<LF>b"
		case 3:
			t = fmt.Sprintf("$%s = \"%s\\n\n%s\\t\n\";\n", v, a, b) // escape sequences right before real line breaks
		case 4:
			t = fmt.Sprintf("$%s = <<<EOT\n%s \\\n%s\\\n\\\nEOT;\n", v, a, b)
		case 5:
			t = fmt.Sprintf("$%s = <<<'EOT'\n%s \\\n%s\\\nEOT;\n", v, a, b)
		case 6:
			t = fmt.Sprintf("$%s = \"%s {$v0}\\\n%s $v0 \\\n\";\n", v, a, b)
		default:
			t = fmt.Sprintf("$%s = \"%s \\\"\n%s\\\n\\\n\\\n%s\";\n", v, a, b, a)
		}
	case "alt-if":
		in := g.indent()
		t = fmt.Sprintf("if%s:\n%s$%s = 1;\nelseif%s:\n%s$%s = 2;\nelse:\n%s$%s = 3;\nendif;\n",
			mlHeader(r, "$v0 > 0", in), in, v, mlHeader(r, "$v0 < 0", in), in, v, in, v)
	case "alt-while":
		in := g.indent()
		t = fmt.Sprintf("$%s = 2;\nwhile%s:\n%s$%s--;\nendwhile;\n", v, mlHeader(r, "$"+v+" > 0", in), in, v)
	case "alt-for":
		in := g.indent()
		w := g.fresh("v")
		hdr := fmt.Sprintf(" (\n%s$%s = 0;\n%s$%s < 2;\n%s$%s++\n)", in, w, in, w, in, w)
		if r.Intn(3) == 0 {
			hdr = fmt.Sprintf(" ($%s = 0;\n%s$%s < 2; $%s++)", w, in, w, w)
		}
		t = fmt.Sprintf("$%s = 0;\nfor%s:\n%s$%s += 1;\nendfor;\n", v, hdr, in, v)
	case "alt-foreach":
		in := g.indent()
		hdr := fmt.Sprintf(" (\n%s[1, 2] as $fk => $fv\n)", in)
		if r.Intn(3) == 0 {
			hdr = fmt.Sprintf(" ([1,\n%s2] as $fv\n)", in)
		}
		t = fmt.Sprintf("$%s = 0;\nforeach%s:\n%s$%s += $fv;\nendforeach;\n", v, hdr, in, v)
	case "alt-switch":
		in := g.indent()
		t = fmt.Sprintf("switch%s:\n%scase 1:\n%s%s$%s = 'a';\n%s%sbreak;\n%sdefault:\n%s%s$%s = 'b';\nendswitch;\n",
			mlHeader(r, "$v0", in), in, in, in, v, in, in, in, in, in, v)
	case "alt-nested":
		in := g.indent()
		t = fmt.Sprintf("$%s = 0;\nif%s:\n%sforeach (\n%s%s[1, 2] as $nv\n%s):\n%s%sif%s:\n%s%s%s$%s += $nv;\n%s%sendif;\n%sendforeach;\nendif;\n",
			v, mlHeader(r, "$v0 > 0", in), in, in, in, in, in, in, mlHeader(r, "$nv > 1", in+in), in, in, in, v, in, in, in)
	case "alt-html":
		in := g.indent()
		t = fmt.Sprintf("if%s: ?>\n<p>%s</p>\n<?php elseif%s: ?>\n<b>x</b>\n<?php else: ?>\n<i>y</i>\n<?php endif; ?>\n<ul>\n<?php foreach (\n%s[1, 2] as $hv\n): ?>\n<li><?php echo $hv; ?></li>\n<?php endforeach;\n",
			mlHeader(r, "$v0 > 0", in), words(r, 1, 70), mlHeader(r, "$v0 < 0", in), in)
	case "alt-loose-kw-paren":
		in := g.indent()
		t = fmt.Sprintf("if\n($v0 > 0):\n%s$%s = 1;\nelseif\n%s($v0 < 0):\n%s$%s = 2;\nendif;\n", in, v, in, in, v)
		if r.Intn(2) == 0 {
			t = fmt.Sprintf("$%s = 2;\nwhile\n\n($%s > 0):\n%s$%s--;\nendwhile;\n", v, v, in, v)
		}
	case "alt-loose-paren-colon":
		in := g.indent()
		t = fmt.Sprintf("if ($v0 > 0)\n:\n%s$%s = 1;\nelseif ($v0 < 0)\n%s:\n%s$%s = 2;\nendif;\n", in, v, in, in, v)
		if r.Intn(2) == 0 {
			t = fmt.Sprintf("$%s = 0;\nforeach ([1, 2] as $lv)\n\n:\n%s$%s += $lv;\nendforeach;\n", v, in, v)
		}
	case "asi":
		w := g.fresh("v")
		t = fmt.Sprintf("$%s = %d\n$%s = $%s + 1\necho $%s\n", v, r.Intn(50), w, v, w)
	case "ns-name":
		t = fmt.Sprintf("$%s = \\strlen('%s');\n", v, pick(r, asciiWords))
	case "interp":
		t = fmt.Sprintf("$%s = \"%s {$v0} %s $v0 %s\";\n", v, words(r, 1, 90), words(r, 1, 60), words(r, 1, 60))
	case "interp-ml":
		t = fmt.Sprintf("$%s = \"%s\n{$v0} %s\n%s $v0\n\";\n", v, words(r, 1, 90), words(r, 1, 60), words(r, 1, 60))
	case "nested-interp":
		a := g.fresh("v")
		t = fmt.Sprintf("$%s = [1, 2, 3];\n$%s = \"%s {$%s[1]} %s\n{$%s[0]}\";\n", a, v, words(r, 1, 90), a, pick(r, mbWords), a)
	case "line-comment":
		t = fmt.Sprintf("// %s\n", words(r, 1+r.Intn(4), 50))
		if g.crlf && g.noCRLFLineComment {
			t = fmt.Sprintf("/* %s */\n", words(r, 1+r.Intn(4), 50))
		}
	case "trailing-comment":
		t = fmt.Sprintf("$%s = %d; // %s\n", v, r.Intn(100), words(r, 1+r.Intn(3), 50))
		if g.crlf && g.noCRLFLineComment {
			t = fmt.Sprintf("$%s = %d; /* %s */\n", v, r.Intn(100), words(r, 1+r.Intn(3), 50))
		}
	case "block-comment":
		t = fmt.Sprintf("/* %s */\n", words(r, 1+r.Intn(4), 50))
		if r.Intn(2) == 0 {
			t = fmt.Sprintf("$%s = /* %s */ %d;\n", v, words(r, 1, 70), r.Intn(100))
		}
	case "block-comment-ml":
		var ls []string
		for i, n := 0, 1+r.Intn(3); i < n; i++ {
			ls = append(ls, " * "+words(r, 1+r.Intn(3), 50))
		}
		t = fmt.Sprintf("/*\n%s\n */\n", strings.Join(ls, "\n"))
	case "docblock":
		f := g.fresh("fn")
		t = fmt.Sprintf("/**\n * %s\n * @param int $a %s\n */\nfunction %s($a) {\n%sreturn $a;\n}\n", words(r, 2, 50), pick(r, mbWords), f, g.indent())
	case "echo":
		switch r.Intn(3) {
		case 0:
			t = "echo $v0;\n"
		case 1:
			t = fmt.Sprintf("echo \"%s\" . $v0;\n", words(r, 1, 60))
		default:
			t = fmt.Sprintf("echo '%s', $v0, \"\\n\";\n", words(r, 1, 60))
		}
	case "func":
		f := g.fresh("fn")
		in := g.indent()
		t = fmt.Sprintf("function %s($a, $b = 2) {\n%s$c = $a + $b;\n%sreturn $c * 2;\n}\n$%s = %s(%d);\n", f, in, in, v, f, r.Intn(50))
	case "closure":
		in := g.indent()
		t = fmt.Sprintf("$%s = function ($a) {\n%sreturn $a . '%s';\n};\necho $%s(1);\n", v, in, pick(r, mbWords), v)
	case "class":
		c := g.fresh("K")
		in := g.indent()
		t = fmt.Sprintf("class %s {\n%spublic $p = %d;\n%sfunction m($q) {\n%s%sreturn $this->p + $q;\n%s}\n}\n$%s = new %s();\necho $%s->m(%d);\n",
			c, in, r.Intn(100), in, in, in, in, v, c, v, r.Intn(9))
	case "if":
		in := g.indent()
		t = fmt.Sprintf("if ($v0 > 0) {\n%s$%s = '%s';\n} else {\n%s$%s = \"%s\";\n}\n", in, v, words(r, 1, 60), in, v, words(r, 1, 60))
	case "array-ml":
		in := g.indent()
		t = fmt.Sprintf("$%s = [\n%s'%s' => %d,\n%s\"%s\" => '%s',\n];\n", v, in, pick(r, mbWords), r.Intn(10), in, pick(r, asciiWords), pick(r, mbWords))
	case "expr-ml":
		t = fmt.Sprintf("$%s = $v0 +\n%s%d *\n%s(3 - $v0);\n", v, g.indent(), r.Intn(10), g.indent())
	case "blank":
		t = strings.Repeat("\n", 1+r.Intn(3))
		if r.Intn(2) == 0 {
			t = " \t \n" + t
		}
	case "fwspace":
		t = fmt.Sprintf("$%s =　%d　+　$v0;\n", v, r.Intn(100))
	case "numbers":
		t = fmt.Sprintf("$%s = 0x1F + 1.5 + 2e3 + 007 + 0b101 + %d;\n", v, r.Intn(100))
	case "html":
		t = fmt.Sprintf("?><p>%s</p><?php\n", words(r, 1+r.Intn(3), 70))
	case "html-ml":
		var ls []string
		for i, n := 0, 1+r.Intn(3); i < n; i++ {
			ls = append(ls, "<li>"+words(r, 1+r.Intn(3), 60)+"</li>")
		}
		t = fmt.Sprintf("?>\n<ul>\n%s\n</ul>\n<?php\n", strings.Join(ls, "\n"))
	default:
		panic("unknown chunk kind " + kind)
	}
	return chunk{Kind: kind, Text: t}
}

func (g *genState) randomChunks(n int) []chunk {
	var out []chunk
	for i := 0; i < n; i++ {
		k := chunkKinds[g.r.Intn(len(chunkKinds))]
		if !g.php && phpOnlyChunk[k] {
			k = "assign-str-mb"
		}
		if strings.HasPrefix(k, "alt-loose-") && (g.crlf || g.q.altLooseLayout) {
			// CRLF: the rewriter does not accept "\r" between keyword, `(`, `)` and `:` (not a position matter)
			k = "alt-if"
		}
		out = append(out, g.chunk(k))
	}
	return out
}

// faultKinds: every fault is detected at a token on its own line (DESIGN.md §4 C18).
var faultKinds = []string{
	"throw", "throw-in-if", "throw-in-func", "throw-in-method", "undef-func", "undef-func-in-if",
	"null-method", "mod-zero", "div-zero", "prop-of-int", "undef-method", "undef-static",
	"call-string", "closure-throw",
	"parse-paren", "parse-if-paren", "parse-class-name", "parse-rparen", "parse-rbrace",
	"parse-else", "parse-foreach", "parse-interface-name", "parse-paren-in-func",
	"undef-class-new", "undef-class-static",
	"eof-class", "eof-func-paren", "eof-call-paren", "eof-new",
	"interp-method", "mlinterp-dq-method", "mlinterp-heredoc-method", "mlinterp-dq-call",
	"abstract-new", "ctor-throw", "static-undef-func", "array-ml-undef-func", "catch-rethrow",
	"arrow-undef-func", "prop-type-mismatch", "chain-ml-prop", "generator-throw",
	// an exception object that is caught and thrown again keeps the location of its first throw
	"rethrow-same", "rethrow-outer", "rethrow-var", "rethrow-prop", "rethrow-finally",
	// the same, observed through getLine()/getFile() in an outer catch block
	"throw-getline", "throw-in-func-getline", "throw-in-method-getline", "ctor-throw-getline",
	"closure-throw-getline", "generator-throw-getline", "catch-rethrow-getline",
	"rethrow-same-getline", "rethrow-outer-getline", "rethrow-var-getline", "rethrow-prop-getline",
	"rethrow-finally-getline", "rethrow-previous-getline",
}

const locEcho = `echo "\nC18LOC|", %s->getMessage(), "|", %s->getFile(), "|", %s->getLine(), "\n";`

func (g *genState) fault(kind string) *fault {
	if base, ok := strings.CutSuffix(kind, "-getline"); ok && base != "rethrow-previous" {
		// the base fault, its statements inside try { … } catch (Exception $eo) { print location }
		f := g.fault(base)
		lines := strings.SplitAfter(f.Text, "\n")
		decl := strings.Join(lines[:f.UseFrom], "")
		use := strings.Join(lines[f.UseFrom:], "")
		f.Kind, f.CatchPrint = kind, true
		f.Text = decl + "try {\n" + use + "} catch (Exception $eo) {\n" + fmt.Sprintf(locEcho, "$eo", "$eo", "$eo") + "\n}\n"
		if f.Line >= f.UseFrom {
			f.Line++
		}
		return f
	}
	n := fmt.Sprintf("%04x", g.r.Intn(0x10000))
	in := g.indent()
	f := &fault{Kind: kind}
	switch kind {
	case "rethrow-same":
		f.Nonce = "boom-" + n
		f.Text = fmt.Sprintf("try {\n%s$w = 1;\n%sthrow new Exception(\"%s\");\n} catch (Exception $ex) {\n%s$w = 2;\n%sthrow $ex;\n}\n", in, in, f.Nonce, in, in)
		f.Line = 2
	case "rethrow-outer":
		f.Nonce = "boom-" + n
		f.Text = fmt.Sprintf("function rt_load_%s($a) {\n%sthrow new RuntimeException(\"%s\");\n}\nfunction rt_boot_%s() {\n%stry {\n%s%sreturn rt_load_%s(1);\n%s} catch (RuntimeException $ex) {\n%s%s$w = 1;\n%s%sthrow $ex;\n%s}\n}\nrt_boot_%s();\n",
			n, in, f.Nonce, n, in, in, in, n, in, in, in, in, in, in, n)
		f.Line, f.UseFrom = 1, 11
	case "rethrow-var":
		f.Nonce = "boom-" + n
		f.Text = fmt.Sprintf("$saved = null;\ntry {\n%sthrow new Exception(\"%s\");\n} catch (Exception $ex) {\n%s$saved = $ex;\n}\n$w = 3;\nthrow $saved;\n", in, f.Nonce, in)
		f.Line = 2
	case "rethrow-prop":
		f.Nonce = "boom-" + n
		f.Text = fmt.Sprintf("class RH%s { public $err = null; }\n$rh = new RH%s();\ntry {\n%sthrow new Exception(\"%s\");\n} catch (Exception $ex) {\n%s$rh->err = $ex;\n}\n$w = 3;\nthrow $rh->err;\n", n, n, in, f.Nonce, in)
		f.Line, f.UseFrom = 3, 1
	case "rethrow-finally":
		f.Nonce = "boom-" + n
		f.Text = fmt.Sprintf("$saved = null;\ntry {\n%stry {\n%s%sthrow new Exception(\"%s\");\n%s} catch (Exception $ex) {\n%s%s$saved = $ex;\n%s}\n} finally {\n%sif ($saved) {\n%s%sthrow $saved;\n%s}\n}\n",
			in, in, in, f.Nonce, in, in, in, in, in, in, in, in)
		f.Line = 3
	case "rethrow-previous-getline":
		f.Nonce = "boom-" + n
		f.CatchPrint = true
		f.Text = fmt.Sprintf("try {\n%stry {\n%s%sthrow new Exception(\"%s\");\n%s} catch (Exception $ex) {\n%s%sthrow new RuntimeException(\"outer\", 0, $ex);\n%s}\n} catch (Exception $ey) {\n%s$pv = $ey->getPrevious();\n%s%s\n}\n",
			in, in, in, f.Nonce, in, in, in, in, in, in, fmt.Sprintf(locEcho, "$pv", "$pv", "$pv"))
		f.Line = 2
	case "throw":
		f.Nonce = "boom-" + n
		f.Text = fmt.Sprintf("throw new Exception(\"%s\");\n", f.Nonce)
	case "throw-in-if":
		f.Nonce = "boom-" + n
		f.Text = fmt.Sprintf("if ($v0 > 0) {\n%s$w = 1;\n%sthrow new Exception(\"%s\");\n}\n", in, in, f.Nonce)
		f.Line = 2
	case "throw-in-func":
		f.UseFrom = 4
		f.Nonce = "boom-" + n
		f.Text = fmt.Sprintf("function ff%s($a) {\n%s$b = $a + 1;\n%sthrow new Exception(\"%s\");\n}\nff%s(2);\n", n, in, in, f.Nonce, n)
		f.Line = 2
	case "throw-in-method":
		f.UseFrom = 5
		f.Nonce = "boom-" + n
		f.Text = fmt.Sprintf("class KF%s {\n%sfunction m() {\n%s%sthrow new Exception(\"%s\");\n%s}\n}\n$kf = new KF%s();\n$kf->m();\n", n, in, in, in, f.Nonce, in, n)
		f.Line = 2
	case "undef-func":
		f.Nonce = "nofn_" + n
		f.Text = fmt.Sprintf("%s(3);\n", f.Nonce)
	case "undef-func-in-if":
		f.Nonce = "nofn_" + n
		f.Text = fmt.Sprintf("if ($v0 > 0) {\n%s%s(3);\n}\n", in, f.Nonce)
		f.Line = 1
	case "null-method":
		f.Nonce = "nomethod_" + n
		f.Text = fmt.Sprintf("$o%s = null; $o%s->%s();\n", n, n, f.Nonce)
	case "mod-zero":
		f.Text = "$mz = 1 % 0;\n"
	case "div-zero":
		f.Text = "$dz = 1 / 0;\n"
	case "prop-of-int":
		f.Nonce = "noprop_" + n
		f.Text = fmt.Sprintf("$pi = $v0->%s;\n", f.Nonce)
	case "undef-method":
		f.UseFrom = 1
		f.Nonce = "nomethod_" + n
		f.Text = fmt.Sprintf("class KU%s { function m() { return 1; } }\n$ku = new KU%s();\n$ku->%s();\n", n, n, f.Nonce)
		f.Line = 2
	case "undef-static":
		f.UseFrom = 1
		f.Nonce = "nostatic_" + n
		f.Text = fmt.Sprintf("class KS%s { function m() { return 1; } }\nKS%s::%s();\n", n, n, f.Nonce)
		f.Line = 1
	case "call-string":
		f.Text = "$cs = 'abc'; $cs();\n"
	case "closure-throw":
		f.Nonce = "boom-" + n
		f.Text = fmt.Sprintf("$cf = function () { throw new Exception(\"%s\"); }; $cf();\n", f.Nonce)
	case "parse-paren":
		f.Parse = true
		f.Text = "$pp = (1 + ;\n"
	case "parse-if-paren":
		f.Parse = true
		f.Text = "if ($v0 {\n"
	case "parse-class-name":
		f.Parse = true
		f.Text = "class { }\n"
	case "parse-rparen":
		f.Parse = true
		f.Text = ")\n"
	case "parse-rbrace":
		f.Parse = true
		f.Text = "}\n"
	case "parse-else":
		f.Parse = true
		f.Text = "else { }\n"
	case "parse-foreach":
		f.Parse = true
		f.Text = "foreach ($v0 as) {}\n"
	case "parse-interface-name":
		f.Parse = true
		f.Text = "interface { }\n"
	case "parse-paren-in-func":
		f.Parse = true
		f.Text = fmt.Sprintf("function pf%s($a) {\n%s$b = $a + 1;\n%s$c = (1 + ;\n}\n", n, in, in)
		f.Line = 2
	case "undef-class-new":
		f.Nonce = "NoClass" + n
		f.Text = fmt.Sprintf("$nc = new %s();\n", f.Nonce)
	case "undef-class-static":
		f.Nonce = "NoClass" + n
		f.Text = fmt.Sprintf("$sc = %s::bar();\n", f.Nonce)
	case "abstract-new":
		f.UseFrom = 1
		f.Nonce = "AB" + n
		f.Text = fmt.Sprintf("abstract class %s { }\n$ab = new %s();\n", f.Nonce, f.Nonce)
		f.Line = 1
	case "ctor-throw":
		f.UseFrom = 5
		f.Nonce = "boom-" + n
		f.Text = fmt.Sprintf("class CC%s {\n%sfunction __construct() {\n%s%sthrow new Exception(\"%s\");\n%s}\n}\n$cc = new CC%s();\n", n, in, in, in, f.Nonce, in, n)
		f.Line = 2
	case "static-undef-func":
		f.UseFrom = 5
		f.Nonce = "nofn_" + n
		f.Text = fmt.Sprintf("class CS%s {\n%sstatic function s() {\n%s%sreturn %s();\n%s}\n}\nCS%s::s();\n", n, in, in, in, f.Nonce, in, n)
		f.Line = 2
	case "array-ml-undef-func":
		f.Nonce = "nofn_" + n
		f.Text = fmt.Sprintf("$am = [1, 2,\n%s3, %s(),\n%s5];\n", in, f.Nonce, in)
		f.Line = 1
	case "catch-rethrow":
		f.Nonce = "outer-" + n
		f.Text = fmt.Sprintf("try {\n%sthrow new Exception(\"inner\");\n} catch (Exception $ex) {\n%sthrow new RuntimeException(\"%s\");\n}\n", in, in, f.Nonce)
		f.Line = 3
	case "arrow-undef-func":
		f.Nonce = "nofn_" + n
		f.Text = fmt.Sprintf("$af = fn($x) => %s($x);\n$af(1);\n", f.Nonce)
	case "prop-type-mismatch":
		f.UseFrom = 1
		f.Nonce = "TP" + n
		f.Text = fmt.Sprintf("class %s { public int $n = 1; }\n$tp = new %s();\n$tp->n = 'str';\n", f.Nonce, f.Nonce)
		f.Line = 2
	case "chain-ml-prop":
		f.Nonce = "noprop_" + n
		f.Text = fmt.Sprintf("echo $v0\n%s->%s;\n", in, f.Nonce)
		f.Line, f.Span = 0, 1 // the property fetch `$v0 ⏎ ->name` starts on line 0 and is detected on line 1
	case "generator-throw":
		f.UseFrom = 4
		f.Nonce = "boom-" + n
		f.Text = fmt.Sprintf("function gen%s() {\n%syield 1;\n%sthrow new Exception(\"%s\");\n}\nforeach (gen%s() as $gv) { }\n", n, in, in, f.Nonce, n)
		f.Line = 2
	case "eof-class":
		f.Parse, f.AtEOF = true, true
		f.Text = "class\n"
	case "eof-func-paren":
		f.Parse, f.AtEOF = true, true
		f.Text = fmt.Sprintf("function ef%s(\n", n)
	case "eof-call-paren":
		f.Parse, f.AtEOF = true, true
		f.Text = fmt.Sprintf("$ec = ef%s(\n", n)
	case "eof-new":
		f.Parse, f.AtEOF = true, true
		f.Text = "new\n"
	case "interp-method":
		f.Nonce = "nomethod_" + n
		f.Text = fmt.Sprintf("$im = \"%s {$v0->%s()} %s\";\n", words(g.r, 2, 100), f.Nonce, words(g.r, 1, 50))
	case "mlinterp-dq-method":
		f.Nonce = "nomethod_" + n
		f.Text = fmt.Sprintf("$im = \"%s\n%s {$v0->%s()} x\nlast\";\n", words(g.r, 1, 60), words(g.r, 1, 60), f.Nonce)
		f.Line = 1
	case "mlinterp-heredoc-method":
		f.Nonce = "nomethod_" + n
		f.Text = fmt.Sprintf("$hm = <<<EOT\n%s\n%s {$v0->%s()} x\nEOT;\n", words(g.r, 1, 60), words(g.r, 1, 60), f.Nonce)
		f.Line = 2
	case "mlinterp-dq-call":
		f.Nonce = "nofn_" + n
		f.Text = fmt.Sprintf("$ic = \"%s\n%s @{%s(2)} x\";\n", words(g.r, 1, 60), words(g.r, 1, 60), f.Nonce)
		f.Line = 1
	default:
		panic("unknown fault kind " + kind)
	}
	return f
}

// render materialises the program; faultLine is the 1-based line on which the planted fault
// must be reported (0 when there is no fault).
func (p *program) render() (src string, faultLine int) {
	src, faultLine, _ = p.render2()
	return
}

// render2 also gives the last acceptable line (= faultLine unless the fault sits at EOF).
func (p *program) render2() (src string, faultLine, faultLineMax int) {
	var sb strings.Builder
	if p.Shebang {
		sb.WriteString("#!/usr/bin/env origami\n")
	}
	if p.Mode == "php" {
		sb.WriteString("<?php\n")
	}
	if p.Mode == "html" {
		// a `<!DOCTYPE` document: lexed by the HtmlLexer, run as a template
		sb.WriteString("<!DOCTYPE html>\n<html>\n<body>\n")
	} else {
		sb.WriteString("$v0 = 1;\n")
	}
	for _, c := range p.Head {
		sb.WriteString(c.Text)
	}
	if p.Fault != nil {
		text, line := wrapFault(p.Fault, p.Wrap)
		faultLine = strings.Count(sb.String(), "\n") + 1 + line
		sb.WriteString(text)
	}
	if p.Fault == nil || !p.Fault.AtEOF {
		for _, c := range p.Tail {
			sb.WriteString(c.Text)
		}
	}
	if p.Mode == "html" {
		sb.WriteString("</body>\n</html>\n")
	}
	src = sb.String()
	faultLineMax = faultLine
	if p.Fault != nil {
		faultLineMax += p.Fault.Span
	}
	if p.Fault != nil && p.Fault.AtEOF {
		faultLineMax = strings.Count(src, "\n") + 1
	}
	if p.CRLF {
		src = strings.ReplaceAll(src, "\n", "\r\n")
	}
	return
}

var wrapKinds = []string{"func", "method", "static", "closure", "nested"}

// wrapFault moves the statements of a runtime fault into a body that is called from another
// line (1 frame; "nested" = closure -> static method -> method, 3 frames). The declarations
// of the fault stay at top level. Returns the text and the 0-based line of the fault in it.
// The body is not indented so that heredoc terminators keep their column.
func wrapFault(f *fault, wrap string) (string, int) {
	if wrap == "" || f.Parse {
		return f.Text, f.Line
	}
	lines := strings.SplitAfter(f.Text, "\n")
	if lines[len(lines)-1] == "" {
		lines = lines[:len(lines)-1]
	}
	decl := strings.Join(lines[:f.UseFrom], "")
	use := strings.Join(lines[f.UseFrom:], "")
	id := fmt.Sprintf("%x", len(f.Text)*7919+len(f.Nonce)) + strings.Map(func(r rune) rune {
		if r >= '0' && r <= '9' || r >= 'a' && r <= 'f' {
			return r
		}
		return -1
	}, f.Nonce)
	var pre, post string
	switch wrap {
	case "func":
		pre = fmt.Sprintf("function wf_%s($wp) {\n$v0 = 1;\n", id)
		post = fmt.Sprintf("return 1;\n}\n$wpad = 1;\nwf_%s(2);\n", id)
	case "method":
		pre = fmt.Sprintf("class WM_%s {\nfunction m($wp) {\n$v0 = 1;\n", id)
		post = fmt.Sprintf("return 1;\n}\n}\n$wo = new WM_%s();\n$wpad = 1;\n$wo->m(2);\n", id)
	case "static":
		pre = fmt.Sprintf("class WS_%s {\nstatic function s($wp) {\n$v0 = 1;\n", id)
		post = fmt.Sprintf("return 1;\n}\n}\n$wpad = 1;\nWS_%s::s(2);\n", id)
	case "closure":
		pre = "$wc = function ($wp) {\n$v0 = 1;\n"
		post = "return 1;\n};\n$wpad = 1;\n$wc(2);\n"
	case "nested":
		pre = fmt.Sprintf("class WN_%s {\nfunction m($wp) {\n$v0 = 1;\n", id)
		post = fmt.Sprintf("return 1;\n}\nstatic function s($wp) {\n$wo = new WN_%s();\nreturn $wo->m($wp);\n}\n}\n"+
			"function wn_%s($wp) {\n$wc = function ($wq) {\nreturn WN_%s::s($wq);\n};\nreturn $wc($wp);\n}\n$wpad = 1;\nwn_%s(2);\n", id, id, id, id)
	default:
		panic("unknown wrapper " + wrap)
	}
	line := f.Line
	if f.Line >= f.UseFrom {
		line += strings.Count(pre, "\n")
	}
	return decl + pre + use + post, line
}

func (p *program) kinds() []string {
	seen := map[string]bool{}
	var out []string
	for _, c := range p.Head {
		if !seen[c.Kind] {
			seen[c.Kind] = true
			out = append(out, c.Kind)
		}
	}
	return out
}

// genProgram draws one program. withFault=false gives a fault-free program (span inputs).
func genProgram(r *rand.Rand, withFault bool, q quarantine) *program {
	p := &program{Mode: "zy"}
	if r.Intn(2) == 0 {
		p.Mode = "php"
	}
	p.CRLF = r.Intn(4) == 0
	if p.Mode == "php" && r.Intn(12) == 0 && !q.shebang {
		p.Shebang = true
	}
	g := &genState{r: r, php: p.Mode == "php", crlf: p.CRLF, noCRLFLineComment: q.crlfLineComment, q: q}
	p.Head = g.randomChunks(1 + r.Intn(8))
	if withFault {
		k := faultKinds[r.Intn(len(faultKinds))]
		for q.faultOff(k) {
			k = faultKinds[r.Intn(len(faultKinds))]
		}
		p.Fault = g.fault(k)
		p.Include = r.Intn(6) == 0
		if !p.Fault.Parse && r.Intn(5) < 3 {
			p.Wrap = wrapKinds[r.Intn(len(wrapKinds))]
			if q.staticInClosure && k == "undef-class-static" && p.Wrap == "closure" {
				p.Wrap = "func"
			}
		}
	}
	p.Tail = g.randomChunks(r.Intn(3))
	return p
}

// quarantine lists generator features switched off while a known finding is still active.
type quarantine struct {
	crlfLineComment bool // never put a `//` comment in a CRLF file
	shebang         bool // never start a file with #!
	undefClass      bool // never plant new/static access to an undefined class
	eofFault        bool // never plant a parse fault that is detected at end of input
	mlInterp        bool // never plant a fault inside an interpolation on a later line of a string
	byteNewline     bool // no byte literal with a line break inside
	nonUTF8String   bool // no string literal with bytes that are not UTF-8
	staticInClosure bool // no static call on an undefined class inside a closure body
	htmlMLInterp    bool // no failing interpolation on a later line of an HTML text run
	altLooseLayout  bool // no alternative-syntax header with a line break between keyword and `(` or between `)` and `:`
}

func (q quarantine) faultOff(k string) bool {
	switch {
	case q.undefClass && strings.HasPrefix(k, "undef-class-"):
		return true
	case q.eofFault && strings.HasPrefix(k, "eof-"):
		return true
	case q.mlInterp && strings.HasPrefix(k, "mlinterp-"):
		return true
	}
	return false
}

// ---------------------------------------------------------------------------------
// lexical soup: not necessarily parseable, only lexed (span clause)

var soupAtoms = []string{
	"$a", "$b1", "$变量", "$héllo", "foo", "Bar\\Baz", "\\App\\Model\\User", "名字", "_x9",
	"if", "else", "while", "function", "return", "class", "new", "echo", "true", "false", "null", "TRUE", "array", "int", "string",
	"+", "-", "*", "/", "%", "=", "==", "===", "!=", "!==", "<", ">", "<=", ">=", "<=>", "&&", "||", "!", "&", "|", "^", "~",
	"<<", ">>", "++", "--", "->", "=>", "?", "?:", ":", "::", "@", ",", ";", "(", ")", "{", "}", "[", "]", "??", "??=", "**", "**=",
	"+=", "-=", "*=", "/=", "%=", ".=", "&=", "|=", "^=", "<<=", ">>=", ".", "...", "?->",
	"0", "7", "42", "3.14", "0x1F", "0b101", "017", "1e3", "2.5e-3", "1E+9", "-5", "1_000", "9999999999",
	"'s'", "\"d\"", "''", "\"\"", "'日本語'", "\"é {$a} ü\"", "\"x $a y\"", "\"ß{$a->b}→{$c[1]}\"", "'it\\'s'", "\"q\\\"q\"", "\"a\\$b\"", "`ls`",
	"b'x'", "\"@{foo(1)} é\"", "\"{$a}\"", "\"日{$a}本\"",
	// a backslash (or an escape sequence) directly in front of a real line break, in every string kind
	"\"a\\\nb\"", "'a\\\nb'", "`a\\\nb`", "\"a\\\\\nb\"", "\"x\\n\ny\\t\n\"", "\"q\\\"\nz\"", "\"é {$a}\\\n$a \\\n\"", "'\\\n\\\n'",
	"<<<EOT\nx \\\ny\\\n\\\nEOT;\n", "<<<'EOT'\nx \\\ny\\\nEOT;\n", "<<<EOT\n{$a} \\\n$a\\\nEOT;\n",
	"// c\n", "/* c */", "/* 日本\n語 */", "/** d */", "// é ü\n",
	"\n", "\n\n", "\t", "  ", "　", "\n    ",
}

var soupByteNL = []string{"b'p\nq'", "b'\n'"}
var soupNonUTF8 = []string{"\"x\xffy\"", "'\xfe\xfd'", "\"\xc3\""}

func genSoup(r *rand.Rand, q quarantine) string {
	var sb strings.Builder
	n := 5 + r.Intn(120)
	atoms := soupAtoms
	if !q.byteNewline {
		atoms = append(append([]string{}, atoms...), soupByteNL...)
	}
	if !q.nonUTF8String {
		atoms = append(append([]string{}, atoms...), soupNonUTF8...)
	}
	for i := 0; i < n; i++ {
		a := atoms[r.Intn(len(atoms))]
		sb.WriteString(a)
		switch r.Intn(6) {
		case 0:
			sb.WriteString("\n")
		case 1:
		default:
			sb.WriteString(" ")
		}
		if r.Intn(40) == 0 {
			id := "EOT"
			sb.WriteString("<<<" + id + "\n" + words(r, 2, 50) + "\n  " + words(r, 1, 50) + " {$a}\n" + id + ";\n")
		}
		if r.Intn(60) == 0 {
			sb.WriteString("<<<'NOW'\n" + words(r, 2, 50) + "\nNOW;\n")
		}
	}
	sb.WriteString("\n;\n") // never end in `$` or a half full-width space (C01's domain)
	s := sb.String()
	if r.Intn(4) == 0 {
		s = toCRLF(s, q)
	}
	return s
}

// toCRLF converts LF line ends to CRLF. While the CRLF-line-comment finding is active, lines
// that contain a `//` keep their LF (purely syntactic rule).
func toCRLF(s string, q quarantine) string {
	if !q.crlfLineComment {
		return strings.ReplaceAll(strings.ReplaceAll(s, "\r\n", "\n"), "\n", "\r\n")
	}
	lines := strings.SplitAfter(strings.ReplaceAll(s, "\r\n", "\n"), "\n")
	var sb strings.Builder
	for _, l := range lines {
		if strings.HasSuffix(l, "\n") && !strings.Contains(l, "//") {
			sb.WriteString(l[:len(l)-1] + "\r\n")
		} else {
			sb.WriteString(l)
		}
	}
	return sb.String()
}

// injections at token boundaries of an existing source (corpus mutation)
func injection(r *rand.Rand, template bool, q quarantine) (kind, text string) {
	kinds := []string{"mb-block-comment", "mb-line-comment", "heredoc-stmt", "mlstring-stmt", "interp-stmt", "fwspace", "blank", "nowdoc-stmt"}
	if template {
		kinds = append(kinds, "html", "html-ml")
	}
	k := kinds[r.Intn(len(kinds))]
	switch k {
	case "mb-block-comment":
		return k, " /* " + words(r, 2, 90) + "\n" + pick(r, mbWords) + " */ "
	case "mb-line-comment":
		return k, " // " + words(r, 2, 90) + "\n"
	case "heredoc-stmt":
		return k, "\n$__h = <<<EOT\n" + words(r, 2, 70) + "\n{$__h} " + pick(r, mbWords) + "\nEOT;\n"
	case "nowdoc-stmt":
		return k, "\n$__n = <<<'EOT'\n" + words(r, 2, 70) + "\nEOT;\n"
	case "mlstring-stmt":
		return k, "\n$__s = \"" + words(r, 1, 90) + "\n" + words(r, 1, 50) + "\";\n"
	case "interp-stmt":
		return k, "\n$__i = \"" + pick(r, mbWords) + " {$__s} " + pick(r, mbWords) + "\n$__s\";\n"
	case "fwspace":
		return k, "　"
	case "blank":
		return k, "\n\n \t\n"
	case "html":
		return k, " ?><b>" + words(r, 1, 90) + "</b><?php "
	case "html-ml":
		return k, " ?>\n<p>\n" + words(r, 2, 70) + "\n</p>\n<?php "
	}
	return k, ""
}

// prefixes that a lexer might be tempted to strip before lexing (and then report offsets of
// the shortened text): byte order mark, shebang, blank lead-in, HTML in front of the open tag
var sourcePrefixes = []struct{ Name, Text string }{
	{"bom", "\xef\xbb\xbf"},
	{"bom+shebang", "\xef\xbb\xbf#!/usr/bin/env origami\n"},
	{"bom+blank", "\xef\xbb\xbf\n"},
	{"shebang", "#!/usr/bin/env origami\n"},
	{"shebang-crlf", "#!/usr/bin/env origami\r\n"},
	{"blank-lines", "\n\n"},
	{"spaces", "   "},
	{"crlf", "\r\n"},
	{"mixed-blank", " \t\r\n\r\n"},
	{"fwspace", "\u3000\n"},
	{"html", "<html>\n<body>é\n"},
	{"html-comment", "<!-- ü -->"},
}

// heredocShaped draws one heredoc / nowdoc expression (from `<<<` to the closing marker,
// without the `;`): 0–3 blank lines at the start and at the end of the body, blank lines
// inside, multi-byte text, indented body and closing marker, and one of the interpolation
// forms ({$x}, $x, {$x->p}, $x->p, \$, a lone $, none). variable is an initialised scalar
// variable; objVar=true allows the ->p forms (variable must then be an object with $p).
func heredocShaped(r *rand.Rand, variable string, objVar bool) string {
	id := pick(r, []string{"EOT", "TXT", "HTML", "SQL", "END_1", "XY"})
	nowdoc := r.Intn(4) == 0
	forms := []string{"{" + variable + "}", variable, "\\" + variable, "$ 5", "", "{" + variable + "} " + variable}
	if objVar {
		forms = append(forms, "{"+variable+"->p}", variable+"->p")
	}
	form := forms[r.Intn(len(forms))]
	ind := pick(r, []string{"", "", "  ", "    ", "\t"})
	var body []string
	for i, n := 0, r.Intn(4); i < n; i++ {
		body = append(body, "")
	}
	nl := 1 + r.Intn(4)
	at := r.Intn(nl)
	for i := 0; i < nl; i++ {
		l := ind + words(r, 1+r.Intn(3), 50)
		if i == at && form != "" {
			l += " " + form + " " + pick(r, mbWords)
		}
		switch r.Intn(8) {
		case 0:
			l += "\\" // backslash directly in front of the line break
		case 1:
			l += " \\\\"
		case 2:
			l += "\\n"
		}
		body = append(body, l)
		if r.Intn(4) == 0 {
			body = append(body, "")
		}
	}
	for i, n := 0, r.Intn(4); i < n; i++ {
		body = append(body, "")
	}
	open := "<<<" + pick(r, []string{"", "", " "}) + id
	if nowdoc {
		open = "<<<'" + id + "'"
	}
	return open + "\n" + strings.Join(body, "\n") + "\n" + ind + id
}

// genHeredocSource: a source made of statements that use heredocShaped in every syntactic
// position (assignment, echo, call argument, array element, concatenation), each followed by
// ordinary statements whose lines must still be right.
func genHeredocSource(r *rand.Rand, q quarantine) (src string, template bool) {
	var sb strings.Builder
	template = r.Intn(2) == 0
	if template {
		if r.Intn(3) == 0 {
			sb.WriteString("<p>" + words(r, 1, 60) + "</p>\n")
		}
		sb.WriteString("<?php\n")
	}
	sb.WriteString("$v0 = 1;\nclass HO { public $p = 2; }\n$ho = new HO();\n")
	for i, n := 0, 1+r.Intn(4); i < n; i++ {
		variable, obj := "$v0", false
		if r.Intn(3) == 0 {
			variable, obj = "$ho", true
		}
		h := heredocShaped(r, variable, obj)
		switch r.Intn(6) {
		case 0:
			fmt.Fprintf(&sb, "$h%d = %s;\n", i, h)
		case 1:
			fmt.Fprintf(&sb, "echo %s;\n", h)
		case 2:
			fmt.Fprintf(&sb, "echo strlen(%s\n);\n", h)
		case 3:
			fmt.Fprintf(&sb, "$a%d = ['k' => %s\n, 'z' => %d];\n", i, h, r.Intn(9))
		case 4:
			fmt.Fprintf(&sb, "$c%d = %s\n. '%s';\n", i, h, pick(r, mbWords))
		default:
			fmt.Fprintf(&sb, "$h%d = %s;\n", i, h)
		}
		switch r.Intn(4) {
		case 0:
			fmt.Fprintf(&sb, "$t%d = %d; // %s\n", i, r.Intn(99), pick(r, mbWords))
		case 1:
			fmt.Fprintf(&sb, "echo $v0;\n\n$u%d = \"%s\";\n", i, words(r, 1, 70))
		case 2:
			fmt.Fprintf(&sb, "if ($v0 > 0) {\n    echo '%s';\n}\n", pick(r, asciiWords))
		}
	}
	sb.WriteString("echo $v0;\n")
	src = sb.String()
	if r.Intn(3) == 0 {
		src = toCRLF(src, q)
	}
	return
}
