// Check C18: token spans and error locations point at the right place in the source.
//
//	c18                 driver (run by check.sh)
//	c18 worker …        in-process lexer worker (child of the driver)
//	c18 dump <file> [script|template]   development aid: print tokens and span verdict
package main

import (
	"bufio"
	"encoding/json"
	"fmt"
	"io/fs"
	"math/rand"
	"os"
	"path/filepath"
	"runtime"
	"sort"
	"strconv"
	"strings"
	"sync"
	"time"

	"verif/lib"
)

func main() {
	if len(os.Args) >= 2 {
		switch os.Args[1] {
		case "worker":
			workerMain(os.Args[2:])
			return
		case "dump":
			dumpMain(os.Args[2:])
			return
		case "gencheck":
			gencheckMain(os.Args[2:])
			return
		}
	}
	drive()
}

func dumpMain(args []string) {
	if len(args) < 1 {
		fmt.Println("usage: dump <file> [script|template]")
		os.Exit(2)
	}
	b, err := os.ReadFile(args[0])
	if err != nil {
		fmt.Println(err)
		os.Exit(2)
	}
	src := string(b)
	mode := "script"
	if len(args) >= 2 {
		mode = args[1]
	}
	toks, pan, ran := lexOne(src, mode)
	if pan != "" || ran {
		fmt.Println("lexer panic:", pan, "runaway:", ran)
		return
	}
	fmt.Print(dumpTokens(src, toks))
	v, n := checkSpans(src, toks)
	fmt.Println("compared", n, "hostile", hostile(src, toks))
	for _, x := range v {
		fmt.Println("VIOL", x.Rule, x.Class, localise(src, mode, toks, x.Index, x.Rule), "::", x.What)
	}
}

// ---------------------------------------------------------------------------------
// driver

type driver struct {
	e *lib.Env
	q quarantine

	mu        sync.Mutex
	tokens    int
	compared  int
	spanEval  int
	spanNT    lib.DistinctCounter
	families  map[string]int
	lexPanics []string
	runaways  []string
	samples   []any

	locEval, locCompared, locNoDiag, locOther, locCrash int
	locNT                                               lib.DistinctCounter
	locNotes                                            []string
	faultSeen                                           map[string]int
	ctxSeen                                             map[string]int
}

func drive() {
	e := lib.Init("C18", "exploration")
	e.RunScriptWitnesses()
	d := &driver{e: e, families: map[string]int{}, faultSeen: map[string]int{}, ctxSeen: map[string]int{}}
	e.Assume(
		"span clause: the source is the exact string handed to lexer.Tokenize / lexer.TokenizeTemplate; only top-level tokens are checked (children of interpolation tokens are not)",
		"literal clause compared for keywords, operators, numbers, identifiers/variables (blanks inside a `$ name` / `\\ Name` merge ignored) and STRING/HEREDOC/NOWDOC tokens whose text has no backslash; interpolated strings, HTML, UNKNOWN and byte literals are outside it",
		"a Go panic or a runaway loop of the lexer is C01's domain: counted (lexer_panics, lexer_runaways), not judged here",
		"error-location clause: the first diagnostic on stderr whose message is the planted fault's; a run that prints no diagnostic, another diagnostic, or crashes at Go level is counted and not judged",
	)

	// phase 0: regression inputs of the known findings (always run, whatever the seed), so
	// that quarantines reflect the tree under test
	d.runSpanCases(regressionSpanCases())
	d.errlocRegression()
	d.q = quarantine{
		crlfLineComment: e.Quarantined("crlf-line-comment"),
		shebang:         e.Quarantined("shebang"),
		undefClass:      e.Quarantined("undef-class"),
		eofFault:        e.Quarantined("eof-fault"),
		mlInterp:        e.Quarantined("mlinterp-fault"),
		byteNewline:     e.Quarantined("byte-newline"),
		nonUTF8String:   e.Quarantined("nonutf8-string"),
		staticInClosure: e.Quarantined("undef-class-static-in-closure"),
		altLooseLayout:  e.Quarantined("alt-loose-layout"),
		htmlMLInterp:    e.Quarantined("html-mlinterp-fault"),
	}

	// phase 1: span invariants
	d.spanCases()

	// phase 2: error locations
	d.errloc()

	e.Extra("tokens_checked", d.tokens)
	e.Extra("literals_compared", d.compared)
	e.Extra("span_inputs", d.spanEval)
	e.Extra("span_inputs_by_family", d.families)
	e.Extra("span_inputs_hostile_distinct", d.spanNT.N())
	e.Extra("lexer_panics", len(d.lexPanics))
	e.Extra("lexer_runaways", len(d.runaways))
	if len(d.lexPanics) > 0 {
		e.Extra("lexer_panic_samples", head(d.lexPanics, 5))
	}
	e.Extra("errloc_programs", d.locEval)
	e.Extra("errloc_lines_compared", d.locCompared)
	e.Extra("errloc_no_diagnostic", d.locNoDiag)
	e.Extra("errloc_other_diagnostic", d.locOther)
	e.Extra("errloc_go_crash", d.locCrash)
	e.Extra("errloc_faults_compared", d.faultSeen)
	e.Extra("errloc_context_kinds_compared", d.ctxSeen)
	if len(d.locNotes) > 0 {
		e.Extra("errloc_notes", head(d.locNotes, 10))
	}
	e.Finish(lib.Coverage{
		Evaluations:        d.spanEval + d.locEval,
		DistinctNontrivial: d.spanNT.N() + d.locNT.N(),
		Rule: "span input: lexed without panic, >=2 tokens, and a multi-line token or a multi-byte/CR byte precedes some token; " +
			"error-location program: the planted fault's diagnostic was printed and its line compared, with >=1 stressor chunk in front of the fault",
		Samples:    d.samples,
		Exhaustive: false,
	})
}

func head(s []string, n int) []string {
	if len(s) > n {
		return s[:n]
	}
	return s
}

// ---------------------------------------------------------------------------------
// span cases

func regressionSpanCases() []spanCase {
	mk := func(id, mode, src string) spanCase {
		return spanCase{ID: "regress/" + id, Family: "regress", Mode: mode, Src: []byte(src)}
	}
	return []spanCase{
		mk("crlf-line-comment", "script", "$a = 1;\r\n// note\r\n$b = 2;\r\n"),
		mk("crlf-line-comment-t", "template", "<?php\r\n$a = 1;\r\n// note\r\n$b = 2;\r\n"),
		mk("shebang", "script", "#!/usr/bin/env origami\n<?php\n$a = 1;\necho $a;\n"),
		mk("cr-line-comment", "script", "$c = 1;\n// old mac\r$d = 2;\n$e = 3;\n"),
		mk("byte-newline", "script", "$b = b'p\nq';\n$c = 1;\n"),
		mk("nonutf8-string", "script", "$a = \"x\xffy\";\n"),
		mk("bom-template", "template", "\xef\xbb\xbf<?php\n$total = 40 + 2;\necho $total, \"\\n\";\n"),
		mk("bom-script", "script", "\xef\xbb\xbf$total = 40 + 2;\necho $total;\n"),
		mk("bom-shebang-script", "script", "\xef\xbb\xbf#!/usr/bin/env origami\n<?php\n$a = 1;\n"),
		mk("heredoc-blank-lead", "script", "$n = 1;\n$s = <<<EOT\n\nvalue {$n}\nEOT;\necho $s;\n"),
		mk("heredoc-blank-lead-crlf", "template", "<?php\r\n$n = 1;\r\n$s = <<<EOT\r\n\r\n\r\nvalue $n\r\nEOT;\r\necho $s;\r\n"),
		mk("heredoc-blank-lead-dollar", "script", "$s = <<<EOT\n\n\ncosts \\$5\n\nEOT;\necho $s;\n"),
		mk("bs-newline-dq", "script", "$s = \"a\\\nb\";\n$t = 1;\n"),
		mk("bs-newline-sq", "script", "$s = 'a\\\nb\\\n';\n$t = 1;\n"),
		mk("bs-newline-backtick", "script", "$s = `a\\\nb`;\n$t = 1;\n"),
		mk("bs-newline-heredoc", "template", "<?php\n$s = <<<EOT\na \\\nb\\\nEOT;\n$t = 1;\n"),
		mk("bs-newline-nowdoc", "script", "$s = <<<'EOT'\na \\\nb\nEOT;\n$t = 1;\n"),
		mk("bs-newline-interp", "script", "$a = 1;\n$s = \"x {$a}\\\n$a \\\n\";\n$t = 1;\n"),
		mk("bs-bs-newline", "script", "$s = \"a\\\\\nb\";\n$t = 1;\n"),
		mk("html-comment-ml", "script", "<!DOCTYPE html>\n<html>\n<!-- a\nb\nc -->\n<body class=\"x\">t</body>\n</html>\n"),
		mk("plain", "script", "$a = 1;\n$b = \"x\ny\";\necho $a;\n"),
	}
}

func (d *driver) corpusFiles() []string {
	var files []string
	_ = filepath.WalkDir(d.e.Repo, func(p string, de fs.DirEntry, err error) error {
		if err != nil {
			return nil
		}
		if de.IsDir() {
			if n := de.Name(); n == ".git" || n == "node_modules" {
				return filepath.SkipDir
			}
			return nil
		}
		switch filepath.Ext(p) {
		case ".php", ".zy", ".html":
			if fi, err := de.Info(); err == nil && fi.Size() <= 1<<20 {
				files = append(files, p)
			}
		}
		return nil
	})
	sort.Strings(files)
	return files
}

// spanCases generates the span inputs family by family and runs them in batches (so that
// the sources of a thorough run never sit in memory all at once).
func (d *driver) spanCases() {
	e := d.e
	var cases []spanCase
	flush := func(force bool) {
		if len(cases) >= 20000 || (force && len(cases) > 0) {
			d.runSpanCases(cases)
			cases = nil
		}
	}
	files := d.corpusFiles()
	type cf struct{ rel, src string }
	var corpus []cf
	for _, f := range files {
		b, err := os.ReadFile(f)
		if err != nil {
			continue
		}
		rel, _ := filepath.Rel(e.Repo, f)
		corpus = append(corpus, cf{rel, string(b)})
		for _, m := range []string{"script", "template"} {
			cases = append(cases, spanCase{ID: "corpus/" + rel + "/" + m, Family: "corpus", Mode: m, Src: b})
		}
	}
	e.Extra("corpus_files", len(corpus))

	// corpus files with injections at seeded token boundaries / CRLF conversion
	flush(true)

	// prefix variants: every corpus file and generated programs behind each strippable prefix,
	// in both lexing modes
	for _, c := range corpus {
		for _, px := range sourcePrefixes {
			if d.q.shebang && strings.Contains(px.Name, "shebang") {
				continue
			}
			for _, m := range []string{"script", "template"} {
				cases = append(cases, spanCase{ID: "prefix/" + px.Name + "/" + c.rel + "/" + m, Family: "prefix", Mode: m, Src: []byte(px.Text + c.src)})
			}
		}
		flush(false)
	}
	r := e.Rand("span-prefix")
	for i, n := 0, e.Pick(1500, 20000); i < n; i++ {
		p := genProgram(r, false, d.q)
		p.Shebang = false
		src, _ := p.render()
		px := sourcePrefixes[r.Intn(len(sourcePrefixes))]
		if d.q.shebang && strings.Contains(px.Name, "shebang") {
			px = sourcePrefixes[0]
		}
		for _, m := range []string{"script", "template"} {
			cases = append(cases, spanCase{ID: fmt.Sprintf("prefix/%s/gen%d/%s", px.Name, i, m), Family: "prefix", Mode: m, Src: []byte(px.Text + src)})
		}
		flush(false)
	}
	flush(true)

	// `<!DOCTYPE` documents: the HtmlLexer path, every construct in a multi-line form
	r = e.Rand("span-html")
	for i, n := 0, e.Pick(2500, 30000); i < n; i++ {
		src := genHTMLDoc(r)
		cases = append(cases, spanCase{ID: fmt.Sprintf("html/%d/script", i), Family: "html", Mode: "script", Src: []byte(src)})
		if r.Intn(4) == 0 {
			cases = append(cases, spanCase{ID: fmt.Sprintf("html/%d/template", i), Family: "html", Mode: "template", Src: []byte(src)})
		}
		flush(false)
	}
	// one document per element kind, whatever the seed
	for _, k := range htmlElementKinds {
		src := "<!DOCTYPE html>\n<html>\n" + htmlElement(e.Rand("span-html-fixed/"+k), k, 0) + "<p id=\"after\">x</p>\n</html>\n"
		cases = append(cases, spanCase{ID: "html/fixed/" + k, Family: "html", Mode: "script", Src: []byte(src)})
	}
	flush(true)

	// heredoc / nowdoc shapes (blank lines at the start/end of the body, indentation, every
	// interpolation form, every syntactic position), lexed in the mode they are written for and
	// in the other one
	r = e.Rand("span-heredoc")
	for i, n := 0, e.Pick(3000, 40000); i < n; i++ {
		src, tpl := genHeredocSource(r, d.q)
		mode := "script"
		if tpl {
			mode = "template"
		}
		cases = append(cases, spanCase{ID: fmt.Sprintf("heredoc/%d/%s", i, mode), Family: "heredoc", Mode: mode, Src: []byte(src)})
		if r.Intn(4) == 0 {
			other := "template"
			if tpl {
				other = "script"
			}
			cases = append(cases, spanCase{ID: fmt.Sprintf("heredoc/%d/%s", i, other), Family: "heredoc", Mode: other, Src: []byte(src)})
		}
		flush(false)
	}
	flush(true)
	r = e.Rand("span-inject")
	nInject := e.Pick(8000, 100000)
	for i := 0; i < nInject && len(corpus) > 0; i++ {
		c := corpus[r.Intn(len(corpus))]
		mode := "script"
		if r.Intn(2) == 0 {
			mode = "template"
		}
		src, what := injectInto(r, c.src, mode, d.q)
		cases = append(cases, spanCase{ID: fmt.Sprintf("inject/%d/%s/%s/%s", i, c.rel, mode, what), Family: "corpus-inject", Mode: mode, Src: []byte(src)})
		flush(false)
	}
	flush(true)

	// generated programs (fault-free), in the mode they are written for and in the other one
	r = e.Rand("span-gen")
	nGen := e.Pick(10000, 100000)
	for i := 0; i < nGen; i++ {
		p := genProgram(r, false, d.q)
		src, _ := p.render()
		mode := "script"
		if p.Mode == "php" {
			mode = "template"
		}
		if r.Intn(8) == 0 { // also the "wrong" mode: still a source text
			if mode == "script" {
				mode = "template"
			} else {
				mode = "script"
			}
		}
		cases = append(cases, spanCase{ID: fmt.Sprintf("gen/%d/%s", i, mode), Family: "gen", Mode: mode, Src: []byte(src)})
		flush(false)
	}
	flush(true)

	// lexical soup
	r = e.Rand("span-soup")
	nSoup := e.Pick(6000, 60000)
	for i := 0; i < nSoup; i++ {
		s := genSoup(r, d.q)
		mode := "script"
		if r.Intn(3) == 0 {
			mode = "template"
			s = "<?php " + s
			if r.Intn(3) == 0 {
				s = "<div>" + pick(r, mbWords) + "</div>\n" + s
			}
		}
		cases = append(cases, spanCase{ID: fmt.Sprintf("soup/%d/%s", i, mode), Family: "soup", Mode: mode, Src: []byte(s)})
		flush(false)
	}
	flush(true)
}

// injectInto inserts 1–4 snippets at token starts of src (found by a first lex of src) or
// converts the file to CRLF.
func injectInto(r *rand.Rand, src, mode string, q quarantine) (string, string) {
	if r.Intn(5) == 0 {
		return toCRLF(src, q), "crlf"
	}
	toks, pan, ran := lexOne(src, mode)
	var offs []int
	if pan == "" && !ran {
		for _, t := range toks {
			if s := t.Start(); s > 0 && s < len(src) {
				// only where the lexer is in code, not in inline HTML
				if tokClass(t.Type()) != "html" {
					offs = append(offs, s)
				}
			}
		}
	}
	if len(offs) == 0 {
		return src + "\n", "none"
	}
	n := 1 + r.Intn(4)
	picks := map[int]string{}
	var kinds []string
	for i := 0; i < n; i++ {
		o := offs[r.Intn(len(offs))]
		k, text := injection(r, mode == "template", q)
		if _, dup := picks[o]; dup {
			continue
		}
		picks[o] = text
		kinds = append(kinds, k)
	}
	var os_ []int
	for o := range picks {
		os_ = append(os_, o)
	}
	sort.Ints(os_)
	var sb strings.Builder
	last := 0
	for _, o := range os_ {
		sb.WriteString(src[last:o])
		sb.WriteString(picks[o])
		last = o
	}
	sb.WriteString(src[last:])
	out := sb.String()
	if r.Intn(6) == 0 {
		out = toCRLF(out, q)
		kinds = append(kinds, "crlf")
	}
	return out, strings.Join(kinds, "+")
}

// runSpanCases shards the cases over child workers and folds their results in.
func (d *driver) runSpanCases(cases []spanCase) {
	if len(cases) == 0 {
		return
	}
	e := d.e
	nw := runtime.NumCPU()
	if nw > 16 {
		nw = 16
	}
	if nw > len(cases) {
		nw = len(cases)
	}
	byID := map[string]*spanCase{}
	for i := range cases {
		byID[cases[i].ID] = &cases[i]
	}
	batch := fmt.Sprintf("b%d", runCounter.Add(1))
	shards := make([][]*spanCase, nw)
	for i := range cases {
		shards[i%nw] = append(shards[i%nw], &cases[i])
	}
	var allRes []spanResult
	var rmu sync.Mutex
	lib.ParallelMap(nw, nw, func(w int) {
		base := filepath.Join(e.Scratch, fmt.Sprintf("%s-shard%d", batch, w))
		f, err := os.Create(base + ".jsonl")
		if err != nil {
			e.Inconclusive("cannot write shard: " + err.Error())
			return
		}
		bw := bufio.NewWriter(f)
		enc := json.NewEncoder(bw)
		for _, c := range shards[w] {
			_ = enc.Encode(c)
		}
		_ = bw.Flush()
		_ = f.Close()
		skip := 0
		for attempt := 0; attempt < 50 && skip < len(shards[w]); attempt++ {
			r := lib.RunProc(lib.ProcSpec{
				Argv:    []string{os.Args[0], "worker", base + ".jsonl", base + ".out", base + ".log", strconv.Itoa(skip)},
				Timeout: 30 * time.Minute,
			})
			done, begun := readLog(base + ".log")
			if r.TimedOut {
				e.Inconclusive(fmt.Sprintf("span worker %d: wall-clock watchdog fired after case %d", w, done))
				break
			}
			if r.Exit == 0 && done >= len(shards[w]) {
				break
			}
			if begun > done && begun <= len(shards[w]) {
				// the worker died inside case `begun` (fatal error, stack overflow): C01's domain
				c := shards[w][begun-1]
				d.mu.Lock()
				d.lexPanics = append(d.lexPanics, c.ID+": worker died: "+firstLine(r.Stderr))
				d.mu.Unlock()
				skip = begun
				continue
			}
			e.Inconclusive(fmt.Sprintf("span worker %d exited %d without a case in flight: %s", w, r.Exit, firstLine(r.Stderr)))
			break
		}
		rf, err := os.Open(base + ".out")
		if err != nil {
			return
		}
		defer rf.Close()
		sc := bufio.NewScanner(rf)
		sc.Buffer(make([]byte, 1<<20), 64<<20)
		var rs []spanResult
		for sc.Scan() {
			var sr spanResult
			if json.Unmarshal(sc.Bytes(), &sr) == nil {
				rs = append(rs, sr)
			}
		}
		rmu.Lock()
		allRes = append(allRes, rs...)
		rmu.Unlock()
		for _, x := range []string{".jsonl", ".out", ".log"} {
			_ = os.Remove(base + x)
		}
	})
	sort.Slice(allRes, func(i, j int) bool { return allRes[i].ID < allRes[j].ID })
	for _, sr := range allRes {
		c := byID[sr.ID]
		if c == nil {
			continue
		}
		d.spanEval++
		d.families[c.Family]++
		if sr.Panic != "" {
			d.lexPanics = append(d.lexPanics, c.ID+": "+sr.Panic)
			continue
		}
		if sr.Runaway {
			d.runaways = append(d.runaways, c.ID)
			continue
		}
		d.tokens += sr.Tokens
		d.compared += sr.Compared
		if sr.Hostile && sr.Tokens >= 2 {
			d.spanNT.Add(lib.Hash(c.Mode, string(c.Src)))
			if len(d.samples) < 4 && c.Family != "corpus" && c.Family != "regress" && len(c.Src) < 600 {
				d.samples = append(d.samples, map[string]any{"kind": "span", "id": c.ID, "mode": c.Mode, "tokens": sr.Tokens, "source": string(c.Src)})
			}
		}
		for i, v := range sr.Viol {
			cause := "?"
			if i < len(sr.Causes) {
				cause = sr.Causes[i]
			}
			key := fmt.Sprintf("span/%s/%s/%s", cause, v.Rule, c.Mode)
			what := fmt.Sprintf("%s on input %s (lexer mode %s): %s [reproduce: .build/c18 dump <replay file> %s]", v.Rule, c.ID, c.Mode, v.What, c.Mode)
			ext := "zy"
			if c.Mode == "template" {
				ext = "php"
			}
			e.Violation(key, what, ext, c.Src)
		}
	}
}

func firstLine(s string) string {
	s = strings.TrimSpace(s)
	if i := strings.IndexByte(s, '\n'); i >= 0 {
		s = s[:i]
	}
	if len(s) > 200 {
		s = s[:200]
	}
	return s
}

// readLog returns the index of the last completed case and of the last begun case.
func readLog(path string) (done, begun int) {
	b, err := os.ReadFile(path)
	if err != nil {
		return 0, 0
	}
	for _, l := range strings.Split(string(b), "\n") {
		f := strings.Fields(l)
		if len(f) < 2 {
			continue
		}
		n, err := strconv.Atoi(f[1])
		if err != nil {
			continue
		}
		switch f[0] {
		case "BEGIN":
			if n > begun {
				begun = n
			}
		case "END":
			if n > done {
				done = n
			}
		}
	}
	return
}

// ---------------------------------------------------------------------------------
// error locations

// baselines: every fault kind alone in a plain program; gives the message to look for
// (faults without a nonce) and shows whether the fault produces a diagnostic at all.
func (d *driver) baseline(kind string) (msg string, ok bool, note string) {
	g := &genState{r: d.e.Rand("baseline/" + kind)}
	f := g.fault(kind)
	p := &program{Mode: "zy", Fault: f, Head: []chunk{{Kind: "assign-int", Text: "$b1 = 2;\n"}, {Kind: "echo", Text: "echo $b1;\n"}}}
	src, _ := p.render()
	o := runProgram(d.e, src, p.Mode, false)
	if o.Timed {
		return "", false, "watchdog"
	}
	if o.Crash {
		return "", false, "go crash"
	}
	if f.CatchPrint {
		o.Diag = parseLocEcho(o.Stdout)
	}
	if !o.Diag.Found {
		return "", false, "no diagnostic"
	}
	if f.Nonce != "" {
		if !strings.Contains(o.Diag.Msg, f.Nonce) {
			return "", false, "diagnostic without the nonce: " + o.Diag.Raw
		}
		return "", true, ""
	}
	return o.Diag.Msg, true, ""
}

type locCase struct {
	idx  int
	p    *program
	msg  string
	v    locVerdict
	o    runOutcome
	want int
}

func (d *driver) errlocRegression() {
	e := d.e
	g := &genState{r: e.Rand("errloc-regress")}
	mk := func(mode string, crlf, shebang bool, head []chunk, fk string) *program {
		return &program{Mode: mode, CRLF: crlf, Shebang: shebang, Head: head, Fault: g.fault(fk)}
	}
	progs := []*program{
		mk("zy", true, false, []chunk{{Kind: "line-comment", Text: "// note\n"}}, "throw"),
		mk("php", false, true, nil, "throw"),
		mk("zy", false, false, nil, "undef-class-new"),
		mk("zy", false, false, nil, "undef-class-static"),
		mk("zy", false, false, nil, "eof-class"),
		mk("zy", false, false, nil, "eof-func-paren"),
		mk("zy", false, false, nil, "eof-call-paren"),
		mk("zy", false, false, nil, "eof-new"),
		mk("zy", false, false, nil, "mlinterp-dq-method"),
		mk("zy", false, false, nil, "mlinterp-heredoc-method"),
		mk("zy", false, false, nil, "mlinterp-dq-call"),
	}
	progs = append(progs,
		mk("php", false, false, []chunk{{Kind: "alt-loose-kw-paren", Text: "if\n($v0 > 0):\n$k1 = 1;\nendif;\n"}}, "throw"),
		mk("php", false, false, []chunk{{Kind: "alt-loose-paren-colon", Text: "if ($v0 > 0)\n:\n$k1 = 1;\nendif;\n"}}, "throw"),
		mk("php", false, false, []chunk{{Kind: "alt-if", Text: "if (\n    $v0 > 0\n):\n$k1 = 1;\nelseif (\n    $v0 < 0\n):\n$k1 = 2;\nendif;\n"}}, "throw"),
		mk("php", false, false, []chunk{{Kind: "alt-while", Text: "$k2 = 1;\nwhile (\n    $k2 > 0\n):\n$k2--;\nendwhile;\n"}}, "undef-func"),
		mk("zy", false, false, []chunk{{Kind: "bs-newline", Text: "$k3 = \"a\\\nb\\\nc\";\n$k4 = 'a\\\nb';\n"}}, "throw"))
	for _, hk := range htmlFaultKinds {
		progs = append(progs, &program{Mode: "html", Fault: htmlFault(e.Rand("errloc-regress-html/"+hk), hk)})
	}
	sc := mk("php", false, false, nil, "undef-class-static")
	sc.Wrap = "closure"
	progs = append(progs, sc)
	var cases []*locCase
	for i, p := range progs {
		cases = append(cases, &locCase{idx: i, p: p, msg: p.Fault.Nonce})
	}
	d.judgeAll(cases, "regress")
}

func (d *driver) errloc() {
	e := d.e
	base := map[string]string{}
	enabled := map[string]bool{}
	for _, k := range faultKinds {
		msg, ok, note := d.baseline(k)
		if !ok {
			d.locNotes = append(d.locNotes, "fault kind "+k+" not used: "+note)
			continue
		}
		enabled[k] = true
		base[k] = msg
	}
	if len(enabled) < len(faultKinds)/2 {
		e.Inconclusive(fmt.Sprintf("only %d of %d fault kinds produce a diagnostic in a plain program", len(enabled), len(faultKinds)))
	}
	// matrix (the same whatever the seed): every runtime fault kind alone, at top level and in
	// every kind of body called from another line, in the entry file and in a require'd file
	{
		g := &genState{r: e.Rand("errloc-matrix")}
		var cases []*locCase
		i := 0
		for _, k := range faultKinds {
			if !enabled[k] || d.q.faultOff(k) {
				continue
			}
			for _, w := range append([]string{""}, wrapKinds...) {
				for _, inc := range []bool{false, true} {
					f := g.fault(k)
					if f.Parse && (w != "" || inc) {
						continue
					}
					mode := "zy"
					if i%2 == 1 {
						mode = "php"
					}
					p := &program{Mode: mode, Include: inc, Wrap: w, Fault: f,
						Head: []chunk{{Kind: "assign-int", Text: "$m1 = 2;\n"}, {Kind: "echo", Text: "echo $m1;\n"}},
						Tail: []chunk{{Kind: "echo", Text: "echo $m1;\n"}}}
					msg := f.Nonce
					if msg == "" {
						msg = base[k]
					}
					cases = append(cases, &locCase{idx: i, p: p, msg: msg})
					i++
				}
			}
		}
		d.judgeAll(cases, "matrix")
	}
	// documents on the HtmlLexer path: multi-line HTML constructs in front of a failing interpolation.
	// An element kind is used only if a document holding it alone still reports the fault (baseline).
	{
		var usable []string
		for _, k := range htmlRunnableKinds {
			rr := e.Rand("errloc-html-baseline/" + k)
			p := &program{Mode: "html", Head: []chunk{{Kind: "html:" + k, Text: htmlElement(rr, k, 1)}}, Fault: htmlFault(rr, "html-interp-method")}
			if v, _, _ := judge(e, p, p.Fault.Nonce); v == locOK || v == locWrong {
				usable = append(usable, k)
			} else {
				d.locNotes = append(d.locNotes, "html element kind "+k+" not used in front of a fault: the document does not report the planted fault")
			}
		}
		var cases []*locCase
		if len(usable) > 0 {
			rr := e.Rand("errloc-html")
			for i, n := 0, e.Pick(400, 4000); i < n; i++ {
				p := genHTMLProgram(rr, usable, d.q)
				cases = append(cases, &locCase{idx: i, p: p, msg: p.Fault.Nonce})
			}
		}
		d.judgeAll(cases, "html")
	}
	r := e.Rand("errloc")
	n := e.Pick(3000, 30000)
	var cases []*locCase
	for i := 0; i < n; i++ {
		p := genProgram(r, true, d.q)
		if !enabled[p.Fault.Kind] {
			continue
		}
		msg := p.Fault.Nonce
		if msg == "" {
			msg = base[p.Fault.Kind]
		}
		cases = append(cases, &locCase{idx: i, p: p, msg: msg})
	}
	d.judgeAll(cases, "gen")
}

func (d *driver) judgeAll(cases []*locCase, family string) {
	e := d.e
	lib.ParallelMap(len(cases), 0, func(i int) {
		c := cases[i]
		c.v, c.o, c.want = judge(e, c.p, c.msg)
	})
	var subs []*subsumer
	nMin := 0
	for _, c := range cases {
		d.locEval++
		switch c.v {
		case locWatchdog:
			e.Inconclusive(fmt.Sprintf("errloc %s/%d: wall-clock watchdog", family, c.idx))
		case locCrash:
			d.locCrash++
			if len(d.locNotes) < 10 {
				d.locNotes = append(d.locNotes, fmt.Sprintf("%s/%d fault=%s: Go crash: %s", family, c.idx, c.p.Fault.Kind, firstLine(c.o.Stderr)))
			}
		case locNoDiag:
			d.locNoDiag++
			if len(d.locNotes) < 10 {
				d.locNotes = append(d.locNotes, fmt.Sprintf("%s/%d fault=%s ctx=%v: no diagnostic (exit %d)", family, c.idx, c.p.Fault.Kind, c.p.kinds(), c.o.Exit))
			}
		case locOther:
			d.locOther++
			if len(d.locNotes) < 10 {
				d.locNotes = append(d.locNotes, fmt.Sprintf("%s/%d fault=%s ctx=%v: other diagnostic: %s", family, c.idx, c.p.Fault.Kind, c.p.kinds(), c.o.Diag.Raw))
			}
		case locOK, locWrong:
			d.locCompared++
			d.faultSeen[c.p.Fault.Kind]++
			for _, k := range c.p.kinds() {
				d.ctxSeen[k]++
			}
			src, _ := c.p.render()
			if len(c.p.Head) > 0 {
				d.locNT.Add(lib.Hash(c.p.Mode, src))
			}
			if c.v == locOK && family == "gen" && len(d.samples) < 8 && len(src) < 700 && len(c.p.Head) >= 2 {
				d.samples = append(d.samples, map[string]any{"kind": "errloc", "mode": c.p.Mode, "fault": c.p.Fault.Kind, "planted_line": c.want, "reported": c.o.Diag.Raw, "source": src})
			}
		}
		if c.v != locWrong {
			continue
		}
		covered := false
		for _, sb := range subs {
			if sb.covers(c.p) {
				covered = true
				e.Violation(sb.key, "same context as an already minimised failure", "zy", nil)
				break
			}
		}
		if covered {
			continue
		}
		key, min := "", c.p
		if nMin < 40 {
			nMin++
			var sb *subsumer
			key, min, sb, _ = minimise(e, c.p, c.msg)
			subs = append(subs, sb)
		} else {
			key = "errloc/unminimised/ctx=" + strings.Join(features(c.p), "+") + "/fault=" + c.p.Fault.Kind
		}
		msrc, mwant := min.render()
		what := fmt.Sprintf("planted fault %q on line %d of %s, but the diagnostic says %q (file %q line %d); minimal program: fault on line %d of %q",
			c.p.Fault.Kind, c.want, filepath.Base(c.o.Path), c.o.Diag.Raw, c.o.Diag.File, c.o.Diag.Line, mwant, msrc)
		ext := "zy"
		if min.Mode == "php" {
			ext = "php"
		}
		if min.Mode == "html" {
			ext = "html"
		}
		e.Violation(key, what, ext, []byte(msrc))
	}
}

// ---------------------------------------------------------------------------------
// development aid: run fault-free generated programs and report the ones that do not run
// cleanly (they would turn into "other diagnostic" noise)

func gencheckMain(args []string) {
	e := lib.Init("C18", "exploration")
	defer os.RemoveAll(e.Scratch)
	n := 300
	if len(args) > 0 {
		n, _ = strconv.Atoi(args[0])
	}
	bad := map[string]int{}
	for _, k := range chunkKinds {
		for _, mode := range []string{"zy", "php"} {
			for _, crlf := range []bool{false, true} {
				if mode == "zy" && phpOnlyChunk[k] || crlf && strings.HasPrefix(k, "alt-loose-") {
					continue
				}
				for it := 0; it < 8; it++ {
					g := &genState{r: e.Rand(fmt.Sprintf("gencheck/%s/%d", k, it)), php: mode == "php", crlf: crlf}
					p := &program{Mode: mode, CRLF: crlf, Head: []chunk{g.chunk(k), g.chunk(k)}}
					src, _ := p.render()
					o := runProgram(e, src, mode, false)
					if o.Exit != 0 || o.Stderr != "" {
						bad[k]++
						if bad[k] <= 2 {
							fmt.Printf("--- chunk %s mode=%s crlf=%v exit=%d\n%s\n--- stderr: %s\n", k, mode, crlf, o.Exit, src, firstLine(o.Stderr))
						}
					}
				}
			}
		}
	}
	for i := 0; i < 400; i++ {
		g := &genState{r: e.Rand(fmt.Sprintf("gencheck/hs/%d", i))}
		p := &program{Mode: "zy", Head: []chunk{g.chunk("heredoc-shaped")}}
		src, _ := p.render()
		o := runProgram(e, src, "zy", false)
		if o.Exit != 0 || o.Stderr != "" {
			fmt.Printf("--- heredoc-shaped %d exit=%d stderr: %s\n%s\n", i, o.Exit, firstLine(o.Stderr), src)
		}
	}
	r := e.Rand("gencheck")
	for i := 0; i < n; i++ {
		p := genProgram(r, false, quarantine{})
		src, _ := p.render()
		o := runProgram(e, src, p.Mode, false)
		if o.Exit != 0 || o.Stderr != "" {
			fmt.Printf("--- program %d mode=%s crlf=%v kinds=%v exit=%d stderr: %s\n", i, p.Mode, p.CRLF, p.kinds(), o.Exit, firstLine(o.Stderr))
		}
	}
	for _, k := range faultKinds {
		d := &driver{e: e}
		msg, ok, note := d.baseline(k)
		fmt.Printf("fault %-22s ok=%v msg=%q %s\n", k, ok, msg, note)
		if !ok {
			g := &genState{r: e.Rand("baseline/" + k)}
			fmt.Println(g.fault(k).Text)
		}
	}
	fmt.Println("bad chunk kinds:", bad)
}
