package main

// In-process lexer worker (child process of the driver). Reads a shard of span cases,
// lexes each in the requested mode and checks the span invariants. Go panics of the lexer
// and runaway loops (step budget through verifhook.Step) are C01's domain: they are
// recorded and the case is left out of C18's verdict.

import (
	"bufio"
	"encoding/json"
	"fmt"
	"os"
	"strings"
	"unicode/utf8"

	"github.com/php-any/origami/lexer"
	"github.com/php-any/origami/verifhook"
)

type spanCase struct {
	ID     string `json:"id"`
	Family string `json:"family"` // corpus | corpus-inject | gen | soup | regress | html
	Mode   string `json:"mode"`   // script | template
	Src    []byte `json:"src"`
}

type spanResult struct {
	ID       string          `json:"id"`
	Panic    string          `json:"panic,omitempty"`
	Runaway  bool            `json:"runaway,omitempty"`
	Tokens   int             `json:"tokens"`
	Compared int             `json:"compared"`
	Hostile  bool            `json:"hostile"`
	Viol     []spanViolation `json:"viol,omitempty"`
	Causes   []string        `json:"causes,omitempty"`
}

type runaway struct{}

func lexOne(src, mode string) (toks []lexer.Token, pan string, ran bool) {
	budget := int64(64*len(src) + 100000)
	verifhook.ResetSteps()
	verifhook.SetStep(func(kind int, n int64) {
		if kind == verifhook.StepLexer && n > budget {
			panic(runaway{})
		}
	})
	defer func() {
		verifhook.SetStep(nil)
		if r := recover(); r != nil {
			if _, ok := r.(runaway); ok {
				ran = true
				return
			}
			pan = fmt.Sprint(r)
		}
	}()
	l := lexer.NewLexer()
	if mode == "template" {
		toks = l.TokenizeTemplate(src)
	} else {
		toks = l.Tokenize(src)
	}
	return
}

// hostile reports whether the lexed input exercises what the property's quantifier names:
// a token that spans a line break, or multi-byte / CR bytes in front of some token.
func hostile(src string, toks []lexer.Token) bool {
	if len(toks) < 2 {
		return false
	}
	last := toks[len(toks)-1].Start()
	if last > len(src) || last < 0 {
		last = len(src)
	}
	pre := src[:last]
	if strings.ContainsRune(pre, '\r') {
		return true
	}
	for i := 0; i < len(pre); i++ {
		if pre[i] >= utf8.RuneSelf {
			return true
		}
	}
	for _, t := range toks[:len(toks)-1] {
		s, e := t.Start(), t.End()
		if s >= 0 && e <= len(src) && s <= e && strings.Contains(src[s:e], "\n") && e-s > 1 {
			return true
		}
	}
	return false
}

// localise names the lexical element in front of the first offending token: the thing
// after which positions went wrong. It is what makes violation keys stable from seed to
// seed for the same defect.
func localise(src, mode string, toks []lexer.Token, i int, rule string) string {
	if rule == "S4" && i < len(toks) {
		t := toks[i]
		if s, e := t.Start(), t.End(); s >= 0 && e <= len(src) && s <= e && !utf8.ValidString(src[s:e]) {
			return "nonutf8:" + tokClass(t.Type())
		}
	}
	if strings.HasPrefix(src, "<!DOCTYPE") {
		// HtmlLexer path: every byte is in some token, so the element in front is the suspect
		if i > 0 {
			p := toks[i-1]
			if s, e := p.Start(), p.End(); s >= 0 && e <= len(src) && s <= e && strings.Contains(src[s:e], "\n") && e-s > 1 {
				return "html-after:" + htmlTokKind(src[s:e], p)
			}
		}
		return "html-at:" + tokClass(toks[i].Type())
	}
	if i < len(toks) {
		if name := strippedPrefix(src, toks[i]); name != "" {
			return "stripped-prefix:" + name
		}
	}
	cur := toks[i]
	at := "at:" + tokClass(cur.Type())
	if s, e := cur.Start(), cur.End(); s >= 0 && e <= len(src) && s <= e && strings.HasPrefix(src[s:e], "<<<") {
		at = "at:heredoc-" + tokClass(cur.Type())
	}
	inRange := func(a, b int) bool { return a >= 0 && b <= len(src) && a <= b }
	gapStart := 0
	prevMulti := ""
	if i > 0 {
		p := toks[i-1]
		if !inRange(p.Start(), p.End()) {
			return at
		}
		if pt := src[p.Start():p.End()]; strings.Contains(pt, "\n") && len(pt) > 1 {
			prevMulti = "after:" + tokClass(p.Type())
			if strings.Contains(pt, "\r") {
				prevMulti += "+cr"
			}
		}
		gapStart = p.End()
	}
	if !inRange(gapStart, cur.Start()) {
		return at
	}
	// the gap holds what the lexer consumed without leaving a token: blanks, newlines,
	// comments, php tags. A comment is the cause iff blanking it out (same length, line ends
	// kept) makes this token's recorded line right again.
	gap := src[gapStart:cur.Start()]
	if rule == "S3" {
		for _, c := range gapComments(gap) {
			b := []byte(src)
			for k := gapStart + c.start; k < gapStart+c.end; k++ {
				if b[k] != '\n' && b[k] != '\r' {
					b[k] = ' '
				}
			}
			toks2, pan, ran := lexOne(string(b), mode)
			if pan != "" || ran {
				continue
			}
			want := strings.Count(src[:cur.Start()], "\n")
			for _, t2 := range toks2 {
				if t2.Start() == cur.Start() && t2.End() == cur.End() {
					if t2.Line() == want {
						name := "after:" + c.kind
						if c.cr {
							name += "+cr"
						}
						return name
					}
					break
				}
			}
		}
	}
	cr := strings.Contains(gap, "\r")
	switch {
	case prevMulti != "":
		return prevMulti
	case strings.Contains(gap, "//") && cr:
		return "after:line-comment+cr"
	case strings.Contains(gap, "//"):
		return "after:line-comment"
	case strings.Contains(gap, "/*") && cr:
		return "after:block-comment+cr"
	case strings.Contains(gap, "/*"):
		return "after:block-comment"
	case strings.Contains(gap, "?>") || strings.Contains(gap, "<?php"):
		return "after:php-tag"
	case strings.Contains(gap, "\u3000"):
		return "after:fwspace"
	case cr:
		return "after:cr"
	}
	return at
}

// strippedPrefix: is the offending token what one gets when a lead-in of the source (byte
// order mark, shebang line, blanks, everything up to the open tag) is cut off before lexing and
// the offsets are not shifted back? Returns the name of that lead-in.
func strippedPrefix(src string, t lexer.Token) string {
	s, e, lit := t.Start(), t.End(), t.Literal()
	if s < 0 || e < s || len(lit) < 2 {
		return "" // one-byte tokens match by coincidence
	}
	if e <= len(src) && src[s:e] == lit && strings.Count(src[:s], "\n") == t.Line() {
		return ""
	}
	type cand struct {
		name string
		k    int
	}
	var cs []cand
	rest, off := src, 0
	if strings.HasPrefix(rest, "\xef\xbb\xbf") {
		cs = append(cs, cand{"bom", 3})
		rest, off = rest[3:], 3
	}
	if strings.HasPrefix(rest, "#!") {
		if nl := strings.IndexByte(rest, '\n'); nl >= 0 {
			name := "shebang"
			if off > 0 {
				name = "bom+shebang"
			}
			cs = append(cs, cand{name, off + nl + 1})
		}
	}
	if n := len(src) - len(strings.TrimLeft(src, " \t\r\n")); n > 0 {
		cs = append(cs, cand{"blanks", n})
	}
	if p := strings.Index(src, "<?php"); p > 0 {
		cs = append(cs, cand{"before-open-tag", p}, cand{"open-tag", p + 5})
	}
	for _, c := range cs {
		if e+c.k <= len(src) && src[s+c.k:e+c.k] == lit && strings.Count(src[c.k:s+c.k], "\n") == t.Line() {
			return c.name
		}
	}
	return ""
}

type gapComment struct {
	kind       string
	start, end int // comment text without its line terminator
	cr         bool
}

// gapComments finds the comments in a token gap (which holds only blanks, newlines,
// comments and php tags).
func gapComments(gap string) []gapComment {
	var out []gapComment
	for i := 0; i+1 < len(gap); {
		switch {
		case gap[i] == '/' && gap[i+1] == '/':
			j := i + 2
			for j < len(gap) && gap[j] != '\n' && gap[j] != '\r' {
				j++
			}
			out = append(out, gapComment{kind: "line-comment", start: i, end: j, cr: j < len(gap) && gap[j] == '\r'})
			i = j
		case gap[i] == '/' && gap[i+1] == '*':
			j := strings.Index(gap[i+2:], "*/")
			if j < 0 {
				j = len(gap)
			} else {
				j += i + 4
			}
			out = append(out, gapComment{kind: "block-comment", start: i, end: j, cr: strings.Contains(gap[i:j], "\r")})
			i = j
		default:
			i++
		}
	}
	return out
}

func workerMain(args []string) {
	if len(args) < 4 {
		fmt.Fprintln(os.Stderr, "usage: worker <shard.jsonl> <out.jsonl> <log> <skip>")
		os.Exit(2)
	}
	in, err := os.Open(args[0])
	if err != nil {
		fmt.Fprintln(os.Stderr, err)
		os.Exit(2)
	}
	defer in.Close()
	out, err := os.OpenFile(args[1], os.O_CREATE|os.O_WRONLY|os.O_APPEND, 0o644)
	if err != nil {
		fmt.Fprintln(os.Stderr, err)
		os.Exit(2)
	}
	defer out.Close()
	logf, err := os.OpenFile(args[2], os.O_CREATE|os.O_WRONLY|os.O_APPEND, 0o644)
	if err != nil {
		fmt.Fprintln(os.Stderr, err)
		os.Exit(2)
	}
	defer logf.Close()
	skip := 0
	fmt.Sscan(args[3], &skip)

	sc := bufio.NewScanner(in)
	sc.Buffer(make([]byte, 1<<20), 256<<20)
	enc := json.NewEncoder(out)
	n := 0
	for sc.Scan() {
		n++
		if n <= skip {
			continue
		}
		var c spanCase
		if err := json.Unmarshal(sc.Bytes(), &c); err != nil {
			fmt.Fprintln(os.Stderr, "bad case:", err)
			os.Exit(2)
		}
		fmt.Fprintf(logf, "BEGIN %d %s\n", n, c.ID)
		res := checkCase(c)
		_ = enc.Encode(res)
		fmt.Fprintf(logf, "END %d %s\n", n, c.ID)
	}
	if err := sc.Err(); err != nil {
		fmt.Fprintln(os.Stderr, "scan:", err)
		os.Exit(2)
	}
}

func checkCase(c spanCase) spanResult {
	src := string(c.Src)
	res := spanResult{ID: c.ID}
	toks, pan, ran := lexOne(src, c.Mode)
	if pan != "" || ran {
		res.Panic, res.Runaway = pan, ran
		return res
	}
	res.Tokens = len(toks)
	res.Viol, res.Compared = checkSpans(src, toks)
	res.Hostile = hostile(src, toks)
	for _, v := range res.Viol {
		res.Causes = append(res.Causes, localise(src, c.Mode, toks, v.Index, v.Rule))
	}
	return res
}

// htmlTokKind names a token of the HTML lexer by what its text is.
func htmlTokKind(text string, t lexer.Token) string {
	switch {
	case strings.HasPrefix(text, "<!--"):
		return "comment"
	case strings.HasPrefix(text, "<![CDATA["):
		return "cdata"
	case strings.HasPrefix(text, "<?"):
		return "processing-instruction"
	case strings.HasPrefix(text, "\""), strings.HasPrefix(text, "'"), strings.HasPrefix(text, "`"):
		return "quoted-string"
	case strings.TrimSpace(text) == "":
		return "whitespace"
	}
	return "text-" + tokClass(t.Type())
}
