package main

import (
	"math/rand"
	"strconv"
)

// A mutation is one write through a name. code(L) renders it for the lvalue expression L
// of the array that the case mutates (`$b`, `$h->arr`, `$o[1]`, `$p`, `$v` ...).
//
// path describes the arrays the write walks through, outermost first, as
// style[.i|.s] elements joined by '>' (".i"/".s": the key used is an int / a string where
// the style allows both, or a new key). It is part of the violation key: together with
// route, side and mutation name it identifies a cell of the property's matrix.
type mutation struct {
	name string
	path string
	code func(L string) string
}

type target struct {
	suffix string // index chain from the case's lvalue to this array, e.g. "[0]['a']"
	arr    *node
	path   string // path of the enclosing arrays, "" for the root
	depth  int    // 1 = the array itself, 2 = an element array, 3 = an element of an element
}

func elem(a *node, k key) string {
	s := a.st.String()
	if a.st == stMixed {
		if k.isInt {
			return s + ".i"
		}
		return s + ".s"
	}
	return s
}

func joinPath(p, e string) string {
	if p == "" {
		return e
	}
	return p + ">" + e
}

// pickKeys returns one key index per key kind (int / string) among the indices that
// satisfy ok: the first one, or a random one when r != nil.
func pickKeys(a *node, r *rand.Rand, ok func(i int) bool) []int {
	var ints, strs []int
	for i := range a.kids {
		if !ok(i) {
			continue
		}
		if a.keys[i].isInt {
			ints = append(ints, i)
		} else {
			strs = append(strs, i)
		}
	}
	var out []int
	for _, g := range [][]int{ints, strs} {
		if len(g) == 0 {
			continue
		}
		if r != nil {
			out = append(out, g[r.Intn(len(g))])
		} else {
			out = append(out, g[0])
		}
	}
	return out
}

func targets(root *node, r *rand.Rand) []target {
	out := []target{{suffix: "", arr: root, path: "", depth: 1}}
	for i := 0; i < len(out); i++ {
		t := out[i]
		if t.depth >= 3 {
			continue
		}
		for _, ki := range pickKeys(t.arr, r, func(i int) bool { return !t.arr.kids[i].leaf }) {
			k := t.arr.keys[ki]
			out = append(out, target{
				suffix: t.suffix + "[" + k.php() + "]",
				arr:    t.arr.kids[ki],
				path:   joinPath(t.path, elem(t.arr, k)),
				depth:  t.depth + 1,
			})
		}
	}
	return out
}

var depthPrefix = map[int]string{1: "", 2: "nested-", 3: "nested3-"}

// mutationsFor lists the applicable mutations of a shape. With r == nil the first key of
// each kind is used (enumerated shapes); otherwise keys are drawn from r (seeded shapes).
func mutationsFor(root *node, r *rand.Rand) []mutation {
	var out []mutation
	for _, t := range targets(root, r) {
		t := t
		a := t.arr
		pre := depthPrefix[t.depth]
		add := func(name, pathElem string, f func(L string) string) {
			out = append(out, mutation{name: pre + name, path: joinPath(t.path, pathElem), code: func(L string) string { return f(L + t.suffix) }})
		}
		// writes to an existing element
		for _, ki := range pickKeys(a, r, func(int) bool { return true }) {
			k := a.keys[ki]
			idx := "[" + k.php() + "]"
			add("store", elem(a, k), func(L string) string { return L + idx + " = 'S';" })
			add("unset", elem(a, k), func(L string) string { return "unset(" + L + idx + ");" })
		}
		for _, ki := range pickKeys(a, r, func(i int) bool { return a.kids[i].leaf && a.kids[i].isInt }) {
			k := a.keys[ki]
			idx := "[" + k.php() + "]"
			add("incr", elem(a, k), func(L string) string { return L + idx + "++;" })
			if t.depth <= 2 {
				add("addassign", elem(a, k), func(L string) string { return L + idx + " += 1000;" })
			}
			if t.depth == 1 {
				add("concat", elem(a, k), func(L string) string { return L + idx + " .= 'x';" })
			}
		}
		// writes that create an element
		st := a.st.String()
		if t.depth <= 2 {
			newInt := len(a.kids)
			if a.st == stIKeyed || a.st == stKeyed {
				newInt = 99
			}
			if a.st != stKeyed {
				add("store-new", st+".i", func(L string) string { return L + "[" + strconv.Itoa(newInt) + "] = 'SN';" })
			}
			add("store-new", st+".s", func(L string) string { return L + "['zz'] = 'SN';" })
		}
		add("append", st, func(L string) string { return L + "[] = 'A';" })
		// in-place builtins and array methods
		if t.depth <= 2 {
			add("push", st, func(L string) string { return "array_push(" + L + ", 'P');" })
			add("sort", st, func(L string) string { return "sort(" + L + ");" })
			add("mpush", st, func(L string) string { return L + "->push('MP');" })
		}
		if t.depth == 1 {
			add("pop", st, func(L string) string { return "array_pop(" + L + ");" })
			add("shift", st, func(L string) string { return "array_shift(" + L + ");" })
			add("unshift", st, func(L string) string { return "array_unshift(" + L + ", 'U');" })
			add("rsort", st, func(L string) string { return "rsort(" + L + ");" })
			add("splice", st, func(L string) string { return "array_splice(" + L + ", 0, 1);" })
			add("mpop", st, func(L string) string { return L + "->pop();" })
			add("mshift", st, func(L string) string { return L + "->shift();" })
			add("msort", st, func(L string) string { return L + "->sort();" })
		}
	}
	return out
}
