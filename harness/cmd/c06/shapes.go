package main

import (
	"fmt"
	"math/rand"
	"strconv"
	"strings"
)

// A shape is an array literal: a tree whose inner nodes are arrays with one of four key
// styles and whose leaves are scalars.
//
//	list    [90, 80]                 positional keys
//	keyed   ['a' => 90, 'b' => 80]   string keys only
//	mixed   [90, 'b' => 80]          positional keys first, then string keys
//	ikeyed  [5 => 90, 7 => 80]       explicit, non-dense integer keys
//
// origami represents the four styles differently (ArrayValue, ObjectValue, ArrayValue
// with named slots, ObjectValue with numeric names), which is why the style is part of a
// violation's cell key.
type style int

const (
	stList style = iota
	stKeyed
	stMixed
	stIKeyed
)

var styleNames = [...]string{"list", "keyed", "mixed", "ikeyed"}

func (s style) String() string { return styleNames[s] }

type key struct {
	isInt bool
	i     int
	s     string
}

func (k key) php() string {
	if k.isInt {
		return strconv.Itoa(k.i)
	}
	return "'" + k.s + "'"
}

type node struct {
	leaf  bool
	lit   string // PHP literal of a leaf
	isInt bool   // leaf is an int literal
	st    style
	kids  []*node
	keys  []key // assigned by finish
	cache string
}

func (n *node) depth() int {
	if n.leaf {
		return 0
	}
	d := 0
	for _, k := range n.kids {
		if kd := k.depth(); kd > d {
			d = kd
		}
	}
	return d + 1
}

func (n *node) weight() int {
	if n.leaf || len(n.kids) == 0 {
		return 1
	}
	w := 0
	for _, k := range n.kids {
		w += k.weight()
	}
	return w
}

func (n *node) clone() *node {
	c := *n
	c.kids = make([]*node, len(n.kids))
	for i, k := range n.kids {
		c.kids[i] = k.clone()
	}
	c.keys = append([]key(nil), n.keys...)
	return &c
}

// arrays lists the array nodes in pre-order.
func (n *node) arrays(out *[]*node) {
	if n.leaf {
		return
	}
	*out = append(*out, n)
	for _, k := range n.kids {
		k.arrays(out)
	}
}

var strKeys = []string{"a", "b", "c", "d", "e", "f", "g", "h"}

// assignKeys fixes the keys of every array node from its style and numbers the leaves
// with descending ints (so that sort() always has something to do).
func (n *node) finish() {
	next := 90
	var walk func(x *node)
	walk = func(x *node) {
		if x.leaf {
			if x.lit == "" {
				x.lit = strconv.Itoa(next)
				x.isInt = true
				next -= 7
			}
			return
		}
		x.keys = make([]key, len(x.kids))
		for i := range x.kids {
			switch x.st {
			case stList:
				x.keys[i] = key{isInt: true, i: i}
			case stKeyed:
				x.keys[i] = key{s: strKeys[i%len(strKeys)]}
			case stMixed:
				// first half positional, second half string keys (at least one of each when n>=2)
				if i < (len(x.kids)+1)/2 {
					x.keys[i] = key{isInt: true, i: i}
				} else {
					x.keys[i] = key{s: strKeys[i%len(strKeys)]}
				}
			case stIKeyed:
				x.keys[i] = key{isInt: true, i: 5 + 2*i}
			}
		}
		for _, k := range x.kids {
			walk(k)
		}
	}
	walk(n)
}

func (n *node) php() string {
	if n.leaf {
		return n.lit
	}
	if n.cache != "" {
		return n.cache
	}
	n.cache = n.render()
	return n.cache
}

func (n *node) render() string {
	var sb strings.Builder
	sb.WriteString("[")
	for i, k := range n.kids {
		if i > 0 {
			sb.WriteString(", ")
		}
		positional := n.st == stList || (n.st == stMixed && n.keys[i].isInt)
		if !positional {
			sb.WriteString(n.keys[i].php())
			sb.WriteString(" => ")
		}
		sb.WriteString(k.php())
	}
	sb.WriteString("]")
	return sb.String()
}

// structures enumerates all array tree structures (styles not yet assigned) with total
// weight <= maxW (a leaf or an empty array weighs 1) and nesting depth <= maxD.
func structures(maxW, maxD int) []*node {
	// seqs(w, d): all child sequences of total weight exactly w whose arrays have depth <= d
	var arrs func(w, d int) []*node
	var seqs func(w, d int) [][]*node
	memoA := map[[2]int][]*node{}
	memoS := map[[2]int][][]*node{}
	arrs = func(w, d int) []*node { // array nodes of weight exactly w and depth <= d (d>=1)
		if d < 1 || w < 1 {
			return nil
		}
		if r, ok := memoA[[2]int{w, d}]; ok {
			return r
		}
		var out []*node
		if w == 1 {
			out = append(out, &node{}) // empty array
		}
		for _, s := range seqs(w, d-1) {
			out = append(out, &node{kids: s})
		}
		memoA[[2]int{w, d}] = out
		return out
	}
	seqs = func(w, d int) [][]*node { // non-empty sequences; child arrays have depth <= d
		if w < 1 {
			return nil
		}
		if r, ok := memoS[[2]int{w, d}]; ok {
			return r
		}
		var out [][]*node
		// first child takes weight fw, rest takes w-fw (possibly nothing)
		for fw := 1; fw <= w; fw++ {
			var firsts []*node
			if fw == 1 {
				firsts = append(firsts, &node{leaf: true})
			}
			firsts = append(firsts, arrs(fw, d)...)
			if fw == w {
				for _, f := range firsts {
					out = append(out, []*node{f})
				}
				continue
			}
			rests := seqs(w-fw, d)
			for _, f := range firsts {
				for _, r := range rests {
					s := append([]*node{f}, r...)
					out = append(out, s)
				}
			}
		}
		memoS[[2]int{w, d}] = out
		return out
	}
	var all []*node
	for w := 1; w <= maxW; w++ {
		for _, a := range arrs(w, maxD) {
			all = append(all, a.clone())
		}
	}
	return all
}

// styled returns copies of a structure with key styles assigned: every array the same
// style (4 variants), and root style x descendants' style for x != y (12 more when the
// structure has a nested non-empty array).
func styled(s *node) []*node {
	var out []*node
	var as []*node
	s.arrays(&as)
	nestedNonEmpty := false
	for _, a := range as[1:] {
		if len(a.kids) > 0 {
			nestedNonEmpty = true
		}
	}
	rootEmpty := len(s.kids) == 0
	for rs := stList; rs <= stIKeyed; rs++ {
		if rootEmpty && rs != stList {
			continue
		}
		for ds := stList; ds <= stIKeyed; ds++ {
			if !nestedNonEmpty && ds != stList {
				continue
			}
			c := s.clone()
			var cas []*node
			c.arrays(&cas)
			for i, a := range cas {
				if i == 0 {
					a.st = rs
				} else {
					a.st = ds
				}
				if a.st == stMixed && len(a.kids) < 2 {
					// a one-element "mixed" array is just a list: demote (duplicates removed below)
					a.st = stList
				}
			}
			c.finish()
			out = append(out, c)
		}
	}
	// deduplicate by literal (demoted mixed styles can coincide)
	seen := map[string]bool{}
	var uniq []*node
	for _, c := range out {
		l := c.php()
		if !seen[l] {
			seen[l] = true
			uniq = append(uniq, c)
		}
	}
	return uniq
}

// randomShape draws a larger shape: width <= 5, depth <= 3, every array its own style,
// leaves of several scalar types.
func randomShape(r *rand.Rand) *node {
	var gen func(d int, budget *int) *node
	gen = func(d int, budget *int) *node {
		n := &node{st: style(r.Intn(4))}
		w := r.Intn(6) // 0..5 children
		for i := 0; i < w && *budget > 0; i++ {
			*budget--
			if d < 3 && r.Intn(3) == 0 {
				n.kids = append(n.kids, gen(d+1, budget))
			} else {
				l := &node{leaf: true}
				switch r.Intn(6) {
				case 0:
					l.lit = fmt.Sprintf("'s%d'", r.Intn(100))
				case 1:
					l.lit = []string{"true", "false", "null", "1.5"}[r.Intn(4)]
				default:
					// left empty: numbered by finish()
				}
				n.kids = append(n.kids, l)
			}
		}
		if n.st == stMixed && len(n.kids) < 2 {
			n.st = stList
		}
		return n
	}
	budget := 4 + r.Intn(9)
	n := gen(1, &budget)
	n.finish()
	return n
}
