package main

import (
	"verif/lib"
)

// scalar-property cases for clone / handles: the "shape" is irrelevant, L is the property
var scalarMuts = []mutation{
	{name: "prop-store", path: "scalar", code: func(L string) string { return L + " = 5;" }},
	{name: "prop-incr", path: "scalar", code: func(L string) string { return L + "++;" }},
	{name: "prop-addassign", path: "scalar", code: func(L string) string { return L + " += 10;" }},
	{name: "prop-concat", path: "scalar", code: func(L string) string { return L + " .= 'x';" }},
	{name: "prop-to-array", path: "scalar", code: func(L string) string { return L + " = [1, 2];" }},
}

var scalarRoutes = []route{
	{"clone-scalar", kindValue, both(), func(c *caseCtx) (string, string) {
		o, m := c.pick("$h->n", "$k->n")
		return "", "$h = new H();\n  $h->arr = " + c.lit + ";\n  $k = clone $h;\n  " + c.around(o, m)
	}},
	{"handle-scalar", kindShare, both(), func(c *caseCtx) (string, string) {
		o, m := c.pick("$h->n", "$h2->n")
		return "", "$h = new H();\n  $h->arr = " + c.lit + ";\n  $h2 = $h;\n  " + c.around(o, m)
	}},
}

func buildCases(e *lib.Env) []*tcase {
	var cases []*tcase
	add := func(rt *route, side string, m mutation, sh *node, seeded bool) {
		cases = append(cases, &tcase{route: rt, side: side, mut: m, shape: sh, seeded: seeded, shapeLit: sh.php()})
	}

	// 1. enumerated shapes: every structure of weight <= 4 (a leaf or an empty array weighs
	//    1) and depth <= 3, with 4..16 key-style assignments each. The candidate space is
	//    shape x route x side x applicable mutation (11 M). Taken from it, smallest shapes
	//    first: the complete matrix up to weight fullW; beyond that the first `cover` cases of
	//    every cell (route, side, mutation, path) and a seeded fraction `frac` of the rest.
	maxW := 4
	var shapes []*node
	for _, s := range structures(maxW, 3) {
		shapes = append(shapes, styled(s)...)
	}
	fullW := e.Pick(0, 2)
	cover := e.Pick(2, 12)
	frac := map[int]float64{1: 0.05, 2: 0.01, 3: 0.0015, 4: 0.0003}
	if !e.Quick() {
		frac = map[int]float64{3: 0.035, 4: 0.004}
	}
	rs := e.Rand("matrix-sample")
	seen := map[string]int{}
	for _, sh := range shapes {
		muts := mutationsFor(sh, nil)
		w := sh.weight()
		for ri := range routes {
			rt := &routes[ri]
			for _, side := range rt.sides {
				for mi := range muts {
					m := muts[mi]
					ck := rt.name + "/" + side + "/" + m.name + "/" + m.path // == tcase.key()
					take := w <= fullW
					if seen[ck] < cover {
						take = true
					}
					if rs.Float64() < frac[w] { // drawn unconditionally: keeps the stream aligned
						take = true
					}
					if take {
						seen[ck]++
						add(rt, side, m, sh, false)
					}
				}
			}
		}
	}
	e.Extra("enumerated_shapes", len(shapes))
	e.Extra("cells_in_enumerated_space", len(seen))

	// 2. scalar properties of clones and handles
	flat := &node{st: stList, kids: []*node{{leaf: true}, {leaf: true}}}
	flat.finish()
	for ri := range scalarRoutes {
		rt := &scalarRoutes[ri]
		for _, side := range rt.sides {
			for _, m := range scalarMuts {
				add(rt, side, m, flat, false)
			}
		}
	}

	// 2b. provenance: the array first lives in / is read out of a user object (sources.go)
	//     and then travels every route as its second hop. Sampled: per (source, route, side)
	//     K seeded (shape, write) pairs out of all key-style variants of three representative
	//     structures [x,y], [[x,y],z], [[[x,y]]] plus seeded larger shapes.
	leaf := func() *node { return &node{leaf: true} }
	arr := func(k ...*node) *node { return &node{kids: k} }
	type pair struct {
		sh *node
		m  mutation
	}
	var reps []pair
	for _, st := range []*node{arr(leaf(), leaf()), arr(arr(leaf(), leaf()), leaf()), arr(arr(arr(leaf(), leaf())))} {
		for _, sh := range styled(st) {
			for _, m := range mutationsFor(sh, nil) {
				reps = append(reps, pair{sh, m})
			}
		}
	}
	rp := e.Rand("provenance")
	for i := 0; i < 40; i++ {
		sh := randomShape(rp)
		for _, m := range mutationsFor(sh, rp) {
			reps = append(reps, pair{sh, m})
		}
	}
	k := e.Pick(12, 120)
	for _, src := range sources {
		for ri := range routes {
			rt := &routes[ri]
			for _, side := range rt.sides {
				for j := 0; j < k; j++ {
					pr := reps[rp.Intn(len(reps))]
					cases = append(cases, &tcase{route: rt, side: side, mut: pr.m, shape: pr.sh, shapeLit: pr.sh.php(), src: src})
				}
			}
		}
	}
	e.Extra("sources", len(sources))

	// 3. seeded larger shapes: random keys, one random (route, side) per mutation
	r := e.Rand("seeded-shapes")
	nSeeded := e.Pick(150, 2500)
	for i := 0; i < nSeeded; i++ {
		sh := randomShape(r)
		for _, m := range mutationsFor(sh, r) {
			for k := 0; k < 2; k++ {
				rt := &routes[r.Intn(len(routes))]
				add(rt, rt.sides[r.Intn(len(rt.sides))], m, sh, true)
			}
		}
	}
	return cases
}
