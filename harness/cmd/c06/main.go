// Command c06 checks property C06 "arrays are values": after an array travelled by one
// of the by-value routes, a write through one name is not observable through the other;
// explicit references and object handles do write through; clone separates.
//
// Oracle: before/after snapshots (json_encode + var_export) taken inside the same run.
// See NOTES.md.
package main

import (
	"fmt"
	"os"
	"sort"
	"strconv"
	"strings"
	"sync"
	"time"

	"verif/lib"
)

const perScript = 100

// development aid: C06_DUMP=<file> writes one line per case with its verdict
var dumping = os.Getenv("C06_DUMP") != ""

type outcome struct {
	ob, oa, mb, ma string
	has            map[string]bool
	begin, end     bool
	err            string
}

func parse(stdout string) map[int]*outcome {
	res := map[int]*outcome{}
	for _, line := range strings.Split(stdout, "\n") {
		if !strings.HasPrefix(line, "@") {
			continue
		}
		sp := strings.SplitN(line[1:], " ", 3)
		if len(sp) < 2 {
			continue
		}
		id, err := strconv.Atoi(sp[0])
		if err != nil {
			continue
		}
		o := res[id]
		if o == nil {
			o = &outcome{has: map[string]bool{}}
			res[id] = o
		}
		rest := ""
		if len(sp) == 3 {
			rest = sp[2]
		}
		tag := sp[1]
		if o.has[tag] { // first occurrence wins
			continue
		}
		o.has[tag] = true
		switch tag {
		case "BEGIN":
			o.begin = true
		case "END":
			o.end = true
		case "ERR":
			o.err = rest
		case "OB":
			o.ob = rest
		case "OA":
			o.oa = rest
		case "MB":
			o.mb = rest
		case "MA":
			o.ma = rest
		}
	}
	return res
}

func (o *outcome) complete() bool {
	return o != nil && o.end && o.has["OB"] && o.has["OA"] && o.has["MB"] && o.has["MA"]
}

type verdict struct {
	status string // ok | vacuous | leak | noshare | error | crash | timeout
	detail string
}

func judge(t *tcase, o *outcome) verdict {
	if !o.complete() {
		if o != nil && o.err != "" {
			return verdict{"error", o.err}
		}
		return verdict{"error", "incomplete output"}
	}
	effective := o.mb != o.ma
	switch t.route.kind {
	case kindValue:
		if o.ob != o.oa {
			return verdict{"leak", fmt.Sprintf("the write through one name changed the other: other before=%s after=%s (mutated before=%s after=%s)", o.ob, o.oa, o.mb, o.ma)}
		}
	case kindShare:
		if o.oa != o.ma {
			return verdict{"noshare", fmt.Sprintf("the two names stopped denoting the same array: other after=%s, mutated after=%s (before: other=%s mutated=%s)", o.oa, o.ma, o.ob, o.mb)}
		}
	}
	if !effective {
		return verdict{"vacuous", ""}
	}
	return verdict{"ok", ""}
}

func main() {
	e := lib.Init("C06", "exploration")
	e.RunScriptWitnesses()
	e.Assume(
		"snapshots are json_encode($x) and var_export($x, true) of the name, taken by the script itself before and after the write",
		"a case whose write raised a script error, or changed nothing through the written name either, decides nothing (counted as error / vacuous)",
		"closure capture is excluded (origami closures share the defining frame, as the property says)",
	)

	cases := buildCases(e)
	for i, t := range cases {
		t.id = i
	}
	if p := os.Getenv("C06_EMIT"); p != "" { // development aid: write the first batch, run nothing
		n := perScript
		if n > len(cases) {
			n = len(cases)
		}
		_ = os.WriteFile(p, []byte(script(cases[:n])), 0o644)
		fmt.Println("cases:", len(cases))
		_ = os.RemoveAll(e.Scratch)
		os.Exit(0)
	}

	// batches of perScript cases per process; a case that left no complete record (the
	// process died, or an earlier case disturbed it) runs again in a process of its own
	nb := (len(cases) + perScript - 1) / perScript
	var mu sync.Mutex
	var nontrivial lib.DistinctCounter
	statusCount := map[string]int{}
	perRoute := map[string]map[string]int{}
	perSource := map[string]map[string]int{}
	errKinds := map[string]int{}
	leakCells := map[string]int{}
	crashes := map[string]int{}
	var samples []any
	evaluated, rerun, timeouts := 0, 0, 0
	var dumpLines []string
	record := func(t *tcase, o *outcome) { // mu held
		v := judge(t, o)
		statusCount[v.status]++
		pr := perRoute[t.route.name]
		if pr == nil {
			pr = map[string]int{}
			perRoute[t.route.name] = pr
		}
		pr[v.status]++
		if t.src != nil {
			ps := perSource[t.src.name]
			if ps == nil {
				ps = map[string]int{}
				perSource[t.src.name] = ps
			}
			ps[v.status]++
		}
		if dumping {
			dumpLines = append(dumpLines, fmt.Sprintf("%09d\t%s\t%s\t%s\t%s", t.id, v.status, t.key(), t.shapeLit, v.detail))
		}
		switch v.status {
		case "ok":
			evaluated++
			nontrivial.Add(lib.Hash(t.key(), t.shapeLit, t.mut.code("L")))
			if len(samples) < 8 && t.id%(len(cases)/8+1) == 0 {
				samples = append(samples, map[string]string{"case": t.describe(), "other_before": o.ob, "other_after": o.oa, "mutated_after": o.ma})
			}
		case "vacuous":
			evaluated++
		case "leak", "noshare":
			evaluated++
			nontrivial.Add(lib.Hash(t.key(), t.shapeLit, t.mut.code("L")))
			leakCells[t.key()]++
			if leakCells[t.key()] == 1 {
				single := *t
				e.Violation(t.key(), t.describe()+" :: "+v.detail, "php", []byte(script([]*tcase{&single})))
			}
		case "error":
			k := v.detail
			if r := []rune(k); len(r) > 40 {
				k = string(r[:40])
			}
			errKinds[t.mut.name+": "+k]++
		}
	}
	lib.ParallelMap(nb, 0, func(b int) {
		lo, hi := b*perScript, (b+1)*perScript
		if hi > len(cases) {
			hi = len(cases)
		}
		r := e.RunScript(script(cases[lo:hi]), 300*time.Second)
		got := parse(r.Stdout)
		if r.TimedOut {
			mu.Lock()
			timeouts++
			mu.Unlock()
		}
		for i := lo; i < hi; i++ {
			o := got[i]
			crashSite := ""
			if !(o != nil && (o.complete() || o.err != "")) {
				r1 := e.RunScript(script([]*tcase{cases[i]}), 120*time.Second)
				o = parse(r1.Stdout)[i]
				if o == nil {
					o = &outcome{has: map[string]bool{}}
				}
				if r1.TimedOut {
					e.Inconclusive("watchdog: " + cases[i].describe())
					o.err = "timeout"
				} else if crashed, _ := lib.GoCrash(r1); crashed && !o.complete() {
					crashSite = lib.PanicSite(r1.Stderr)
					o.err = "go crash at " + crashSite
				} else if !o.complete() && o.err == "" {
					o.err = "incomplete output (exit " + strconv.Itoa(r1.Exit) + ")"
				}
				mu.Lock()
				rerun++
				mu.Unlock()
			}
			mu.Lock()
			if crashSite != "" {
				crashes[crashSite]++
			}
			record(cases[i], o)
			mu.Unlock()
		}
	})
	if len(samples) == 0 && len(cases) > 0 {
		samples = append(samples, map[string]string{"case": cases[0].describe()})
	}

	e.Extra("cases_generated", len(cases))
	e.Extra("status_counts", statusCount)
	e.Extra("per_route", perRoute)
	e.Extra("per_source_second_hop", perSource)
	e.Extra("violating_cells", len(leakCells))
	e.Extra("violating_cell_counts", topN(leakCells, 400))
	e.Extra("script_errors_by_kind", topN(errKinds, 40))
	e.Extra("go_crashes_by_site", crashes)
	e.Extra("rerun_individually", rerun)
	e.Extra("batch_timeouts", timeouts)
	e.Extra("routes", routeNames())
	if dumping {
		sort.Strings(dumpLines)
		_ = os.WriteFile(os.Getenv("C06_DUMP"), []byte(strings.Join(dumpLines, "\n")+"\n"), 0o644)
	}
	e.Finish(lib.Coverage{
		Evaluations:        evaluated,
		DistinctNontrivial: nontrivial.N(),
		Rule:               "the write changed the snapshot taken through the written name (mutated before != mutated after), so the comparison of the other name's snapshots is not vacuous",
		Samples:            samples,
		Exhaustive:         false,
	})
}

func routeNames() []string {
	var s []string
	for _, r := range routes {
		s = append(s, r.name)
	}
	return s
}

func topN(m map[string]int, n int) map[string]int {
	type kv struct {
		k string
		v int
	}
	var l []kv
	for k, v := range m {
		l = append(l, kv{k, v})
	}
	sort.Slice(l, func(i, j int) bool {
		if l[i].v != l[j].v {
			return l[i].v > l[j].v
		}
		return l[i].k < l[j].k
	})
	out := map[string]int{}
	for i, x := range l {
		if i >= n {
			break
		}
		out[x.k] = x.v
	}
	return out
}
