package main

import (
	"fmt"
	"strings"
)

// Route kinds: by-value routes demand "other unchanged", sharing routes demand "other
// shows exactly what the mutated name shows".
const (
	kindValue = iota
	kindShare
)

type caseCtx struct {
	id   int
	lit  string
	side string // "copy" | "orig"  (which of the two names is written through)
	mut  func(L string) string
}

// emit prints one tagged snapshot line. Every line starts on a fresh line so that stray
// interpreter output (deprecation notices go to stdout) cannot glue itself to a marker.
func (c *caseCtx) emit(tag, expr string) string {
	return fmt.Sprintf(`echo "\n@%d %s ", snap(%s), "\n";`, c.id, tag, expr)
}

// four snapshots: OB/OA other name before/after, MB/MA mutated name before/after
func (c *caseCtx) around(other, mutated string) string {
	return strings.Join([]string{
		c.emit("OB", other), c.emit("MB", mutated),
		c.mut(mutated),
		c.emit("OA", other), c.emit("MA", mutated),
	}, "\n  ")
}

// pick returns (other, mutated) given the expressions of the original and of the copy.
func (c *caseCtx) pick(orig, cp string) (string, string) {
	if c.side == "copy" {
		return orig, cp
	}
	return cp, orig
}

type route struct {
	name  string
	kind  int
	sides []string
	// render returns top-level definitions and the statements of the case function
	render func(c *caseCtx) (defs, body string)
}

func both() []string { return []string{"copy", "orig"} }

var routes = []route{
	// ---- the 7 by-value routes of the property (some in several syntactic variants) ----
	{"assign", kindValue, both(), func(c *caseCtx) (string, string) {
		o, m := c.pick("$a", "$b")
		return "", fmt.Sprintf("$a = %s;\n  $b = $a;\n  %s", c.lit, c.around(o, m))
	}},
	{"param", kindValue, both(), func(c *caseCtx) (string, string) {
		if c.side == "copy" {
			defs := fmt.Sprintf("function c%d_f($p) {\n  %s\n  %s\n  %s\n}\n", c.id, c.emit("MB", "$p"), c.mut("$p"), c.emit("MA", "$p"))
			body := fmt.Sprintf("$a = %s;\n  %s\n  c%d_f($a);\n  %s", c.lit, c.emit("OB", "$a"), c.id, c.emit("OA", "$a"))
			return defs, body
		}
		// the original is written through a reference to it while the by-value parameter lives
		defs := fmt.Sprintf("function c%d_f($p, &$o) {\n  %s\n}\n", c.id, c.around("$p", "$o"))
		return defs, fmt.Sprintf("$a = %s;\n  c%d_f($a, $a);", c.lit, c.id)
	}},
	{"return", kindValue, both(), func(c *caseCtx) (string, string) {
		o, m := c.pick("$a", "$b")
		defs := fmt.Sprintf("function c%d_g($x) { return $x; }\n", c.id)
		return defs, fmt.Sprintf("$a = %s;\n  $b = c%d_g($a);\n  %s", c.lit, c.id, c.around(o, m))
	}},
	{"return-method", kindValue, both(), func(c *caseCtx) (string, string) {
		o, m := c.pick("$h->arr", "$b")
		return "", fmt.Sprintf("$h = new H();\n  $h->arr = %s;\n  $b = $h->getArr();\n  %s", c.lit, c.around(o, m))
	}},
	{"prop-store", kindValue, both(), func(c *caseCtx) (string, string) {
		o, m := c.pick("$a", "$h->arr")
		return "", fmt.Sprintf("$a = %s;\n  $h = new H();\n  $h->arr = $a;\n  %s", c.lit, c.around(o, m))
	}},
	{"prop-ctor", kindValue, both(), func(c *caseCtx) (string, string) {
		o, m := c.pick("$a", "$h->arr")
		return "", fmt.Sprintf("$a = %s;\n  $h = new HC($a);\n  %s", c.lit, c.around(o, m))
	}},
	{"prop-read", kindValue, both(), func(c *caseCtx) (string, string) {
		o, m := c.pick("$h->arr", "$b")
		return "", fmt.Sprintf("$h = new H();\n  $h->arr = %s;\n  $b = $h->arr;\n  %s", c.lit, c.around(o, m))
	}},
	{"arr-store", kindValue, both(), func(c *caseCtx) (string, string) {
		o, m := c.pick("$a", "$o[1]")
		return "", fmt.Sprintf("$a = %s;\n  $o = [0, 0];\n  $o[1] = $a;\n  %s", c.lit, c.around(o, m))
	}},
	{"arr-store-key", kindValue, both(), func(c *caseCtx) (string, string) {
		o, m := c.pick("$a", "$o['q']")
		return "", fmt.Sprintf("$a = %s;\n  $o = ['p' => 0];\n  $o['q'] = $a;\n  %s", c.lit, c.around(o, m))
	}},
	{"arr-append", kindValue, both(), func(c *caseCtx) (string, string) {
		o, m := c.pick("$a", "$o[1]")
		return "", fmt.Sprintf("$a = %s;\n  $o = [0];\n  $o[] = $a;\n  %s", c.lit, c.around(o, m))
	}},
	{"arr-push", kindValue, both(), func(c *caseCtx) (string, string) {
		o, m := c.pick("$a", "$o[1]")
		return "", fmt.Sprintf("$a = %s;\n  $o = [0];\n  array_push($o, $a);\n  %s", c.lit, c.around(o, m))
	}},
	{"arr-lit", kindValue, both(), func(c *caseCtx) (string, string) {
		o, m := c.pick("$a", "$o[1]")
		return "", fmt.Sprintf("$a = %s;\n  $o = [0, $a];\n  %s", c.lit, c.around(o, m))
	}},
	{"arr-read", kindValue, both(), func(c *caseCtx) (string, string) {
		o, m := c.pick("$o[1]", "$b")
		return "", fmt.Sprintf("$o = [0, %s];\n  $b = $o[1];\n  %s", c.lit, c.around(o, m))
	}},
	{"arr-read-key", kindValue, both(), func(c *caseCtx) (string, string) {
		o, m := c.pick("$o['q']", "$b")
		return "", fmt.Sprintf("$o = ['p' => 0, 'q' => %s];\n  $b = $o['q'];\n  %s", c.lit, c.around(o, m))
	}},
	{"foreach", kindValue, both(), func(c *caseCtx) (string, string) {
		o, m := c.pick("$o[0]", "$v")
		// break: PHP iterates a by-value foreach over a snapshot; whether origami visits slots
		// added meanwhile is not this property's business
		return "", fmt.Sprintf("$o = [%s];\n  foreach ($o as $v) {\n  %s\n  break;\n  }", c.lit, c.around(o, m))
	}},
	// ---- the array travels INSIDE an array literal built at the use site; the holder
	//      writes below the literal's top level ($p[0]...), the original is $a ----
	litParam("lit-param", "function c%d_f($p)", "c%d_f([$a])", "$p[0]"),
	litParam("lit-param-pad", "function c%d_f($p)", "c%d_f([$a, 1])", "$p[0]"),
	litParam("lit-param-second", "function c%d_f($p)", "c%d_f([1, $a])", "$p[1]"),
	litParam("lit-param-keyed", "function c%d_f($p)", "c%d_f(['k' => $a])", "$p['k']"),
	litParam("lit-param-typed", "function c%d_f(array $p)", "c%d_f([$a])", "$p[0]"),
	litParam("lit-param-nested", "function c%d_f($p)", "c%d_f([[$a]])", "$p[0][0]"),
	{"lit-closure", kindValue, both(), func(c *caseCtx) (string, string) {
		if c.side == "copy" {
			return "", fmt.Sprintf("$a = %s;\n  $fn = function ($p) {\n  %s\n  %s\n  %s\n  };\n  %s\n  $fn([$a]);\n  %s",
				c.lit, c.emit("MB", "$p[0]"), c.mut("$p[0]"), c.emit("MA", "$p[0]"), c.emit("OB", "$a"), c.emit("OA", "$a"))
		}
		return "", fmt.Sprintf("$a = %s;\n  $fn = function ($p, &$o) {\n  %s\n  };\n  $fn([$a], $a);", c.lit, c.around("$p[0]", "$o"))
	}},
	litClass("lit-new", "function __construct($p)", "new C%d_K([$a])", "new C%d_K([$a], $a)"),
	litClass("lit-method", "function m($p)", "(new C%d_K())->m([$a])", "(new C%d_K())->m([$a], $a)"),
	litClass("lit-static", "static function s($p)", "C%d_K::s([$a])", "C%d_K::s([$a], $a)"),
	{"lit-return", kindValue, both(), func(c *caseCtx) (string, string) {
		o, m := c.pick("$h->arr", "$b[0]")
		return "", fmt.Sprintf("$h = new H();\n  $h->arr = %s;\n  $b = $h->wrap();\n  %s", c.lit, c.around(o, m))
	}},
	{"lit-return-fn", kindValue, both(), func(c *caseCtx) (string, string) {
		// the function returns a literal around a by-reference view of the caller's array
		o, m := c.pick("$a", "$b[0]")
		defs := fmt.Sprintf("function c%d_g(&$x) { return [$x]; }\n", c.id)
		return defs, fmt.Sprintf("$a = %s;\n  $b = c%d_g($a);\n  %s", c.lit, c.id, c.around(o, m))
	}},
	{"lit-prop", kindValue, both(), func(c *caseCtx) (string, string) {
		o, m := c.pick("$a", "$h->arr[0]")
		return "", fmt.Sprintf("$a = %s;\n  $h = new H();\n  $h->arr = [$a];\n  %s", c.lit, c.around(o, m))
	}},
	{"lit-prop-keyed", kindValue, both(), func(c *caseCtx) (string, string) {
		o, m := c.pick("$a", "$h->arr['k']")
		return "", fmt.Sprintf("$a = %s;\n  $h = new H();\n  $h->arr = ['k' => $a];\n  %s", c.lit, c.around(o, m))
	}},
	{"lit-assign", kindValue, both(), func(c *caseCtx) (string, string) {
		o, m := c.pick("$a", "$x[0]")
		return "", fmt.Sprintf("$a = %s;\n  $x = [$a];\n  %s", c.lit, c.around(o, m))
	}},
	{"lit-merge", kindValue, both(), func(c *caseCtx) (string, string) {
		o, m := c.pick("$a", "$x[0]")
		return "", fmt.Sprintf("$a = %s;\n  $x = array_merge([$a], []);\n  %s", c.lit, c.around(o, m))
	}},
	{"lit-elem", kindValue, both(), func(c *caseCtx) (string, string) {
		o, m := c.pick("$a", "$o[1][0]")
		return "", fmt.Sprintf("$a = %s;\n  $o = [0, 0];\n  $o[1] = [$a];\n  %s", c.lit, c.around(o, m))
	}},
	// ---- variadic parameters: the array lands in ...$rest, the callee writes $rest[i]... ----
	variadic("var-fn", "function c{ID}_f({O}...$rest) {\n{BODY}\n}\n", "c{ID}_f({A}$a)", "$rest[0]", false),
	variadic("var-fn-after", "function c{ID}_f({O}$x, ...$rest) {\n{BODY}\n}\n", "c{ID}_f({A}1, $a)", "$rest[0]", false),
	variadic("var-fn-second", "function c{ID}_f({O}...$rest) {\n{BODY}\n}\n", "c{ID}_f({A}[1], $a)", "$rest[1]", false),
	variadic("var-fn-typed", "function c{ID}_f({O}array ...$rest) {\n{BODY}\n}\n", "c{ID}_f({A}$a)", "$rest[0]", false),
	variadic("var-fn-lit", "function c{ID}_f({O}...$rest) {\n{BODY}\n}\n", "c{ID}_f({A}[$a])", "$rest[0][0]", false),
	variadic("var-method", "class C{ID}_K {\n  function m({O}...$rest) {\n{BODY}\n  }\n}\n", "(new C{ID}_K())->m({A}$a)", "$rest[0]", false),
	variadic("var-method-after", "class C{ID}_K {\n  function m({O}$x, ...$rest) {\n{BODY}\n  }\n}\n", "(new C{ID}_K())->m({A}1, $a)", "$rest[0]", false),
	variadic("var-method-second", "class C{ID}_K {\n  function m({O}...$rest) {\n{BODY}\n  }\n}\n", "(new C{ID}_K())->m({A}[1], $a)", "$rest[1]", false),
	variadic("var-method-typed", "class C{ID}_K {\n  function m({O}array ...$rest) {\n{BODY}\n  }\n}\n", "(new C{ID}_K())->m({A}$a)", "$rest[0]", false),
	variadic("var-method-this", "class C{ID}_K {\n  function m({O}...$rest) {\n{BODY}\n  }\n  function outer(&$q) { return $this->m({A2}$q); }\n}\n", "(new C{ID}_K())->outer($a)", "$rest[0]", false),
	variadic("var-static", "class C{ID}_K {\n  static function s({O}...$rest) {\n{BODY}\n  }\n}\n", "C{ID}_K::s({A}$a)", "$rest[0]", false),
	variadic("var-new", "class C{ID}_K {\n  function __construct({O}...$rest) {\n{BODY}\n  }\n}\n", "new C{ID}_K({A}$a)", "$rest[0]", false),
	variadic("var-closure", "$fn = function ({O}...$rest) {\n{BODY}\n  };", "$fn({A}$a)", "$rest[0]", true),
	variadic("var-arrow-call", "$fn = function ({O}...$rest) {\n{BODY}\n  };", "call_user_func($fn, {A}$a)", "$rest[0]", true),
	variadic("var-spread", "function c{ID}_f({O}...$rest) {\n{BODY}\n}\n", "c{ID}_f({A}...$args)", "$rest[0]", false),
	variadic("var-spread-method", "class C{ID}_K {\n  function m({O}...$rest) {\n{BODY}\n  }\n}\n", "(new C{ID}_K())->m({A}...$args)", "$rest[0]", false),
	// ---- promoted constructor parameters (__construct(public array $arr)) ----
	promoPublic("promo-public", "public array $arr"),
	promoPublic("promo-untyped", "public $arr"),
	promoHidden("promo-protected", "protected array $arr"),
	promoHidden("promo-private", "private array $arr"),
	promoHidden("promo-private-untyped", "private $arr"),
	{"promo-getter", kindValue, []string{"orig"}, func(c *caseCtx) (string, string) {
		defs := fmt.Sprintf("class C%d_K { function __construct(public array $arr) {} function get() { return $this->arr; } }\n", c.id)
		return defs, fmt.Sprintf("$a = %s;\n  $h = new C%d_K($a);\n  %s", c.lit, c.id, c.around("$h->get()", "$a"))
	}},
	{"promo-two", kindValue, both(), func(c *caseCtx) (string, string) {
		// two objects built from the same array: copy = write through the second, orig = through the first
		o, m := c.pick("$h1->arr", "$h2->arr")
		defs := fmt.Sprintf("class C%d_K { function __construct(public array $arr) {} }\n", c.id)
		return defs, fmt.Sprintf("$a = %s;\n  $h1 = new C%d_K($a);\n  $h2 = new C%d_K($a);\n  %s", c.lit, c.id, c.id, c.around(o, m))
	}},
	{"promo-two-source", kindValue, []string{"copy"}, func(c *caseCtx) (string, string) {
		// two objects from one array, write through one object's property, inspect the source
		defs := fmt.Sprintf("class C%d_K { function __construct(public $arr) {} }\n", c.id)
		return defs, fmt.Sprintf("$a = %s;\n  $h1 = new C%d_K($a);\n  $h2 = new C%d_K($a);\n  %s", c.lit, c.id, c.id, c.around("$a", "$h2->arr"))
	}},
	{"promo-lit", kindValue, both(), func(c *caseCtx) (string, string) {
		o, m := c.pick("$a", "$h->arr[0]")
		defs := fmt.Sprintf("class C%d_K { function __construct(public array $arr) {} }\n", c.id)
		return defs, fmt.Sprintf("$a = %s;\n  $h = new C%d_K([$a]);\n  %s", c.lit, c.id, c.around(o, m))
	}},
	// clone: the clone's own array-valued property changes independently (and the source's)
	{"clone", kindValue, both(), func(c *caseCtx) (string, string) {
		o, m := c.pick("$h->arr", "$k->arr")
		return "", fmt.Sprintf("$h = new H();\n  $h->arr = %s;\n  $k = clone $h;\n  %s", c.lit, c.around(o, m))
	}},
	// ---- routes on which the write must show through ----
	{"ref-assign", kindShare, both(), func(c *caseCtx) (string, string) {
		o, m := c.pick("$a", "$b")
		return "", fmt.Sprintf("$a = %s;\n  $b = &$a;\n  %s", c.lit, c.around(o, m))
	}},
	{"ref-param", kindShare, []string{"copy"}, func(c *caseCtx) (string, string) {
		defs := fmt.Sprintf("function c%d_f(&$p) {\n  %s\n  %s\n  %s\n}\n", c.id, c.emit("MB", "$p"), c.mut("$p"), c.emit("MA", "$p"))
		body := fmt.Sprintf("$a = %s;\n  %s\n  c%d_f($a);\n  %s", c.lit, c.emit("OB", "$a"), c.id, c.emit("OA", "$a"))
		return defs, body
	}},
	{"ref-foreach", kindShare, []string{"copy"}, func(c *caseCtx) (string, string) {
		return "", fmt.Sprintf("$o = [%s];\n  foreach ($o as &$v) {\n  %s\n  break;\n  }", c.lit, c.around("$o[0]", "$v"))
	}},
	{"handle-assign", kindShare, both(), func(c *caseCtx) (string, string) {
		o, m := c.pick("$h->arr", "$h2->arr")
		return "", fmt.Sprintf("$h = new H();\n  $h->arr = %s;\n  $h2 = $h;\n  %s", c.lit, c.around(o, m))
	}},
	{"handle-param", kindShare, []string{"copy"}, func(c *caseCtx) (string, string) {
		defs := fmt.Sprintf("function c%d_f($q) {\n  %s\n  %s\n  %s\n}\n", c.id, c.emit("MB", "$q->arr"), c.mut("$q->arr"), c.emit("MA", "$q->arr"))
		body := fmt.Sprintf("$h = new H();\n  $h->arr = %s;\n  %s\n  c%d_f($h);\n  %s", c.lit, c.emit("OB", "$h->arr"), c.id, c.emit("OA", "$h->arr"))
		return defs, body
	}},
}

// litParam: a function whose by-value parameter receives a literal that contains $a; the
// callee writes through `held` (an element of the parameter). orig side: $a itself is
// written through an extra by-reference parameter while the literal-holding parameter lives.
func litParam(name, sig, call, held string) route {
	return route{name, kindValue, both(), func(c *caseCtx) (string, string) {
		if c.side == "copy" {
			defs := fmt.Sprintf(sig+" {\n  %s\n  %s\n  %s\n}\n", c.id, c.emit("MB", held), c.mut(held), c.emit("MA", held))
			return defs, fmt.Sprintf("$a = %s;\n  %s\n  "+call+";\n  %s", c.lit, c.emit("OB", "$a"), c.id, c.emit("OA", "$a"))
		}
		sig2 := strings.Replace(sig, "$p)", "$p, &$o)", 1)
		call2 := call[:len(call)-1] + ", $a)"
		defs := fmt.Sprintf(sig2+" {\n  %s\n}\n", c.id, c.around(held, "$o"))
		return defs, fmt.Sprintf("$a = %s;\n  "+call2+";", c.lit, c.id)
	}}
}

// litClass: the same through a constructor, an instance method or a static method of a
// class defined per case.
func litClass(name, sig, call, callOrig string) route {
	return route{name, kindValue, both(), func(c *caseCtx) (string, string) {
		if c.side == "copy" {
			defs := fmt.Sprintf("class C%d_K {\n  %s {\n  %s\n  %s\n  %s\n  }\n}\n", c.id, sig, c.emit("MB", "$p[0]"), c.mut("$p[0]"), c.emit("MA", "$p[0]"))
			return defs, fmt.Sprintf("$a = %s;\n  %s\n  $r = "+call+";\n  %s", c.lit, c.emit("OB", "$a"), c.id, c.emit("OA", "$a"))
		}
		sig2 := strings.Replace(sig, "$p)", "$p, &$o)", 1)
		defs := fmt.Sprintf("class C%d_K {\n  %s {\n  %s\n  }\n}\n", c.id, sig2, c.around("$p[0]", "$o"))
		return defs, fmt.Sprintf("$a = %s;\n  $r = "+callOrig+";", c.lit, c.id)
	}}
}

// variadic: the array under test is an argument that lands in a ...$rest parameter; the
// callee writes through `held` ($rest[i]...). {ID} case id, {BODY} callee statements,
// {O}/{A} an extra leading by-reference parameter / argument on the orig side (the
// original is then written through it while $rest holds the by-value copy). inline: the
// callee is a closure defined inside the case function.
func variadic(name, def, call, held string, inline bool) route {
	return route{name, kindValue, both(), func(c *caseCtx) (string, string) {
		id := fmt.Sprint(c.id)
		fill := func(t, body string) string {
			o, a, o2, a2 := "", "", "", ""
			if c.side == "orig" {
				o, a, o2, a2 = "&$o, ", "$a, ", "", "$q, "
			}
			r := strings.NewReplacer("{ID}", id, "{BODY}", body, "{O2}", o2, "{A2}", a2, "{O}", o, "{A}", a)
			return r.Replace(t)
		}
		pre := "$a = " + c.lit + ";\n  $args = [$a];\n  "
		if c.side == "copy" {
			body := "  " + c.emit("MB", held) + "\n  " + c.mut(held) + "\n  " + c.emit("MA", held)
			d := fill(def, body)
			use := c.emit("OB", "$a") + "\n  $r = " + fill(call, "") + ";\n  " + c.emit("OA", "$a")
			if inline {
				return "", pre + d + "\n  " + use
			}
			return d, pre + use
		}
		d := fill(def, "  "+c.around(held, "$o"))
		use := "$r = " + fill(call, "") + ";"
		if inline {
			return "", pre + d + "\n  " + use
		}
		return d, pre + use
	}}
}

// promoPublic: promoted public property, both names reachable from outside.
func promoPublic(name, param string) route {
	return route{name, kindValue, both(), func(c *caseCtx) (string, string) {
		o, m := c.pick("$a", "$h->arr")
		defs := fmt.Sprintf("class C%d_K { function __construct(%s) {} }\n", c.id, param)
		return defs, fmt.Sprintf("$a = %s;\n  $h = new C%d_K($a);\n  %s", c.lit, c.id, c.around(o, m))
	}}
}

// promoHidden: promoted protected/private property: read through a getter, written through
// a method of the class.
func promoHidden(name, param string) route {
	return route{name, kindValue, both(), func(c *caseCtx) (string, string) {
		if c.side == "orig" {
			defs := fmt.Sprintf("class C%d_K { function __construct(%s) {} function get() { return $this->arr; } }\n", c.id, param)
			return defs, fmt.Sprintf("$a = %s;\n  $h = new C%d_K($a);\n  %s", c.lit, c.id, c.around("$h->get()", "$a"))
		}
		defs := fmt.Sprintf("class C%d_K {\n  function __construct(%s) {}\n  function mut() {\n  %s\n  %s\n  %s\n  }\n}\n", c.id, param,
			c.emit("MB", "$this->arr"), c.mut("$this->arr"), c.emit("MA", "$this->arr"))
		return defs, fmt.Sprintf("$a = %s;\n  $h = new C%d_K($a);\n  %s\n  $h->mut();\n  %s", c.lit, c.id, c.emit("OB", "$a"), c.emit("OA", "$a"))
	}}
}

const prelude = `<?php
function snap($x) { return json_encode($x) . " ~ " . str_replace("\n", "", var_export($x, true)); }
class H { public $arr = []; public $n = 1; function getArr() { return $this->arr; } function wrap() { return [$this->arr]; } }
class HC { public $arr = []; function __construct($x) { $this->arr = $x; } }
` + containerPrelude

type tcase struct {
	id       int
	route    *route
	side     string
	mut      mutation
	shape    *node
	seeded   bool
	shapeLit string
	src      *source // nil: the literal itself
}

func (t *tcase) routeName() string {
	if t.src != nil && t.src.name != "" {
		return t.src.name + ">" + t.route.name
	}
	return t.route.name
}

// key is the cell of the property's matrix the case belongs to: route/side/mutation/path.
// No spaces: KNOWN_FINDINGS.txt is split on white space.
func (t *tcase) key() string {
	return t.routeName() + "/" + t.side + "/" + t.mut.name + "/" + t.mut.path
}

func (t *tcase) describe() string {
	return fmt.Sprintf("route=%s written-through=%s mutation=%s path=%s shape=%s write=`%s`", t.routeName(), t.side, t.mut.name, t.mut.path, t.shapeLit, t.mut.code("L"))
}

// render returns the definitions and the guarded invocation of one case.
func (t *tcase) render() string {
	c := &caseCtx{id: t.id, lit: t.shapeLit, side: t.side, mut: t.mut.code}
	pre := ""
	if t.src != nil && t.src.name != "" {
		pre = t.src.pre(t.shapeLit) + "\n  "
		c.lit = t.src.expr
	}
	defs, body := t.route.render(c)
	body = pre + body
	var sb strings.Builder
	sb.WriteString(defs)
	fmt.Fprintf(&sb, "function c%d() {\n  %s\n}\n", t.id, body)
	fmt.Fprintf(&sb, "echo \"\\n@%d BEGIN\\n\";\ntry { c%d(); echo \"\\n@%d END\\n\"; } catch (\\Throwable $e) { echo \"\\n@%d ERR \", str_replace(\"\\n\", \" \", $e->getMessage()), \"\\n\"; }\n", t.id, t.id, t.id, t.id)
	return sb.String()
}

func script(cases []*tcase) string {
	var sb strings.Builder
	sb.WriteString(prelude)
	for _, t := range cases {
		sb.WriteString(t.render())
	}
	return sb.String()
}
