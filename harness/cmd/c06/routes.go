package main

import (
	"fmt"
	"strings"
)

// Route kinds: by-value routes demand "other unchanged", sharing routes demand "other
// shows exactly what the mutated name shows".
const (
	kindValue = iota
	kindShare
)

type caseCtx struct {
	id   int
	lit  string
	side string // "copy" | "orig"  (which of the two names is written through)
	mut  func(L string) string
}

// emit prints one tagged snapshot line. Every line starts on a fresh line so that stray
// interpreter output (deprecation notices go to stdout) cannot glue itself to a marker.
func (c *caseCtx) emit(tag, expr string) string {
	return fmt.Sprintf(`echo "\n@%d %s ", snap(%s), "\n";`, c.id, tag, expr)
}

// four snapshots: OB/OA other name before/after, MB/MA mutated name before/after
func (c *caseCtx) around(other, mutated string) string {
	return strings.Join([]string{
		c.emit("OB", other), c.emit("MB", mutated),
		c.mut(mutated),
		c.emit("OA", other), c.emit("MA", mutated),
	}, "\n  ")
}

// pick returns (other, mutated) given the expressions of the original and of the copy.
func (c *caseCtx) pick(orig, cp string) (string, string) {
	if c.side == "copy" {
		return orig, cp
	}
	return cp, orig
}

type route struct {
	name  string
	kind  int
	sides []string
	// render returns top-level definitions and the statements of the case function
	render func(c *caseCtx) (defs, body string)
}

func both() []string { return []string{"copy", "orig"} }

var routes = []route{
	// ---- the 7 by-value routes of the property (some in several syntactic variants) ----
	{"assign", kindValue, both(), func(c *caseCtx) (string, string) {
		o, m := c.pick("$a", "$b")
		return "", fmt.Sprintf("$a = %s;\n  $b = $a;\n  %s", c.lit, c.around(o, m))
	}},
	{"param", kindValue, both(), func(c *caseCtx) (string, string) {
		if c.side == "copy" {
			defs := fmt.Sprintf("function c%d_f($p) {\n  %s\n  %s\n  %s\n}\n", c.id, c.emit("MB", "$p"), c.mut("$p"), c.emit("MA", "$p"))
			body := fmt.Sprintf("$a = %s;\n  %s\n  c%d_f($a);\n  %s", c.lit, c.emit("OB", "$a"), c.id, c.emit("OA", "$a"))
			return defs, body
		}
		// the original is written through a reference to it while the by-value parameter lives
		defs := fmt.Sprintf("function c%d_f($p, &$o) {\n  %s\n}\n", c.id, c.around("$p", "$o"))
		return defs, fmt.Sprintf("$a = %s;\n  c%d_f($a, $a);", c.lit, c.id)
	}},
	{"return", kindValue, both(), func(c *caseCtx) (string, string) {
		o, m := c.pick("$a", "$b")
		defs := fmt.Sprintf("function c%d_g($x) { return $x; }\n", c.id)
		return defs, fmt.Sprintf("$a = %s;\n  $b = c%d_g($a);\n  %s", c.lit, c.id, c.around(o, m))
	}},
	{"return-method", kindValue, both(), func(c *caseCtx) (string, string) {
		o, m := c.pick("$h->arr", "$b")
		return "", fmt.Sprintf("$h = new H();\n  $h->arr = %s;\n  $b = $h->getArr();\n  %s", c.lit, c.around(o, m))
	}},
	{"prop-store", kindValue, both(), func(c *caseCtx) (string, string) {
		o, m := c.pick("$a", "$h->arr")
		return "", fmt.Sprintf("$a = %s;\n  $h = new H();\n  $h->arr = $a;\n  %s", c.lit, c.around(o, m))
	}},
	{"prop-ctor", kindValue, both(), func(c *caseCtx) (string, string) {
		o, m := c.pick("$a", "$h->arr")
		return "", fmt.Sprintf("$a = %s;\n  $h = new HC($a);\n  %s", c.lit, c.around(o, m))
	}},
	{"prop-read", kindValue, both(), func(c *caseCtx) (string, string) {
		o, m := c.pick("$h->arr", "$b")
		return "", fmt.Sprintf("$h = new H();\n  $h->arr = %s;\n  $b = $h->arr;\n  %s", c.lit, c.around(o, m))
	}},
	{"arr-store", kindValue, both(), func(c *caseCtx) (string, string) {
		o, m := c.pick("$a", "$o[1]")
		return "", fmt.Sprintf("$a = %s;\n  $o = [0, 0];\n  $o[1] = $a;\n  %s", c.lit, c.around(o, m))
	}},
	{"arr-store-key", kindValue, both(), func(c *caseCtx) (string, string) {
		o, m := c.pick("$a", "$o['q']")
		return "", fmt.Sprintf("$a = %s;\n  $o = ['p' => 0];\n  $o['q'] = $a;\n  %s", c.lit, c.around(o, m))
	}},
	{"arr-append", kindValue, both(), func(c *caseCtx) (string, string) {
		o, m := c.pick("$a", "$o[1]")
		return "", fmt.Sprintf("$a = %s;\n  $o = [0];\n  $o[] = $a;\n  %s", c.lit, c.around(o, m))
	}},
	{"arr-push", kindValue, both(), func(c *caseCtx) (string, string) {
		o, m := c.pick("$a", "$o[1]")
		return "", fmt.Sprintf("$a = %s;\n  $o = [0];\n  array_push($o, $a);\n  %s", c.lit, c.around(o, m))
	}},
	{"arr-lit", kindValue, both(), func(c *caseCtx) (string, string) {
		o, m := c.pick("$a", "$o[1]")
		return "", fmt.Sprintf("$a = %s;\n  $o = [0, $a];\n  %s", c.lit, c.around(o, m))
	}},
	{"arr-read", kindValue, both(), func(c *caseCtx) (string, string) {
		o, m := c.pick("$o[1]", "$b")
		return "", fmt.Sprintf("$o = [0, %s];\n  $b = $o[1];\n  %s", c.lit, c.around(o, m))
	}},
	{"arr-read-key", kindValue, both(), func(c *caseCtx) (string, string) {
		o, m := c.pick("$o['q']", "$b")
		return "", fmt.Sprintf("$o = ['p' => 0, 'q' => %s];\n  $b = $o['q'];\n  %s", c.lit, c.around(o, m))
	}},
	{"foreach", kindValue, both(), func(c *caseCtx) (string, string) {
		o, m := c.pick("$o[0]", "$v")
		// break: PHP iterates a by-value foreach over a snapshot; whether origami visits slots
		// added meanwhile is not this property's business
		return "", fmt.Sprintf("$o = [%s];\n  foreach ($o as $v) {\n  %s\n  break;\n  }", c.lit, c.around(o, m))
	}},
	// clone: the clone's own array-valued property changes independently (and the source's)
	{"clone", kindValue, both(), func(c *caseCtx) (string, string) {
		o, m := c.pick("$h->arr", "$k->arr")
		return "", fmt.Sprintf("$h = new H();\n  $h->arr = %s;\n  $k = clone $h;\n  %s", c.lit, c.around(o, m))
	}},
	// ---- routes on which the write must show through ----
	{"ref-assign", kindShare, both(), func(c *caseCtx) (string, string) {
		o, m := c.pick("$a", "$b")
		return "", fmt.Sprintf("$a = %s;\n  $b = &$a;\n  %s", c.lit, c.around(o, m))
	}},
	{"ref-param", kindShare, []string{"copy"}, func(c *caseCtx) (string, string) {
		defs := fmt.Sprintf("function c%d_f(&$p) {\n  %s\n  %s\n  %s\n}\n", c.id, c.emit("MB", "$p"), c.mut("$p"), c.emit("MA", "$p"))
		body := fmt.Sprintf("$a = %s;\n  %s\n  c%d_f($a);\n  %s", c.lit, c.emit("OB", "$a"), c.id, c.emit("OA", "$a"))
		return defs, body
	}},
	{"ref-foreach", kindShare, []string{"copy"}, func(c *caseCtx) (string, string) {
		return "", fmt.Sprintf("$o = [%s];\n  foreach ($o as &$v) {\n  %s\n  break;\n  }", c.lit, c.around("$o[0]", "$v"))
	}},
	{"handle-assign", kindShare, both(), func(c *caseCtx) (string, string) {
		o, m := c.pick("$h->arr", "$h2->arr")
		return "", fmt.Sprintf("$h = new H();\n  $h->arr = %s;\n  $h2 = $h;\n  %s", c.lit, c.around(o, m))
	}},
	{"handle-param", kindShare, []string{"copy"}, func(c *caseCtx) (string, string) {
		defs := fmt.Sprintf("function c%d_f($q) {\n  %s\n  %s\n  %s\n}\n", c.id, c.emit("MB", "$q->arr"), c.mut("$q->arr"), c.emit("MA", "$q->arr"))
		body := fmt.Sprintf("$h = new H();\n  $h->arr = %s;\n  %s\n  c%d_f($h);\n  %s", c.lit, c.emit("OB", "$h->arr"), c.id, c.emit("OA", "$h->arr"))
		return defs, body
	}},
}

const prelude = `<?php
function snap($x) { return json_encode($x) . " ~ " . str_replace("\n", "", var_export($x, true)); }
class H { public $arr = []; public $n = 1; function getArr() { return $this->arr; } }
class HC { public $arr = []; function __construct($x) { $this->arr = $x; } }
`

type tcase struct {
	id       int
	route    *route
	side     string
	mut      mutation
	shape    *node
	seeded   bool
	shapeLit string
}

// key is the cell of the property's matrix the case belongs to: route/side/mutation/path.
// No spaces: KNOWN_FINDINGS.txt is split on white space.
func (t *tcase) key() string {
	return t.route.name + "/" + t.side + "/" + t.mut.name + "/" + t.mut.path
}

func (t *tcase) describe() string {
	return fmt.Sprintf("route=%s written-through=%s mutation=%s path=%s shape=%s write=`%s`", t.route.name, t.side, t.mut.name, t.mut.path, t.shapeLit, t.mut.code("L"))
}

// render returns the definitions and the guarded invocation of one case.
func (t *tcase) render() string {
	c := &caseCtx{id: t.id, lit: t.shapeLit, side: t.side, mut: t.mut.code}
	defs, body := t.route.render(c)
	var sb strings.Builder
	sb.WriteString(defs)
	fmt.Fprintf(&sb, "function c%d() {\n  %s\n}\n", t.id, body)
	fmt.Fprintf(&sb, "echo \"\\n@%d BEGIN\\n\";\ntry { c%d(); echo \"\\n@%d END\\n\"; } catch (\\Throwable $e) { echo \"\\n@%d ERR \", str_replace(\"\\n\", \" \", $e->getMessage()), \"\\n\"; }\n", t.id, t.id, t.id, t.id)
	return sb.String()
}

func script(cases []*tcase) string {
	var sb strings.Builder
	sb.WriteString(prelude)
	for _, t := range cases {
		sb.WriteString(t.render())
	}
	return sb.String()
}
