package main

import "fmt"

// A source says where the array under test comes from before it travels the route. The
// default is the literal itself. The other sources first store the literal into a user
// object (ArrayAccess, __get/__set, Iterator, IteratorAggregate, Countable wrapper) and
// read it back; the route's first statement then consumes that expression, so that the
// route's own hop is the SECOND by-value hop of an array with such a provenance
// (origami tags arrays that came out of offsetGet; a tagged array must still be a value).
type source struct {
	name string
	pre  func(lit string) string // statements run at the top of the case function
	expr string                  // expression standing where the literal stood
}

var literalSource = &source{name: "", pre: func(string) string { return "" }}

var sources = []*source{
	{"aa", func(l string) string { return fmt.Sprintf("$src = new AA();\n  $src['k'] = %s;", l) }, "$src['k']"},
	{"aa-int", func(l string) string { return fmt.Sprintf("$src = new AA();\n  $src[3] = %s;", l) }, "$src[3]"},
	{"aa-var", func(l string) string {
		return fmt.Sprintf("$src = new AA();\n  $src['k'] = %s;\n  $got = $src['k'];", l)
	}, "$got"},
	{"aa-call", func(l string) string { return fmt.Sprintf("$src = new AA();\n  $src['k'] = %s;", l) }, "$src->offsetGet('k')"},
	{"aa-twice", func(l string) string {
		return fmt.Sprintf("$src = new AA();\n  $src['k'] = %s;\n  $got = $src['k'];\n  $src2 = new AA();\n  $src2['m'] = $got;", l)
	}, "$src2['m']"},
	{"magic", func(l string) string { return fmt.Sprintf("$src = new MG();\n  $src->k = %s;", l) }, "$src->k"},
	{"iter", func(l string) string {
		return fmt.Sprintf("$src = new IT();\n  $src->add(%s);\n  $got = null;\n  foreach ($src as $sv) { $got = $sv; }", l)
	}, "$got"},
	{"agg", func(l string) string {
		return fmt.Sprintf("$src = new IA();\n  $src->add(%s);\n  $got = null;\n  foreach ($src as $sv) { $got = $sv; }", l)
	}, "$got"},
	// history: the array was earlier iterated by reference / bound by reference and unbound /
	// passed by reference, and no reference is live any more when it travels the route
	{"hist-foreach-ref", func(l string) string {
		return fmt.Sprintf("$got = %s;\n  foreach ($got as &$hv) { $hn = 1; }\n  unset($hv);", l)
	}, "$got"},
	{"hist-foreach-ref-key", func(l string) string {
		return fmt.Sprintf("$got = %s;\n  foreach ($got as $hk => &$hv) { $hn = $hk; }\n  unset($hv);", l)
	}, "$got"},
	{"hist-foreach-ref-write", func(l string) string {
		return fmt.Sprintf("$got = %s;\n  foreach ($got as &$hv) { if (is_int($hv)) { $hv = $hv + 1; } }\n  unset($hv);", l)
	}, "$got"},
	{"hist-foreach-ref-twice", func(l string) string {
		return fmt.Sprintf("$got = %s;\n  foreach ($got as &$hv) { $hn = 1; }\n  unset($hv);\n  foreach ($got as &$hw) { $hn = 2; }\n  unset($hw);", l)
	}, "$got"},
	{"hist-ref-bind", func(l string) string {
		// the reference stays live ($got and $hr are one variable); reading $got still yields a
		// value. (unset($hr) is not used: on origami it writes null through the reference.)
		return fmt.Sprintf("$got = %s;\n  $hr = &$got;\n  $hn = count($hr);", l)
	}, "$got"},
	{"hist-byref-param", func(l string) string {
		return fmt.Sprintf("$got = %s;\n  $hn = hist_touch($got);", l)
	}, "$got"},
	{"hist-byref-write", func(l string) string {
		return fmt.Sprintf("$got = %s;\n  hist_write($got);", l)
	}, "$got"},
	{"countable", func(l string) string {
		return fmt.Sprintf("$src = new CW();\n  $src->add(%s);\n  $sn = count($src);", l)
	}, "$src->get($sn - 1)"},
}

// classes of the sources and of the container routes; peek() returns the internal array
// of the container for inspection
const containerPrelude = `function hist_touch(&$x) { return count($x); }
function hist_write(&$x) { $x[] = 'H'; array_pop($x); return 1; }
class AA implements ArrayAccess {
  private $items = [];
  public function offsetExists($k): bool { return isset($this->items[$k]); }
  public function offsetGet($k): mixed { return $this->items[$k]; }
  public function offsetSet($k, $v): void { $this->items[$k] = $v; }
  public function offsetUnset($k): void { unset($this->items[$k]); }
  public function peek($k) { return $this->items[$k]; }
}
class HD { public $n = 1; }
class MG {
  private $data = [];
  public function __get($n) { return $this->data[$n]; }
  public function __set($n, $v) { $this->data[$n] = $v; }
  public function peek($k) { return $this->data[$k]; }
}
class IT implements Iterator {
  private $items = []; private $i = 0;
  public function add($v) { $this->items[] = $v; }
  public function current(): mixed { return $this->items[$this->i]; }
  public function key(): mixed { return $this->i; }
  public function next(): void { $this->i++; }
  public function rewind(): void { $this->i = 0; }
  public function valid(): bool { return $this->i < count($this->items); }
  public function peek($k) { return $this->items[$k]; }
}
class IA implements IteratorAggregate {
  private $items = [];
  public function add($v) { $this->items[] = $v; }
  public function getIterator(): Iterator { $it = new IT(); foreach ($this->items as $x) { $it->add($x); } return $it; }
  public function peek($k) { return $this->items[$k]; }
}
class CW implements Countable {
  private $items = [];
  public function add($v) { $this->items[] = $v; }
  public function count(): int { return count($this->items); }
  public function get($i) { return $this->items[$i]; }
  public function peek($k) { return $this->items[$k]; }
}
`

// container routes: one name is the container's internal array (inspected through peek),
// the other the caller's variable. Writes through `$box[...]...` itself are not used:
// indirect modification of an overloaded element has no effect by definition.
func boxStore(name, mk, store, peek string) route {
	return route{name, kindValue, []string{"orig"}, func(c *caseCtx) (string, string) {
		return "", fmt.Sprintf("$a = %s;\n  $box = %s;\n  %s;\n  %s", c.lit, mk, store, c.around(peek, "$a"))
	}}
}

func boxRead(name, mk, store, read, peek string) route {
	return route{name, kindValue, []string{"copy"}, func(c *caseCtx) (string, string) {
		return "", fmt.Sprintf("$t = %s;\n  $box = %s;\n  %s;\n  $b = %s;\n  %s", c.lit, mk, store, read, c.around(peek, "$b"))
	}}
}

var containerRoutes = []route{
	boxStore("aa-store", "new AA()", "$box['k'] = $a", "$box->peek('k')"),
	boxStore("aa-store-int", "new AA()", "$box[2] = $a", "$box->peek(2)"),
	boxRead("aa-read", "new AA()", "$box['k'] = $t", "$box['k']", "$box->peek('k')"),
	boxRead("aa-read-int", "new AA()", "$box[2] = $t", "$box[2]", "$box->peek(2)"),
	{"aa-read-twice", kindValue, both(), func(c *caseCtx) (string, string) {
		// two reads of the same element are independent of each other
		o, m := c.pick("$b1", "$b2")
		return "", fmt.Sprintf("$box = new AA();\n  $box['k'] = %s;\n  $b1 = $box['k'];\n  $b2 = $box['k'];\n  %s", c.lit, c.around(o, m))
	}},
	boxStore("magic-store", "new MG()", "$box->k = $a", "$box->peek('k')"),
	boxRead("magic-read", "new MG()", "$box->k = $t", "$box->k", "$box->peek('k')"),
	boxStore("iter-store", "new IT()", "$box->add($a)", "$box->peek(0)"),
	{"iter-read", kindValue, []string{"copy"}, func(c *caseCtx) (string, string) {
		return "", fmt.Sprintf("$box = new IT();\n  $box->add(%s);\n  foreach ($box as $v) {\n  %s\n  break;\n  }", c.lit, c.around("$box->peek(0)", "$v"))
	}},
	{"agg-read", kindValue, []string{"copy"}, func(c *caseCtx) (string, string) {
		return "", fmt.Sprintf("$box = new IA();\n  $box->add(%s);\n  foreach ($box as $v) {\n  %s\n  break;\n  }", c.lit, c.around("$box->peek(0)", "$v"))
	}},
	boxStore("countable-store", "new CW()", "$box->add($a)", "$box->peek(0)"),
	boxRead("countable-read", "new CW()", "$box->add($t)", "$box->get(count($box) - 1)", "$box->peek(0)"),
}

// object flavours for the "stored into / read from an object property" routes
func objStore(name, mk string) route {
	return route{name, kindValue, both(), func(c *caseCtx) (string, string) {
		o, m := c.pick("$a", "$h->arr")
		return "", fmt.Sprintf("$a = %s;\n  $h = %s;\n  $h->arr = $a;\n  %s", c.lit, mk, c.around(o, m))
	}}
}

func objRead(name, mk string) route {
	return route{name, kindValue, both(), func(c *caseCtx) (string, string) {
		o, m := c.pick("$h->arr", "$b")
		return "", fmt.Sprintf("$h = %s;\n  $h->arr = %s;\n  $b = $h->arr;\n  %s", mk, c.lit, c.around(o, m))
	}}
}

func objClone(name, mk string) route {
	return route{name, kindValue, both(), func(c *caseCtx) (string, string) {
		o, m := c.pick("$h->arr", "$k->arr")
		return "", fmt.Sprintf("$h = %s;\n  $h->arr = %s;\n  $k = clone $h;\n  %s", mk, c.lit, c.around(o, m))
	}}
}

var objectRoutes = []route{
	objStore("objcast-store", "(object)['n' => 1]"),
	objStore("json-store", "json_decode('{\"n\":1}')"),
	objStore("std-store", "new stdClass()"),
	objStore("dyn-store", "new HD()"),
	objRead("objcast-read", "(object)['n' => 1]"),
	objRead("json-read", "json_decode('{\"n\":1}')"),
	objRead("std-read", "new stdClass()"),
	objRead("dyn-read", "new HD()"),
	objClone("std-clone", "new stdClass()"),
	{"objcast-lit", kindValue, both(), func(c *caseCtx) (string, string) {
		o, m := c.pick("$a", "$h->arr")
		return "", fmt.Sprintf("$a = %s;\n  $h = (object)['arr' => $a];\n  %s", c.lit, c.around(o, m))
	}},
	{"objcast-two", kindValue, both(), func(c *caseCtx) (string, string) {
		// the same array stored into two class-less objects
		o, m := c.pick("$h->arr", "$h2->arr")
		return "", fmt.Sprintf("$a = %s;\n  $h = (object)['n' => 1];\n  $h2 = json_decode('{\"n\":2}');\n  $h->arr = $a;\n  $h2->arr = $a;\n  %s", c.lit, c.around(o, m))
	}},
	{"arrayobject-ctor", kindValue, []string{"orig"}, func(c *caseCtx) (string, string) {
		return "", fmt.Sprintf("$a = %s;\n  $h = new ArrayObject($a);\n  %s", c.lit, c.around("$h->getArrayCopy()", "$a"))
	}},
	{"arrayobject-copy", kindValue, []string{"copy"}, func(c *caseCtx) (string, string) {
		return "", fmt.Sprintf("$h = new ArrayObject(%s);\n  $b = $h->getArrayCopy();\n  %s", c.lit, c.around("$h->getArrayCopy()", "$b"))
	}},
	{"arrayobject-elem", kindValue, []string{"orig"}, func(c *caseCtx) (string, string) {
		return "", fmt.Sprintf("$a = %s;\n  $h = new ArrayObject();\n  $h['k'] = $a;\n  %s", c.lit, c.around("$h['k']", "$a"))
	}},
}

func init() { routes = append(append(routes, containerRoutes...), objectRoutes...) }
