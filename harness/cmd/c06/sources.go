package main

import "fmt"

// A source says where the array under test comes from before it travels the route. The
// default is the literal itself. The other sources first store the literal into a user
// object (ArrayAccess, __get/__set, Iterator, IteratorAggregate, Countable wrapper) and
// read it back; the route's first statement then consumes that expression, so that the
// route's own hop is the SECOND by-value hop of an array with such a provenance
// (origami tags arrays that came out of offsetGet; a tagged array must still be a value).
type source struct {
	name string
	pre  func(lit string) string // statements run at the top of the case function
	expr string                  // expression standing where the literal stood
}

var literalSource = &source{name: "", pre: func(string) string { return "" }}

var sources = []*source{
	{"aa", func(l string) string { return fmt.Sprintf("$src = new AA();\n  $src['k'] = %s;", l) }, "$src['k']"},
	{"aa-int", func(l string) string { return fmt.Sprintf("$src = new AA();\n  $src[3] = %s;", l) }, "$src[3]"},
	{"aa-var", func(l string) string {
		return fmt.Sprintf("$src = new AA();\n  $src['k'] = %s;\n  $got = $src['k'];", l)
	}, "$got"},
	{"aa-call", func(l string) string { return fmt.Sprintf("$src = new AA();\n  $src['k'] = %s;", l) }, "$src->offsetGet('k')"},
	{"aa-twice", func(l string) string {
		return fmt.Sprintf("$src = new AA();\n  $src['k'] = %s;\n  $got = $src['k'];\n  $src2 = new AA();\n  $src2['m'] = $got;", l)
	}, "$src2['m']"},
	{"magic", func(l string) string { return fmt.Sprintf("$src = new MG();\n  $src->k = %s;", l) }, "$src->k"},
	{"iter", func(l string) string {
		return fmt.Sprintf("$src = new IT();\n  $src->add(%s);\n  $got = null;\n  foreach ($src as $sv) { $got = $sv; }", l)
	}, "$got"},
	{"agg", func(l string) string {
		return fmt.Sprintf("$src = new IA();\n  $src->add(%s);\n  $got = null;\n  foreach ($src as $sv) { $got = $sv; }", l)
	}, "$got"},
	{"countable", func(l string) string {
		return fmt.Sprintf("$src = new CW();\n  $src->add(%s);\n  $sn = count($src);", l)
	}, "$src->get($sn - 1)"},
}

// classes of the sources and of the container routes; peek() returns the internal array
// of the container for inspection
const containerPrelude = `class AA implements ArrayAccess {
  private $items = [];
  public function offsetExists($k): bool { return isset($this->items[$k]); }
  public function offsetGet($k): mixed { return $this->items[$k]; }
  public function offsetSet($k, $v): void { $this->items[$k] = $v; }
  public function offsetUnset($k): void { unset($this->items[$k]); }
  public function peek($k) { return $this->items[$k]; }
}
class MG {
  private $data = [];
  public function __get($n) { return $this->data[$n]; }
  public function __set($n, $v) { $this->data[$n] = $v; }
  public function peek($k) { return $this->data[$k]; }
}
class IT implements Iterator {
  private $items = []; private $i = 0;
  public function add($v) { $this->items[] = $v; }
  public function current(): mixed { return $this->items[$this->i]; }
  public function key(): mixed { return $this->i; }
  public function next(): void { $this->i++; }
  public function rewind(): void { $this->i = 0; }
  public function valid(): bool { return $this->i < count($this->items); }
  public function peek($k) { return $this->items[$k]; }
}
class IA implements IteratorAggregate {
  private $items = [];
  public function add($v) { $this->items[] = $v; }
  public function getIterator(): Iterator { $it = new IT(); foreach ($this->items as $x) { $it->add($x); } return $it; }
  public function peek($k) { return $this->items[$k]; }
}
class CW implements Countable {
  private $items = [];
  public function add($v) { $this->items[] = $v; }
  public function count(): int { return count($this->items); }
  public function get($i) { return $this->items[$i]; }
  public function peek($k) { return $this->items[$k]; }
}
`

// container routes: one name is the container's internal array (inspected through peek),
// the other the caller's variable. Writes through `$box[...]...` itself are not used:
// indirect modification of an overloaded element has no effect by definition.
func boxStore(name, mk, store, peek string) route {
	return route{name, kindValue, []string{"orig"}, func(c *caseCtx) (string, string) {
		return "", fmt.Sprintf("$a = %s;\n  $box = %s;\n  %s;\n  %s", c.lit, mk, store, c.around(peek, "$a"))
	}}
}

func boxRead(name, mk, store, read, peek string) route {
	return route{name, kindValue, []string{"copy"}, func(c *caseCtx) (string, string) {
		return "", fmt.Sprintf("$t = %s;\n  $box = %s;\n  %s;\n  $b = %s;\n  %s", c.lit, mk, store, read, c.around(peek, "$b"))
	}}
}

var containerRoutes = []route{
	boxStore("aa-store", "new AA()", "$box['k'] = $a", "$box->peek('k')"),
	boxStore("aa-store-int", "new AA()", "$box[2] = $a", "$box->peek(2)"),
	boxRead("aa-read", "new AA()", "$box['k'] = $t", "$box['k']", "$box->peek('k')"),
	boxRead("aa-read-int", "new AA()", "$box[2] = $t", "$box[2]", "$box->peek(2)"),
	{"aa-read-twice", kindValue, both(), func(c *caseCtx) (string, string) {
		// two reads of the same element are independent of each other
		o, m := c.pick("$b1", "$b2")
		return "", fmt.Sprintf("$box = new AA();\n  $box['k'] = %s;\n  $b1 = $box['k'];\n  $b2 = $box['k'];\n  %s", c.lit, c.around(o, m))
	}},
	boxStore("magic-store", "new MG()", "$box->k = $a", "$box->peek('k')"),
	boxRead("magic-read", "new MG()", "$box->k = $t", "$box->k", "$box->peek('k')"),
	boxStore("iter-store", "new IT()", "$box->add($a)", "$box->peek(0)"),
	{"iter-read", kindValue, []string{"copy"}, func(c *caseCtx) (string, string) {
		return "", fmt.Sprintf("$box = new IT();\n  $box->add(%s);\n  foreach ($box as $v) {\n  %s\n  break;\n  }", c.lit, c.around("$box->peek(0)", "$v"))
	}},
	{"agg-read", kindValue, []string{"copy"}, func(c *caseCtx) (string, string) {
		return "", fmt.Sprintf("$box = new IA();\n  $box->add(%s);\n  foreach ($box as $v) {\n  %s\n  break;\n  }", c.lit, c.around("$box->peek(0)", "$v"))
	}},
	boxStore("countable-store", "new CW()", "$box->add($a)", "$box->peek(0)"),
	boxRead("countable-read", "new CW()", "$box->add($t)", "$box->get(count($box) - 1)", "$box->peek(0)"),
}

func init() { routes = append(routes, containerRoutes...) }
