package main

// Concurrent phase: the property quantifies over histories, not schedules, but the call sites
// that remember a resolution per VM (node/call.go, node/new.go, node/call_static_method.go,
// node/call_static_property.go) are shared by request VMs that a server runs at the same time.
// N goroutines, each with its own TempVM that defines its own Ka / Ia / fa (same names,
// different serials), hammer the same base-defined helper functions for a fixed number of
// iterations; every answer must be the caller's own serial. A wrong answer is a leak whatever
// the schedule was (sound); finding one is a matter of the schedule (not complete). No clock
// is consulted: iteration counts are fixed.

import (
	"encoding/json"
	"fmt"
	"os"
	"path/filepath"
	"runtime/debug"
	"strconv"
	"strings"
	"sync"

	"github.com/php-any/origami/data"
	"github.com/php-any/origami/runtime"
	"verif/lib"
	"verif/ori"
)

// helpers that can be invoked through the Go API (plain base-defined functions)
func concChannels(off map[string]bool) []channel {
	var out []channel
	for _, ch := range channels {
		if ch.Group == 't' && ch.Store == "" && ch.Name[0] == 't' && ch.Identity && !ch.Put && !off[ch.Name] {
			out = append(out, ch)
		}
	}
	return out
}

// concMain: c12 conc <out> <dir> <goroutines> <iterations> <quarantined>
func concMain(args []string) {
	if len(args) != 5 {
		fmt.Fprintln(os.Stderr, "usage: c12 conc <out> <dir> <goroutines> <iterations> <quarantined>")
		os.Exit(3)
	}
	out, err := os.OpenFile(args[0], os.O_CREATE|os.O_WRONLY|os.O_APPEND, 0o644)
	if err != nil {
		fmt.Fprintln(os.Stderr, err)
		os.Exit(3)
	}
	dir := args[1]
	_ = os.MkdirAll(dir, 0o755)
	nG, _ := strconv.Atoi(args[2])
	iters, _ := strconv.Atoi(args[3])
	off := offSet(args[4])
	var mu sync.Mutex
	emit := func(r record) {
		b, _ := json.Marshal(r)
		mu.Lock()
		out.Write(append(b, '\n'))
		mu.Unlock()
	}
	emit(record{T: "B", Case: "conc"})

	// sequential set-up through the ordinary executor plumbing
	c := Case{ID: "conc", Temps: 1, Names: 1}
	res := caseResult{}
	x := &executor{c: c, off: off, dir: dir, m: NewModel(1), prev: map[string]string{}, res: &res, seen: map[string]bool{}, defined: map[int]bool{}, dead: map[uintptr]bool{}, valOwners: map[string][]int{}}
	data.WriteOutput = func(s string) {}
	x.base, x.bp = ori.NewVM()
	x.base.SetThrowControl(func(acl data.Control) {})
	x.temps = make([]*runtime.TempVM, 2)
	if _, et := x.runScript(0, prelude(c.Names, off), filepath.Join(dir, "prelude.php")); et != "" {
		emit(record{T: "V", Case: "conc", Key: "setup-failed", What: "concurrent phase: prelude failed: " + et})
		emit(record{T: "E", Case: "conc"})
		return
	}
	chs := concChannels(off)
	vms := make([]*runtime.TempVM, nG)
	for g := 0; g < nG; g++ {
		x.newTemp(1)
		serial := g + 1
		for _, dk := range []byte{'c', 'i', 'f'} {
			src, _ := defSource(dk, 0, 0, serial)
			if _, et := x.runScript(1, src, filepath.Join(dir, fmt.Sprintf("def_%d.php", serial))); et != "" {
				emit(record{T: "V", Case: "conc", Key: "setup-failed", What: "concurrent phase: definition failed: " + et})
				emit(record{T: "E", Case: "conc"})
				return
			}
		}
		vms[g] = x.temps[1]
	}
	type bad struct{ ch, got, want string }
	var wg sync.WaitGroup
	seen := map[string]bool{}
	calls := make([]int, nG)
	for g := 0; g < nG; g++ {
		wg.Add(1)
		go func(g int) {
			defer wg.Done()
			vm := vms[g]
			want := strconv.Itoa(g + 1)
			cur := ""
			defer func() {
				if r := recover(); r != nil {
					site := strings.TrimPrefix(lib.PanicSite(string(debug.Stack())), strings.TrimSuffix(os.Getenv("VERIF_REPO"), "/")+"/")
					emit(record{T: "V", Case: "conc", Key: "panic@" + site, What: fmt.Sprintf("Go panic in the concurrent phase while request VM %d ran helper %s: %v", g, cur, r)})
				}
			}()
			fns := make([]data.FuncStmt, len(chs))
			for i, ch := range chs {
				f, ok := vm.GetFunc("c12t_" + ch.Name[2:] + "_a")
				if !ok {
					emit(record{T: "V", Case: "conc", Key: "lost/g.GetFunc/temp/holder-base", What: "concurrent phase: base helper c12t_" + ch.Name[2:] + "_a not resolvable through a temp VM"})
					return
				}
				fns[i] = f
			}
			for it := 0; it < iters; it++ {
				for i, ch := range chs {
					cur = ch.Name
					v, acl := fns[i].Call(vm.CreateContext(fns[i].GetVariables()))
					calls[g]++
					got := "-"
					if acl == nil {
						if val, ok := v.(data.Value); ok {
							got = val.AsString()
						}
					}
					if got != want {
						key := "leak/conc." + ch.Name + "/into-temp"
						what := fmt.Sprintf("concurrent phase (%d request VMs x %d iterations, each VM defines its own Ka/Ia/fa): helper %s run on request VM %d answered %q instead of its own definition #%s (iteration %d)", nG, iters, ch.Name, g, got, want, it)
						if _, err := strconv.Atoi(got); err != nil {
							key = "lost/conc." + ch.Name + "/temp/holder-own"
						}
						mu.Lock()
						dup := seen[key]
						seen[key] = true
						mu.Unlock()
						if !dup {
							emit(record{T: "V", Case: "conc", Key: key, What: what, Line: fmt.Sprintf("# concurrent phase: c12 conc <out> <dir> %d %d -", nG, iters)})
						}
					}
				}
			}
		}(g)
	}
	wg.Wait()
	total := 0
	for _, n := range calls {
		total += n
	}
	emit(record{T: "E", Case: "conc", Steps: total})
}
