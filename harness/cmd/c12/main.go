// Command c12 decides property C12 (request-scoped VMs are isolated) by stepping a set
// model alongside 1 base VM + up to 4 TempVMs and reading the full resolution table back
// after every step of generated histories.
//
//	c12                      driver (run by check.sh)
//	c12 worker <in> <out> <dir> <quarantined,…>   executes the cases of <in> (one per line)
//	c12 replay <file>        re-executes a recorded case verbosely (first non-comment line)
package main

import (
	"bufio"
	"encoding/json"
	"fmt"
	"os"
	"path/filepath"
	"strings"
	"sync"
	"time"

	"verif/lib"
)

type record struct {
	T     string `json:"t"` // B begin, E end, V violation
	Case  string `json:"case"`
	Key   string `json:"key,omitempty"`
	What  string `json:"what,omitempty"`
	Line  string `json:"line,omitempty"`
	Steps int    `json:"steps,omitempty"`
	Cells int    `json:"cells,omitempty"`
	Scr   int    `json:"scripts,omitempty"`
	TDefs int    `json:"tdefs,omitempty"`
	Coll  int    `json:"coll,omitempty"`
	Disc  int    `json:"disc,omitempty"`
	Reuse int    `json:"reuse,omitempty"`
	Abort string `json:"abort,omitempty"`
}

func offSet(s string) map[string]bool {
	m := map[string]bool{}
	for _, f := range strings.Split(s, ",") {
		if f != "" && f != "-" {
			m[f] = true
		}
	}
	return m
}

func workerMain(args []string) {
	if len(args) != 4 {
		fmt.Fprintln(os.Stderr, "usage: c12 worker <in> <out> <dir> <quarantined>")
		os.Exit(3)
	}
	in, err := os.Open(args[0])
	if err != nil {
		fmt.Fprintln(os.Stderr, err)
		os.Exit(3)
	}
	out, err := os.OpenFile(args[1], os.O_CREATE|os.O_WRONLY|os.O_APPEND, 0o644)
	if err != nil {
		fmt.Fprintln(os.Stderr, err)
		os.Exit(3)
	}
	dir := args[2]
	_ = os.MkdirAll(dir, 0o755)
	off := offSet(args[3])
	emit := func(r record) {
		b, _ := json.Marshal(r)
		out.Write(append(b, '\n')) // unbuffered: a dying worker leaves a complete log
	}
	sc := bufio.NewScanner(in)
	sc.Buffer(make([]byte, 1<<20), 1<<20)
	for sc.Scan() {
		line := strings.TrimSpace(sc.Text())
		if line == "" || line[0] == '#' {
			continue
		}
		c, err := parseCase(line)
		if err != nil {
			fmt.Fprintln(os.Stderr, err)
			os.Exit(3)
		}
		emit(record{T: "B", Case: c.ID})
		cdir := filepath.Join(dir, c.ID) // include/file caches are keyed by path: one directory per case
		_ = os.MkdirAll(cdir, 0o755)
		res, _ := runCase(c, off, cdir, false)
		_ = os.RemoveAll(cdir)
		for _, v := range res.Violations {
			emit(record{T: "V", Case: c.ID, Key: v.Key, What: v.What, Line: line})
		}
		emit(record{T: "E", Case: c.ID, Steps: res.Steps, Cells: res.Cells, Scr: res.Scripts, TDefs: res.TempDefs, Coll: res.Collisions, Disc: res.Discards, Reuse: res.Reused, Abort: res.Aborted})
	}
}

func replayMain(args []string) {
	if len(args) < 1 {
		fmt.Fprintln(os.Stderr, "usage: c12 replay <file> [quarantined,…]")
		os.Exit(3)
	}
	b, err := os.ReadFile(args[0])
	if err != nil {
		fmt.Fprintln(os.Stderr, err)
		os.Exit(3)
	}
	off := map[string]bool{}
	if len(args) > 1 {
		off = offSet(args[1])
	}
	verif := os.Getenv("VERIF_DIR")
	if verif == "" {
		verif = "/verif"
	}
	_ = os.MkdirAll(filepath.Join(verif, ".work"), 0o755)
	dir, err := os.MkdirTemp(filepath.Join(verif, ".work"), "c12-replay-")
	if err != nil {
		fmt.Fprintln(os.Stderr, err)
		os.Exit(3)
	}
	defer os.RemoveAll(dir)
	for _, line := range strings.Split(string(b), "\n") {
		line = strings.TrimSpace(line)
		if line == "" || line[0] == '#' {
			continue
		}
		c, err := parseCase(line)
		if err != nil {
			fmt.Fprintln(os.Stderr, err)
			os.Exit(3)
		}
		res, trace := runCase(c, off, dir, true)
		fmt.Println("case:", c.String())
		for _, t := range trace {
			fmt.Println(t)
		}
		fmt.Printf("steps=%d cells=%d violations=%d aborted=%q\n", res.Steps, res.Cells, len(res.Violations), res.Aborted)
		for _, v := range res.Violations {
			fmt.Println("VIOLATION", v.Key, "::", v.What)
		}
	}
}

// ---------------------------------------------------------------------------------
// driver

// battery is a fixed set of short histories that is always executed with every feature
// switched on. Known defects show up here (and are matched against KNOWN_FINDINGS by key);
// the features they quarantine are then switched off for the generated workload.
func battery() []Case {
	lines := []string{
		"w-func temps=2 names=2 prep=1 D.t1.f.a.0,T.t1.a,T.b.a,T.t2.a",
		"w-class temps=2 names=2 prep=1 D.t1.c.a.0,T.t1.a,T.b.a,T.t2.a",
		"w-iface temps=2 names=2 prep=1 D.t1.i.a.0,T.t1.a,T.b.a,T.t2.a",
		"w-discard temps=2 names=2 prep=1 D.t1.f.a.0,D.t1.c.a.0,D.t1.i.a.0,T.t1.a,X.t1,T.t1.a",
		"w-collide temps=2 names=2 prep=1 D.t1.f.a.0,D.t1.c.a.0,T.t1.a,D.t2.f.a.0,D.t2.c.a.0,T.t2.a,D.b.f.a.0,D.b.c.a.0,T.b.a",
		"w-sput temps=2 names=2 prep=1 D.t1.c.a.0,T.t1.a,T.b.a,T.t2.a,D.t2.c.a.1,T.t2.a,T.t1.a,D.b.c.a.0,T.b.a,T.t1.a",
		"w-eval temps=2 names=2 prep=1 D.t1.c.a.6,D.t1.i.a.4,D.t1.f.a.5,D.b.c.b.6,D.b.f.b.5,D.t2.c.b.6,X.t1,T.t1.*",
		"w-autoload-bs temps=2 names=2 prep=1 D.t1.c.a.8,D.t1.i.a.6,D.t2.c.a.10,D.t2.i.a.8,D.b.c.b.8,D.b.i.b.8,D.t1.c.b.11,D.t2.i.b.7,X.t1,T.t1.*",
		"w-noprep-autoload temps=2 names=2 prep=0 D.t1.c.a.9,D.t2.i.a.7,X.t1,D.t1.c.b.7,D.t2.i.b.5,X.t2,D.t2.c.a.11,D.t1.i.a.8,X.t1,D.t1.c.a.10,X.t2,D.t2.i.a.6",
		"w-autoload-c temps=2 names=2 prep=1 D.t1.c.a.7,D.b.c.b.7,D.t2.c.b.7,D.t2.c.a.7,X.t1,T.t1.*",
		"w-autoload-i temps=2 names=2 prep=1 D.t1.i.a.5,D.b.i.b.5,D.t2.i.b.5,D.t2.i.a.5,X.t1,T.t1.*",
		"w-noprep-get temps=2 names=2 prep=0 G.t1.a",
		"w-noprep-def temps=2 names=2 prep=0 D.b.c.a.0,G.t1.a,D.t1.c.b.0,G.t1.b,G.t2.b",
		"w-noprep-script temps=2 names=2 prep=0 D.b.f.a.0,C.t1.a,N.t1.a,L.t1.c.b",
	}
	var out []Case
	for _, l := range lines {
		c, err := parseCase(l)
		if err != nil {
			panic(err)
		}
		out = append(out, c)
	}
	return out
}

// churnCases are request-churn histories: many create / define / use / discard cycles of
// request VMs, as a long-running hot-reload server produces them. Every cycle defines a name
// through a fresh temp VM (the read-back after the definition runs every base-defined helper
// on it), discards the VM (unreachable + GC, see discardTemp) and lets the slot's next
// incarnation - which defines nothing, or something else - be read back through the same
// helpers. Anything inside origami that remembers a finished request VM by a stale identity
// (address, recycled id, pooled object) is met here.
func churnCases(cycles int, off []string) []Case {
	var out []Case
	add := func(id, only string, ops []Op) {
		out = append(out, Case{ID: id, Temps: 2, Names: 2, Only: only, Ops: ops})
	}
	isOff := map[string]bool{}
	for _, f := range off {
		isOff[f] = true
	}
	// one pair of histories per helper channel, with only that helper active
	for _, ch := range channels {
		if ch.Group != 't' || isOff[ch.Name] || !ch.Identity {
			continue // only helpers that resolve to a definition can remember one
		}
		dk := ch.Kind
		// one slot: define a, discard, (every other incarnation defines nothing) discard, ...
		var ops []Op
		for i := 0; i < cycles; i++ {
			ops = append(ops, Op{K: 'D', VM: 1, DK: dk, Name: 0, Var: i % nVariants(dk)}, Op{K: 'X', VM: 1})
			if i%2 == 1 {
				ops = append(ops, Op{K: 'T', VM: 1, Name: 0}, Op{K: 'X', VM: 1})
			}
		}
		add("k-"+ch.Name+"-one", ch.Name, ops)
		// two slots alternating, the other slot defines the second name
		ops = nil
		for i := 0; i < cycles/2; i++ {
			a, b := 1+i%2, 2-i%2
			ops = append(ops, Op{K: 'D', VM: a, DK: dk, Name: 0}, Op{K: 'D', VM: b, DK: dk, Name: 1}, Op{K: 'X', VM: a}, Op{K: 'O', VM: a, Name: 0}, Op{K: 'X', VM: b})
		}
		add("k-"+ch.Name+"-two", ch.Name, ops)
	}
	// all kinds and all helpers at once, with a base definition of the second name in view
	var ops []Op
	ops = append(ops, Op{K: 'D', VM: 0, DK: 'c', Name: 1}, Op{K: 'D', VM: 0, DK: 'f', Name: 1}, Op{K: 'D', VM: 0, DK: 'i', Name: 1})
	for i := 0; i < cycles/2; i++ {
		vm := 1 + i%2
		ops = append(ops, Op{K: 'D', VM: vm, DK: 'c', Name: 0, Var: i % 5}, Op{K: 'D', VM: vm, DK: 'f', Name: 0, Var: i % 3}, Op{K: 'D', VM: vm, DK: 'i', Name: 0, Var: i % 3},
			Op{K: 'X', VM: vm}, Op{K: 'T', VM: vm, Name: -1})
	}
	add("k-all", "", ops)
	return out
}

type totals struct {
	mu                                        sync.Mutex
	cases, steps, cells, scripts, tdefs, coll int
	disc, reused, aborted, nontrivialCases    int
}

func runChunks(e *lib.Env, label string, cases []Case, off []string, tot *totals, distinct *lib.DistinctCounter, chunkSize int) {
	if len(cases) == 0 {
		return
	}
	byID := map[string]Case{}
	for _, c := range cases {
		byID[c.ID] = c
	}
	if chunkSize > 400 {
		chunkSize = 400 // bounded worker lifetime: whatever origami retains process-wide stays small
	}
	nChunks := (len(cases) + chunkSize - 1) / chunkSize
	offArg := strings.Join(off, ",")
	if offArg == "" {
		offArg = "-"
	}
	lib.ParallelMap(nChunks, 0, func(ci int) {
		lo, hi := ci*chunkSize, (ci+1)*chunkSize
		if hi > len(cases) {
			hi = len(cases)
		}
		todo := cases[lo:hi]
		for attempt := 0; len(todo) > 0; attempt++ {
			base := filepath.Join(e.Scratch, fmt.Sprintf("%s-%d-%d", label, ci, attempt))
			var sb strings.Builder
			for _, c := range todo {
				sb.WriteString(c.String() + "\n")
			}
			_ = os.WriteFile(base+".in", []byte(sb.String()), 0o644)
			r := lib.RunProc(lib.ProcSpec{
				Argv:    []string{os.Args[0], "worker", base + ".in", base + ".out", base + ".d", offArg},
				Dir:     e.Scratch,
				Env:     []string{"GOMAXPROCS=2"}, // 16 workers run side by side; forced collections with 16 GC threads each only burn CPU
				Timeout: 4 * time.Hour,            // hang guard only (a loaded machine makes a chunk 10x slower)
			})
			done := map[string]bool{}
			begun := ""
			if f, err := os.Open(base + ".out"); err == nil {
				sc := bufio.NewScanner(f)
				sc.Buffer(make([]byte, 4<<20), 4<<20)
				for sc.Scan() {
					var rec record
					if json.Unmarshal(sc.Bytes(), &rec) != nil {
						continue
					}
					switch rec.T {
					case "B":
						begun = rec.Case
					case "V":
						e.Violation(rec.Key, rec.What, "txt", []byte("# C12 history; re-execute with: .build/c12 replay <this file>\n# "+rec.Key+"\n"+rec.Line+"\n"))
					case "E":
						done[rec.Case] = true
						begun = ""
						tot.mu.Lock()
						tot.cases++
						tot.steps += rec.Steps
						tot.cells += rec.Cells
						tot.scripts += rec.Scr
						tot.tdefs += rec.TDefs
						tot.coll += rec.Coll
						tot.disc += rec.Disc
						tot.reused += rec.Reuse
						if rec.Abort != "" {
							tot.aborted++
						}
						if rec.TDefs > 0 && rec.Abort == "" {
							tot.nontrivialCases++
							distinct.Add(lib.Hash(byID[rec.Case].String()[len(rec.Case):]))
						}
						tot.mu.Unlock()
					}
				}
				f.Close()
			}
			_ = os.RemoveAll(base + ".d")
			_ = os.Remove(base + ".in")
			_ = os.Remove(base + ".out")
			var rest []Case
			for _, c := range todo {
				if !done[c.ID] && c.ID != begun {
					rest = append(rest, c)
				}
			}
			if r.TimedOut {
				e.Inconclusive(fmt.Sprintf("worker for chunk %s-%d hit the watchdog; %d cases not executed", label, ci, len(rest)))
				return
			}
			if begun != "" {
				// the worker died inside this case
				c := byID[begun]
				site := strings.TrimPrefix(lib.PanicSite(r.Stderr), strings.TrimSuffix(e.Repo, "/")+"/")
				_, why := lib.GoCrash(r)
				e.Violation("crash@"+site, fmt.Sprintf("the worker process died (exit %d %s) while executing case: %s | %s", r.Exit, r.Signal, c.String(), why),
					"txt", []byte("# C12 history; re-execute with: .build/c12 replay <this file>\n# crash@"+site+"\n"+c.String()+"\n"))
			} else if r.Exit != 0 && len(rest) > 0 {
				e.Inconclusive(fmt.Sprintf("worker for chunk %s-%d exited %d outside a case: %s", label, ci, r.Exit, strings.TrimSpace(r.Stderr)))
				return
			}
			if len(rest) == len(todo) {
				e.Inconclusive(fmt.Sprintf("worker for chunk %s-%d made no progress: %s", label, ci, strings.TrimSpace(r.Stderr)))
				return
			}
			todo = rest
		}
	})
}

// runConc runs the concurrent phase in a child process and returns the number of helper calls made.
func runConc(e *lib.Env, off []string, goroutines, iters int) int {
	offArg := strings.Join(off, ",")
	if offArg == "" {
		offArg = "-"
	}
	base := filepath.Join(e.Scratch, "conc")
	r := lib.RunProc(lib.ProcSpec{
		Argv:    []string{os.Args[0], "conc", base + ".out", base + ".d", fmt.Sprint(goroutines), fmt.Sprint(iters), offArg},
		Dir:     e.Scratch,
		Timeout: 4 * time.Hour, // hang guard only (a loaded machine makes a chunk 10x slower)
	})
	calls, ended := 0, false
	if f, err := os.Open(base + ".out"); err == nil {
		sc := bufio.NewScanner(f)
		sc.Buffer(make([]byte, 4<<20), 4<<20)
		for sc.Scan() {
			var rec record
			if json.Unmarshal(sc.Bytes(), &rec) != nil {
				continue
			}
			switch rec.T {
			case "V":
				e.Violation(rec.Key, rec.What, "txt", []byte("# C12 concurrent phase (no history to replay; re-run: .build/c12 conc <out> <dir> "+fmt.Sprint(goroutines)+" "+fmt.Sprint(iters)+" -)\n# "+rec.Key+"\n# "+rec.What+"\n"))
			case "E":
				ended = true
				calls = rec.Steps
			}
		}
		f.Close()
	}
	_ = os.RemoveAll(base + ".d")
	_ = os.Remove(base + ".out")
	switch {
	case r.TimedOut:
		e.Inconclusive("the concurrent phase hit the watchdog")
	case !ended:
		site := strings.TrimPrefix(lib.PanicSite(r.Stderr), strings.TrimSuffix(e.Repo, "/")+"/")
		_, why := lib.GoCrash(r)
		e.Violation("crash@"+site, fmt.Sprintf("the concurrent phase (%d request VMs hammering the base-defined helpers) died (exit %d %s): %s", goroutines, r.Exit, r.Signal, why), "txt", []byte("# C12 concurrent phase\n"+r.Stderr+"\n"))
	}
	return calls
}

func main() {
	if len(os.Args) > 1 {
		switch os.Args[1] {
		case "worker":
			workerMain(os.Args[2:])
			return
		case "replay":
			replayMain(os.Args[2:])
			return
		case "conc":
			concMain(os.Args[2:])
			return
		}
	}
	e := lib.Init("C12", "exploration")
	e.RunScriptWitnesses()
	tot := &totals{}
	var distinct lib.DistinctCounter

	phase := map[string]float64{}
	t0 := time.Now()
	lap := func(name string) {
		phase[name] = float64(int(time.Since(t0).Seconds()*10)) / 10
		t0 = time.Now()
	}
	// 1. witness battery, everything enabled
	runChunks(e, "battery", battery(), nil, tot, &distinct, 1)
	var off []string
	for _, f := range quarantinable() {
		if e.Quarantined(f) {
			off = append(off, f)
		}
	}
	lap("battery")
	noPrepOff := false
	for _, f := range off {
		if f == "noprep" {
			noPrepOff = true
		}
	}

	// 2. exhaustive short histories: 2 temp VMs, 3 names
	maxLen := e.Pick(3, 4)
	// up to sepLen with look up / instantiate / call as separate operations, the last length
	// with the three folded into one observation operation ("O")
	sepLen := maxLen - 1
	ex := enumerate(2, 3, sepLen, false)
	for _, c := range enumerate(2, 3, maxLen, true) {
		if len(c.Ops) == maxLen {
			ex = append(ex, c)
		}
	}
	for i := range ex {
		ex[i].ID = fmt.Sprintf("x%d", i)
	}
	nEx := len(ex)
	runChunks(e, "exh", ex, off, tot, &distinct, (len(ex)+63)/64+1)

	lap("exhaustive")
	// 2b. request-churn histories (create / define / use / discard cycles)
	cycles := e.Pick(60, 200)
	churn := churnCases(cycles, off)
	if !noPrepOff {
		for i, c := range churnCases(cycles, off) {
			if i%4 == 0 {
				c.ID += "-noprep"
				c.NoPrep = true
				churn = append(churn, c)
			}
		}
	}
	runChunks(e, "churn", churn, off, tot, &distinct, 1)
	lap("churn")
	// 3. seeded histories of length 40: 1 base + 4 temps, 8 names
	nSeeded := e.Pick(300, 6000)
	r := e.Rand("seeded")
	seeded := make([]Case, 0, nSeeded)
	var helperOn []string
	for _, ch := range channels {
		on := ch.Group == 't'
		for _, f := range off {
			if f == ch.Name {
				on = false
			}
		}
		if on {
			helperOn = append(helperOn, ch.Name)
		}
	}
	for i := 0; i < nSeeded; i++ {
		temps := 4
		if i%5 == 4 {
			temps = 2 + r.Intn(2)
		}
		noPrep := !noPrepOff && i%4 == 3
		sc := seededCase(r, fmt.Sprintf("s%d", i), temps, 8, 40, noPrep)
		if i%3 == 2 && len(helperOn) > 0 {
			sc.Only = helperOn[r.Intn(len(helperOn))]
		}
		seeded = append(seeded, sc)
	}
	runChunks(e, "seed", seeded, off, tot, &distinct, (len(seeded)+63)/64+1)

	lap("seeded")
	// 4. concurrent phase
	concG, concIters := 8, e.Pick(40000, 300000)
	concCalls := runConc(e, off, concG, concIters)
	lap("concurrent")
	e.Extra("concurrent_request_vms", concG)
	e.Extra("concurrent_helper_calls", concCalls)
	e.Extra("phase_wall_s", phase)
	e.Extra("histories_exhaustive", nEx)
	e.Extra("exhaustive_max_length", maxLen)
	e.Extra("histories_seeded", nSeeded)
	e.Extra("histories_churn", len(churn))
	e.Extra("churn_cycles_per_history", cycles)
	e.Extra("histories_battery", len(battery()))
	e.Extra("steps", tot.steps)
	e.Extra("table_cells_compared", tot.cells)
	e.Extra("scripts_run", tot.scripts)
	e.Extra("temp_definitions", tot.tdefs)
	e.Extra("steps_with_collision_in_view", tot.coll)
	e.Extra("discards", tot.disc)
	e.Extra("discards_followed_by_address_reuse", tot.reused)
	e.Extra("histories_aborted", tot.aborted)
	e.Extra("quarantined_channels", off)
	e.Assume(
		"definitions are made by parsing source on a parser bound to the VM (PrepareParse/Clone + ParseString) or by include of a unique file, then running the program on a context of that VM",
		"class, interface and function names of the pool are spelled differently (K*/I*/f*): cross-kind collisions are outside the compared domain",
		"inside a temp VM whose own definition collides with a base definition (or an earlier own one) any of the colliding definitions is accepted; all other VMs' views are asserted exactly",
		"the base VM is never asked to define a name it already holds (duplicate registration is C10's subject)",
		"constants, globals, the file cache and namespaces (intended write-through sharing) are not in the alphabet",
	)
	samples := []any{}
	for i := 0; i < len(ex) && len(samples) < 3; i += len(ex)/3 + 1 {
		samples = append(samples, ex[i].String())
	}
	for i := 0; i < len(seeded) && len(samples) < 6; i += len(seeded)/3 + 1 {
		samples = append(samples, seeded[i].String())
	}
	e.Finish(lib.Coverage{
		Evaluations:        tot.cases,
		DistinctNontrivial: distinct.N(),
		Rule:               "distinct histories (up to case id) that ran to the end and contain at least one definition made through a temp VM, so that the leak and visibility assertions of every subsequent full-table read-back have a subject",
		Samples:            samples,
		Exhaustive:         false,
	})
}
