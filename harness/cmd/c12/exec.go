package main

// Execution of one history against the real VMs (1 base *runtime.VM + TempVMs) with the
// set model stepped alongside and the whole resolution table read back after every step.
// Only exported identifiers of origami are used.

import (
	"fmt"
	"os"
	"path/filepath"
	"reflect"
	"regexp"
	goruntime "runtime"
	"runtime/debug"
	"strconv"
	"strings"

	"github.com/php-any/origami/data"
	"github.com/php-any/origami/parser"
	"github.com/php-any/origami/runtime"
	"verif/lib"
	"verif/ori"
)

// ---------------------------------------------------------------------------------
// observation channels

type channel struct {
	Name     string
	Kind     byte // kind of definition the channel resolves
	Identity bool // the observation identifies the definition (serial) rather than mere existence
	Group    byte // 'g' Go API, 's' fresh script, 't' persistent base-defined helper (function or static method)
	Snippet  string
	Body     string // helper body (group 't'); %s = name letter
	// Store (helpers named c.*): the helper is a closure CREATED on the base VM and kept there -
	// "prop" in a static property, "arr" in a static array of callbacks, "fac" returned by a base
	// function and then kept in the array, "cuf" kept in the array and invoked by call_user_func.
	// A temp VM invokes it; its body must resolve (and define) through the invoking VM.
	Store string
	// Prop: the observation is the VALUE of the class's static property $n. Values are unique
	// (initial value = the definition's serial, every write stores a fresh number), so a value
	// identifies the definition(s) that may hold it. Put: the helper WRITES a fresh number.
	Prop bool
	Put  bool
}

var channels = []channel{
	{Name: "g.GetClass", Kind: 'c', Identity: true, Group: 'g'},
	{Name: "g.GetOrLoadClass", Kind: 'c', Identity: true, Group: 'g'},
	{Name: "g.LoadPkg.class", Kind: 'c', Identity: true, Group: 'g'},
	{Name: "g.GetInterface", Kind: 'i', Identity: true, Group: 'g'},
	{Name: "g.GetOrLoadInterface", Kind: 'i', Identity: true, Group: 'g'},
	{Name: "g.LoadPkg.interface", Kind: 'i', Identity: true, Group: 'g'},
	{Name: "g.GetFunc", Kind: 'f', Identity: true, Group: 'g'},

	{Name: "s.cex", Kind: 'c', Group: 's', Snippet: "$r=class_exists('K%s',false)?'Y':'N';"},
	{Name: "s.cexa", Kind: 'c', Group: 's', Snippet: "$r=class_exists('K%s')?'Y':'N';"},
	{Name: "s.new", Kind: 'c', Identity: true, Group: 's', Snippet: "$o=new K%s();$r=$o->id();"},
	{Name: "s.newv", Kind: 'c', Identity: true, Group: 's', Snippet: "$c='K%s';$o=new $c();$r=$o->id();"},
	{Name: "s.static", Kind: 'c', Identity: true, Group: 's', Snippet: "$r=K%s::sid();"},
	{Name: "s.kconst", Kind: 'c', Identity: true, Group: 's', Snippet: "$r=K%s::KID;"},
	{Name: "s.sprop", Kind: 'c', Identity: true, Prop: true, Group: 's', Snippet: "$r=K%s::$n;"},
	{Name: "s.iex", Kind: 'i', Group: 's', Snippet: "$r=interface_exists('I%s')?'Y':'N';"},
	{Name: "s.iconst", Kind: 'i', Identity: true, Group: 's', Snippet: "$r=I%s::IID;"},
	{Name: "s.fex", Kind: 'f', Group: 's', Snippet: "$r=function_exists('f%s')?'Y':'N';"},
	{Name: "s.call", Kind: 'f', Identity: true, Group: 's', Snippet: "$r=f%s();"},

	{Name: "t.cex", Kind: 'c', Group: 't', Body: "return class_exists('K%s', false) ? 'Y' : 'N';"},
	{Name: "t.new", Kind: 'c', Identity: true, Group: 't', Body: "$o = new K%s(); return $o->id();"},
	{Name: "t.newv", Kind: 'c', Identity: true, Group: 't', Body: "$c = 'K%s'; $o = new $c(); return $o->id();"},
	{Name: "t.static", Kind: 'c', Identity: true, Group: 't', Body: "return K%s::sid();"},
	{Name: "t.kconst", Kind: 'c', Identity: true, Group: 't', Body: "return K%s::KID;"},
	{Name: "m.new", Kind: 'c', Identity: true, Group: 't', Body: "$o = new K%s(); return $o->id();"},
	{Name: "t.sput", Kind: 'c', Identity: true, Prop: true, Put: true, Group: 't', Body: "K%s::$n = $v; return 'S';"},
	{Name: "t.sprop", Kind: 'c', Identity: true, Prop: true, Group: 't', Body: "return K%s::$n;"},
	{Name: "t.iex", Kind: 'i', Group: 't', Body: "return interface_exists('I%s') ? 'Y' : 'N';"},
	{Name: "t.iconst", Kind: 'i', Identity: true, Group: 't', Body: "return I%s::IID;"},
	{Name: "t.fex", Kind: 'f', Group: 't', Body: "return function_exists('f%s') ? 'Y' : 'N';"},
	{Name: "t.call", Kind: 'f', Identity: true, Group: 't', Body: "return f%s();"},
	{Name: "m.call", Kind: 'f', Identity: true, Group: 't', Body: "return f%s();"},

	{Name: "c.cex", Kind: 'c', Group: 't', Store: "arr", Body: "return class_exists('K%s', false) ? 'Y' : 'N';"},
	{Name: "c.new", Kind: 'c', Identity: true, Group: 't', Store: "prop", Body: "$o = new K%s(); return $o->id();"},
	{Name: "c.static", Kind: 'c', Identity: true, Group: 't', Store: "fac", Body: "return K%s::sid();"},
	{Name: "c.kconst", Kind: 'c', Identity: true, Group: 't', Store: "cuf", Body: "return K%s::KID;"},
	{Name: "c.iconst", Kind: 'i', Identity: true, Group: 't', Store: "prop", Body: "return I%s::IID;"},
	{Name: "c.fex", Kind: 'f', Group: 't', Store: "arr", Body: "return function_exists('f%s') ? 'Y' : 'N';"},
	{Name: "c.call", Kind: 'f', Identity: true, Group: 't', Store: "prop", Body: "return f%s();"},
	{Name: "c.call2", Kind: 'f', Identity: true, Group: 't', Store: "arr", Body: "$g = function() { return f%s(); }; return $g();"},
}

// helperRef is how a fresh script invokes the persistent helper of a channel.
func (c channel) helperRef(letter string) string {
	short := c.Name[2:]
	if c.Name[0] == 'm' {
		return "C12T::" + short + "_" + letter + "()"
	}
	return "c12t_" + short + "_" + letter + "()"
}

func (c channel) snippet(letter string) string { return c.snippetW(letter, 0) }

func (c channel) snippetW(letter string, w int) string {
	if c.Put {
		return "$r=c12t_" + c.Name[2:] + "_" + letter + "(" + strconv.Itoa(w) + ");"
	}
	if c.Store != "" {
		key := c.Name[2:] + "_" + letter
		switch c.Store {
		case "prop":
			return "$f=C12Hub::$p_" + key + ";$r=$f();"
		case "cuf":
			return "$r=call_user_func(C12Hub::$cbs['" + key + "']);"
		}
		return "$f=C12Hub::$cbs['" + key + "'];$r=$f();"
	}
	if c.Group == 't' {
		return "$r=" + c.helperRef(letter) + ";"
	}
	return fmt.Sprintf(c.Snippet, letter)
}

// features that a known finding may quarantine: every helper channel, plus "noprep"
func quarantinable() []string {
	out := []string{"noprep", "autoload.c", "autoload.i"}
	for t := 0; t < 5; t++ {
		out = append(out, "autoload.c."+autoloadTrigName('c', t))
	}
	for t := 0; t < 4; t++ {
		out = append(out, "autoload.i."+autoloadTrigName('i', t))
	}
	for _, c := range channels {
		if c.Group == 't' {
			out = append(out, c.Name)
		}
	}
	return out
}

// prelude is the code loaded on the base VM before the history starts: neutral parents and
// the persistent helpers. The helpers are parsed while no pool name exists anywhere, so every
// reference inside them is resolved when they run, through the VM of the running code.
func prelude(names int, off map[string]bool) string {
	var sb strings.Builder
	sb.WriteString("<?php\nclass C12Base { public function base0() { return 0; } }\ninterface C12IBase { }\n")
	var methods, props, closures strings.Builder
	for n := 0; n < names; n++ {
		l := nameLetter(n)
		for _, c := range channels {
			if c.Group != 't' || off[c.Name] {
				continue
			}
			body := fmt.Sprintf(c.Body, l)
			key := c.Name[2:] + "_" + l
			switch {
			case c.Store == "prop":
				fmt.Fprintf(&props, "  public static $p_%s = null;\n", key)
				fmt.Fprintf(&closures, "C12Hub::$p_%s = function() { %s };\n", key, body)
			case c.Store == "fac":
				fmt.Fprintf(&closures, "function c12_mk_%s() { return function() { %s }; }\nC12Hub::$cbs['%s'] = c12_mk_%s();\n", key, body, key, key)
			case c.Store != "":
				fmt.Fprintf(&closures, "C12Hub::$cbs['%s'] = function() { %s };\n", key, body)
			case c.Name[0] == 'm':
				fmt.Fprintf(&methods, "  public static function %s() { %s }\n", key, body)
			case c.Put:
				fmt.Fprintf(&sb, "function c12t_%s($v) { %s }\n", key, body)
			default:
				fmt.Fprintf(&sb, "function c12t_%s() { %s }\n", key, body)
			}
		}
	}
	sb.WriteString("class C12T {\n" + methods.String() + "}\n")
	sb.WriteString("class C12Hub {\n  public static $cbs = [];\n  public static $auto = [];\n" + props.String() + "}\n")
	sb.WriteString(closures.String())
	// definition route through a base-created closure: include from inside the closure. (The
	// closures whose body declares a function are created by loadDeclClosures.)
	sb.WriteString("C12Hub::$cbs['inc'] = function($p) { include $p; return 1; };\n")
	// definition route "autoload": a callback registered on the base VM (temp VMs use the base
	// VM's callback list) includes the file the harness points it to for the duration of one look-up
	sb.WriteString(`C12Hub::$cbs['auto'] = function($c) { if (substr($c, 0, 1) == '\\') { $c = substr($c, 1); } $p = C12Hub::$auto[$c] ?? ''; if ($p != '') { include $p; } };` + "\nspl_autoload_register(C12Hub::$cbs['auto']);\n")
	return sb.String()
}

func sharedSerial(name int) int { return 9000 + name }

// loadDeclClosures creates, on the base VM, one closure per name whose body declares f<name>.
// Each is parsed under its own path def_<9000+n>.php so that the declaration's source carries
// the shared serial. Not loaded by `include`: node/include_statement.go keeps the value an
// included file evaluates to in a process-wide cache keyed by path, and that value would be a
// closure that references the whole base VM of the case (the worker's heap then grows by one
// VM per case and every forced collection gets slower).
func (x *executor) loadDeclClosures() string {
	for n := 0; n < x.c.Names; n++ {
		if _, et := x.runScript(0, declClosureFile(n), filepath.Join(x.dir, fmt.Sprintf("def_%d.php", sharedSerial(n)))); et != "" {
			return et
		}
	}
	return ""
}

// declClosureFile is the source that creates (on the base VM) the closure whose body declares f<name>.
func declClosureFile(name int) string {
	l := nameLetter(name)
	return "<?php\nC12Hub::$cbs['decl_" + l + "'] = function() { function f" + l + "() { return " + strconv.Itoa(sharedSerial(name)) + "; } return 1; };\n"
}

// definition routes
const (
	routeDirect      = iota // source parsed on a parser bound to the VM and run there
	routeInclude            // include of a unique file from a fresh script on the VM
	routeClosureInc         // include of a unique file from inside a base-created closure invoked on the VM
	routeClosureDecl        // function declared by the body of a base-created closure invoked on the VM
	routeAutoload           // an autoload callback registered on the base VM includes the file when the VM looks the name up
	routeEval               // eval('<definition>') from a fresh script on the VM; may be refused (then nothing is defined)
)

func defSource(dk byte, name, variant, serial int) (src string, route int) {
	l := nameLetter(name)
	s := strconv.Itoa(serial)
	switch dk {
	case 'c':
		body := " { const KID = " + s + "; public static $n = " + s + "; public function id() { return " + s + "; } public static function sid() { return " + s + "; } }"
		switch variant {
		case 1:
			return "<?php\nclass K" + l + " extends C12Base" + body + "\n", routeDirect
		case 2:
			return "<?php\nclass K" + l + " implements C12IBase" + body + "\n", routeDirect
		case 3:
			return "<?php\nclass K" + l + body + "\n", routeInclude
		case 4:
			return "<?php\nfinal class K" + l + body + "\n", routeDirect
		case 5:
			return "<?php\nclass K" + l + body + "\n", routeClosureInc
		case 6:
			return "<?php\nclass K" + l + body + "\n", routeEval
		case 7, 8, 9, 10, 11: // autoload, look-up form = variant-7 (see autoloadTrigger)
			return "<?php\nclass K" + l + body + "\n", routeAutoload
		}
		return "<?php\nclass K" + l + body + "\n", routeDirect
	case 'i':
		body := " { const IID = " + s + "; }"
		switch variant {
		case 1:
			return "<?php\ninterface I" + l + " extends C12IBase" + body + "\n", routeDirect
		case 2:
			return "<?php\ninterface I" + l + body + "\n", routeInclude
		case 3:
			return "<?php\ninterface I" + l + body + "\n", routeClosureInc
		case 4:
			return "<?php\ninterface I" + l + body + "\n", routeEval
		case 5, 6, 7, 8: // autoload, look-up form = variant-5
			return "<?php\ninterface I" + l + body + "\n", routeAutoload
		}
		return "<?php\ninterface I" + l + body + "\n", routeDirect
	default:
		switch variant {
		case 1:
			return "<?php\nfunction f" + l + "() { return " + s + "; }\n", routeInclude
		case 2:
			return "<?php\nfunction f" + l + "(): int { $x = " + s + "; return $x; }\n", routeDirect
		case 3:
			return "<?php\nfunction f" + l + "() { return " + s + "; }\n", routeClosureInc
		case 4:
			return declClosureFile(name), routeClosureDecl
		case 5:
			return "<?php\nfunction f" + l + "() { return " + s + "; }\n", routeEval
		}
		return "<?php\nfunction f" + l + "() { return " + s + "; }\n", routeDirect
	}
}

// ---------------------------------------------------------------------------------
// executor

type finding struct {
	Key  string
	What string
}

type caseResult struct {
	Steps      int
	Cells      int // table cells compared
	Scripts    int // scripts run
	TempDefs   int
	Collisions int // steps after which some (vm,kind,name) had more than one candidate
	Discards   int
	Reused     int // discards after which the slot's new TempVM sits at the address of a discarded one
	Aborted    string
	Violations []finding
}

type executor struct {
	c         Case
	off       map[string]bool // quarantined features
	dir       string          // scratch directory (definition files for the include route)
	base      *runtime.VM
	bp        *parser.Parser
	temps     []*runtime.TempVM // index 1..
	m         *Model
	out       strings.Builder
	unc       data.Control
	prev      map[string]string // vm|chan|name -> last observed value
	res       *caseResult
	seen      map[string]bool
	step      int
	curOp     string
	defined   map[int]bool     // names defined by some VM so far
	valOwners map[string][]int // static-property value -> definitions that may hold it
	wseq      int
	dead      map[uintptr]bool // addresses of the TempVMs this history discarded (numbers only, no references)
	trace     []string         // human-readable log (filled only when verbose)
	verb      bool
}

var serialRe = regexp.MustCompile(`def_(\d+)\.php`)

func serialOf(v any) string {
	g, ok := v.(interface{ GetFrom() data.From })
	if !ok || g.GetFrom() == nil {
		return "foreign"
	}
	m := serialRe.FindStringSubmatch(g.GetFrom().GetSource())
	if m == nil {
		return "foreign"
	}
	return m[1]
}

func isNilValue(v any) bool {
	if v == nil {
		return true
	}
	switch x := v.(type) {
	case data.ClassStmt:
		return x == nil
	}
	return false
}

func (x *executor) vm(i int) data.VM {
	if i == 0 {
		return x.base
	}
	return x.temps[i]
}

func (x *executor) newTemp(i int) {
	t := runtime.NewTempVM(x.base).(*runtime.TempVM)
	if !x.c.NoPrep {
		t.PrepareParse(x.bp)
	}
	x.temps[i] = t
}

func vmAddr(t *runtime.TempVM) uintptr { return reflect.ValueOf(t).Pointer() }

// dropTemp forgets the TempVM of slot i and returns its address as a plain number. After it
// returns the harness holds no reference to that VM: the model knows definitions by serial
// only, parsers/contexts/programs made for the VM were locals of runScript.
//
//go:noinline
func (x *executor) dropTemp(i int) uintptr {
	a := vmAddr(x.temps[i])
	x.temps[i] = nil
	return a
}

// discardTemp makes "discard VM" real: the old TempVM becomes unreachable, two collections
// run so that its memory is free again, and only then the slot's next TempVM is created.
// Among the next allocations the one that lands on the address of a discarded VM is
// preferred (an identity kept as an address anywhere in origami then meets its ABA case);
// which allocation is used has no influence on any verdict, only on what can be observed.
func (x *executor) discardTemp(i int) {
	just := x.dropTemp(i)
	x.dead[just] = true
	goruntime.GC()
	goruntime.GC()
	var chosen, older *runtime.TempVM
	spare := make([]*runtime.TempVM, 0, 64)
	for n := 0; n < 256 && chosen == nil; n++ {
		t := runtime.NewTempVM(x.base).(*runtime.TempVM)
		a := vmAddr(t)
		switch {
		case a == just:
			chosen = t
		case older == nil && x.dead[a]:
			older = t
			spare = append(spare, t) // keep it alive so that later candidates are distinct
		default:
			spare = append(spare, t)
		}
	}
	if chosen == nil {
		chosen = older
	}
	if chosen == nil {
		chosen = spare[0]
	}
	if a := vmAddr(chosen); x.dead[a] {
		x.res.Reused++
		delete(x.dead, a) // live again
	}
	if !x.c.NoPrep {
		chosen.PrepareParse(x.bp)
	}
	x.temps[i] = chosen
}

// runScript parses src on a parser bound to VM i and runs it on a context of VM i.
func (x *executor) runScript(i int, src, path string) (out string, errText string) {
	x.res.Scripts++
	x.out.Reset()
	x.unc = nil
	var p *parser.Parser
	if i == 0 {
		p = x.bp.Clone()
	} else if x.c.NoPrep {
		// as HotHandler does: the code is parsed by a parser that resolves through the TempVM, but
		// the TempVM itself is never given a parser by the harness - origami binds one when it
		// needs it (loaderParser / LoadAndRun)
		p = x.bp.Clone()
		p.SetVM(x.temps[i])
	} else {
		p = x.temps[i].PrepareParse(x.bp)
	}
	prog, acl := p.ParseString(src, path)
	if acl != nil {
		return "", "parse: " + acl.AsString()
	}
	ctx := x.vm(i).CreateContext(p.GetVariables())
	_, ctl := prog.GetValue(ctx)
	if data.FlushAllBuffersFn != nil {
		data.FlushAllBuffersFn()
	}
	if ctl != nil {
		return x.out.String(), "control: " + ori.CtlString(ctl)
	}
	if x.unc != nil {
		return x.out.String(), "uncaught: " + ori.CtlString(x.unc)
	}
	return x.out.String(), ""
}

func (x *executor) violation(key, what string) {
	if x.seen[key] {
		return
	}
	x.seen[key] = true
	full := fmt.Sprintf("%s | case: %s | at step %d (%s)", what, x.c.String(), x.step, x.curOp)
	x.res.Violations = append(x.res.Violations, finding{key, full})
	if x.verb {
		x.trace = append(x.trace, "  !! "+key+" :: "+what)
	}
}

func side(vm int) string {
	if vm == 0 {
		return "base"
	}
	return "temp"
}

// judge compares one observation with the model.
func (x *executor) judge(vm int, ch channel, name int, val string, related bool) {
	x.res.Cells++
	cands := x.m.Candidates(vm, ch.Kind, name)
	pk := fmt.Sprintf("%d|%s|%d", vm, ch.Name, name)
	old, had := x.prev[pk]
	x.prev[pk] = val
	desc := fmt.Sprintf("%s of %c%s on %s", ch.Name, kindPrefix(ch.Kind), nameLetter(name), vmName(vm))
	bad := false
	if ch.Identity {
		if _, err := strconv.Atoi(val); err != nil {
			// not resolved
			if len(cands) > 0 {
				bad = true
				x.violation(fmt.Sprintf("lost/%s/%s/holder-%s", ch.Name, side(vm), x.holder(vm, ch.Kind, name)),
					fmt.Sprintf("%s did not resolve (got %q) although visible definitions are %v", desc, val, x.describe(cands)))
			}
		} else {
			s, _ := strconv.Atoi(val)
			ok := false
			for _, c := range cands {
				if c == s {
					ok = true
				}
			}
			if !ok {
				bad = true
				owner := x.m.Owner[s]
				x.violation(fmt.Sprintf("leak/%s/into-%s", ch.Name, side(vm)),
					fmt.Sprintf("%s resolved to definition #%d owned by %s; visible definitions are %v", desc, s, owner, x.describe(cands)))
			}
		}
	} else {
		switch {
		case val == "Y" && len(cands) == 0:
			bad = true
			x.violation(fmt.Sprintf("leak/%s/into-%s", ch.Name, side(vm)),
				fmt.Sprintf("%s reports the name as existing although no definition is visible there", desc))
		case val != "Y" && len(cands) > 0:
			bad = true
			x.violation(fmt.Sprintf("lost/%s/%s/holder-%s", ch.Name, side(vm), x.holder(vm, ch.Kind, name)),
				fmt.Sprintf("%s reports %q although visible definitions are %v", desc, val, x.describe(cands)))
		}
	}
	// A temp VM that defined the same name more than once: which of its own definitions wins,
	// and when a cached resolution catches up with the redefinition, is not stated.
	ownMulti := vm != 0 && len(x.m.T[vm][cellKey{ch.Kind, name}]) > 1
	if !bad && had && !related && !ownMulti && old != val {
		x.violation(fmt.Sprintf("unstable/%s/%s", ch.Name, side(vm)),
			fmt.Sprintf("%s changed from %q to %q across a step that neither defined that name on that VM or on base nor discarded the VM", desc, old, val))
	}
}

func kindPrefix(k byte) byte {
	switch k {
	case 'c':
		return 'K'
	case 'i':
		return 'I'
	}
	return 'f'
}

func (x *executor) holder(vm int, dk byte, name int) string {
	k := cellKey{dk, name}
	_, b := x.m.B[k]
	own := vm != 0 && len(x.m.T[vm][k]) > 0
	switch {
	case b && own:
		return "both"
	case b:
		return "base"
	}
	return "own"
}

func (x *executor) describe(cands []int) string {
	if len(cands) == 0 {
		return "[]"
	}
	parts := make([]string, len(cands))
	for i, c := range cands {
		parts[i] = fmt.Sprintf("#%d(%s)", c, x.m.Owner[c])
	}
	return "[" + strings.Join(parts, " ") + "]"
}

// observeGo reads the Go-level channels of one VM for the given names.
func (x *executor) observeGo(vm int, names []int, related func(vm int, dk byte, name int) bool) {
	v := x.vm(vm)
	for _, n := range names {
		l := nameLetter(n)
		for _, ch := range channels {
			if ch.Group != 'g' {
				continue
			}
			val := "-"
			switch ch.Name {
			case "g.GetClass":
				if c, ok := v.GetClass("K" + l); ok && c != nil {
					val = serialOf(c)
				}
			case "g.GetOrLoadClass":
				if c, acl := v.GetOrLoadClass("K" + l); acl == nil && c != nil {
					val = serialOf(c)
				}
			case "g.LoadPkg.class":
				if c, acl := v.LoadPkg("K" + l); acl == nil && c != nil {
					val = serialOf(c)
				}
			case "g.GetInterface":
				if c, ok := v.GetInterface("I" + l); ok && c != nil {
					val = serialOf(c)
				}
			case "g.GetOrLoadInterface":
				if c, acl := v.GetOrLoadInterface("I" + l); acl == nil && c != nil {
					val = serialOf(c)
				}
			case "g.LoadPkg.interface":
				if c, acl := v.LoadPkg("I" + l); acl == nil && c != nil {
					val = serialOf(c)
				}
			case "g.GetFunc":
				if c, ok := v.GetFunc("f" + l); ok && c != nil {
					val = serialOf(c)
				}
			}
			x.judge(vm, ch, n, val, related(vm, ch.Kind, n))
		}
	}
}

// observeScript runs one fresh script on VM vm that evaluates the given channels for the
// given names, and judges every cell. A script that fails as a whole is re-run cell by cell.
func (x *executor) observeScript(vm int, chs []channel, names []int, related func(vm int, dk byte, name int) bool) {
	if len(chs) == 0 {
		return
	}
	type cell struct {
		ch channel
		n  int
		w  int
	}
	var cells []cell
	var sb strings.Builder
	sb.WriteString("<?php\n")
	for _, n := range names {
		for _, ch := range chs {
			w := 0
			if ch.Put {
				x.wseq++
				w = 100000 + x.wseq
			}
			cells = append(cells, cell{ch, n, w})
			sb.WriteString(cellSourceW(ch, n, w))
		}
	}
	parse := func(out string) map[string]string {
		got := map[string]string{}
		for _, line := range strings.Split(out, "\n") {
			if k, v, ok := strings.Cut(line, "="); ok {
				got[k] = v
			}
		}
		return got
	}
	out, errText := x.runScript(vm, sb.String(), filepath.Join(x.dir, "probe.php"))
	got := parse(out)
	if errText != "" || len(got) != len(cells) {
		// cell by cell
		got = map[string]string{}
		for _, c := range cells {
			src := "<?php\n" + cellSourceW(c.ch, c.n, c.w)
			o, et := x.runScript(vm, src, filepath.Join(x.dir, "probe1.php"))
			k := c.ch.Name + ":" + nameLetter(c.n)
			if v, ok := parse(o)[k]; ok && et == "" {
				got[k] = v
			} else {
				got[k] = "!" + et
			}
		}
	}
	for _, c := range cells {
		val := got[c.ch.Name+":"+nameLetter(c.n)]
		if val == "E" {
			val = "-"
		}
		if c.ch.Prop {
			x.judgeProp(vm, c.ch, c.n, val, c.w)
			continue
		}
		x.judge(vm, c.ch, c.n, val, related(vm, c.ch.Kind, c.n))
	}
}

// autoloadTrigger performs one look-up of a not-yet-defined name on the VM, in one of several
// forms (script or Go API, plain or with a leading backslash), and describes it.
// autoloadTrigName names the look-up form (used in keys and as quarantine feature "autoload.<kind>.<form>").
func autoloadTrigName(dk byte, trig int) string {
	if dk == 'i' {
		return []string{"iex", "iex-bs", "GetOrLoadInterface", "GetOrLoadInterface-bs"}[trig]
	}
	return []string{"cex", "cex-bs", "GetOrLoadClass", "GetOrLoadClass-bs", "LoadPkg"}[trig]
}

func (x *executor) autoloadTrigger(vm int, dk byte, nm string, trig int, runner string) string {
	v := x.vm(vm)
	bs := "\\" + nm // \Ka
	if dk == 'i' {
		switch trig {
		case 1:
			x.runScript(vm, "<?php\n$r = interface_exists('\\\\"+nm+"');\n", runner)
			return "interface_exists('\\\\" + nm + "')"
		case 2:
			_, _ = v.GetOrLoadInterface(nm)
			return "GetOrLoadInterface(" + nm + ")"
		case 3:
			_, _ = v.GetOrLoadInterface(bs)
			return "GetOrLoadInterface(" + bs + ")"
		}
		x.runScript(vm, "<?php\n$r = interface_exists('"+nm+"');\n", runner)
		return "interface_exists('" + nm + "')"
	}
	switch trig {
	case 1:
		x.runScript(vm, "<?php\n$r = class_exists('\\\\"+nm+"');\n", runner)
		return "class_exists('\\\\" + nm + "')"
	case 2:
		_, _ = v.GetOrLoadClass(nm)
		return "GetOrLoadClass(" + nm + ")"
	case 3:
		_, _ = v.GetOrLoadClass(bs)
		return "GetOrLoadClass(" + bs + ")"
	case 4:
		_, _ = v.LoadPkg(nm)
		return "LoadPkg(" + nm + ")"
	}
	x.runScript(vm, "<?php\n$r = class_exists('"+nm+"');\n", runner)
	return "class_exists('" + nm + "')"
}

// judgeProp judges the static-property channels. A read must show a value held by a definition
// visible on that VM; a write through base-defined code must fail where no definition is
// visible and otherwise lands in one of the visible definitions (recorded for later reads).
func (x *executor) judgeProp(vm int, ch channel, name int, val string, w int) {
	x.res.Cells++
	cands := x.m.Candidates(vm, 'c', name)
	desc := fmt.Sprintf("%s of K%s on %s", ch.Name, nameLetter(name), vmName(vm))
	if ch.Put {
		switch {
		case val == "S" && len(cands) == 0:
			x.valOwners[strconv.Itoa(w)] = nil
			x.violation(fmt.Sprintf("leak/%s/into-%s", ch.Name, side(vm)),
				fmt.Sprintf("%s: the write K%s::$n = %d made by base-defined code succeeded although no definition of K%s is visible there (it was stored into some other VM's class)", desc, nameLetter(name), w, nameLetter(name)))
		case val == "S":
			x.valOwners[strconv.Itoa(w)] = append([]int(nil), cands...)
		case len(cands) > 0:
			x.violation(fmt.Sprintf("lost/%s/%s/holder-%s", ch.Name, side(vm), x.holder(vm, 'c', name)),
				fmt.Sprintf("%s: the write failed (%q) although visible definitions are %v", desc, val, x.describe(cands)))
		}
		return
	}
	if _, err := strconv.Atoi(val); err != nil {
		if len(cands) > 0 {
			x.violation(fmt.Sprintf("lost/%s/%s/holder-%s", ch.Name, side(vm), x.holder(vm, 'c', name)),
				fmt.Sprintf("%s did not resolve (got %q) although visible definitions are %v", desc, val, x.describe(cands)))
		}
		return
	}
	owners, known := x.valOwners[val]
	if !known {
		if s, err := strconv.Atoi(val); err == nil && x.m.Owner[s] != "" {
			owners = []int{s} // initial value = serial of the definition
		}
	}
	for _, o := range owners {
		for _, c := range cands {
			if o == c {
				return
			}
		}
	}
	owner := "an unknown definition"
	if len(owners) > 0 {
		owner = fmt.Sprintf("definition #%d owned by %s", owners[0], x.m.Owner[owners[0]])
	}
	x.violation(fmt.Sprintf("leak/%s/into-%s", ch.Name, side(vm)),
		fmt.Sprintf("%s read the value %s, which is held by %s; visible definitions are %v", desc, val, owner, x.describe(cands)))
}

// cellSource is the code that evaluates one channel for one name and prints "<chan>:<name>=<value>".
// Kept compact: origami's lexer is slow per character and these scripts dominate the run time.
func cellSource(ch channel, n int) string { return cellSourceW(ch, n, 0) }

func cellSourceW(ch channel, n int, w int) string {
	l := nameLetter(n)
	return "try{" + ch.snippetW(l, w) + "}catch(\\Throwable $e){$r='E';}echo '" + ch.Name + ":" + l + "='.$r.\"\\n\";\n"
}

func (x *executor) chans(group byte, filter func(channel) bool) []channel {
	var out []channel
	for _, ch := range channels {
		if ch.Group != group || x.off[ch.Name] {
			continue
		}
		if filter == nil || filter(ch) {
			out = append(out, ch)
		}
	}
	return out
}

func (x *executor) allNames() []int {
	out := make([]int, x.c.Names)
	for i := range out {
		out[i] = i
	}
	return out
}

func (x *executor) opNames(o Op) []int {
	if o.Name < 0 {
		return x.allNames()
	}
	return []int{o.Name}
}

// readBack reads the resolution table of every VM back. The Go-level channels are always
// read for every pool name. The script-level channels (fresh scripts and persistent
// helpers) are read for `names` only: the caller passes the names the step touched after
// ordinary steps and every name that has ever been defined on the periodic full passes
// (a name nobody has defined yet cannot resolve anywhere, and the Go-level pass still
// asserts that).
func (x *executor) readBack(names []int, related func(vm int, dk byte, name int) bool) {
	x.readBackSel(names, related, true)
}

func (x *executor) readBackSel(names []int, related func(vm int, dk byte, name int) bool, fresh bool) {
	all := x.allNames()
	for vm := 0; vm <= x.c.Temps; vm++ {
		x.observeGo(vm, all, related)
		if len(names) > 0 {
			if fresh {
				x.observeScript(vm, x.chans('s', nil), names, related)
			}
			x.observeScript(vm, x.chans('t', nil), names, related)
		}
	}
	coll := false
	for vm := 1; vm <= x.c.Temps && !coll; vm++ {
		for _, dk := range []byte{'c', 'i', 'f'} {
			for _, n := range all {
				if len(x.m.Candidates(vm, dk, n)) > 1 {
					coll = true
				}
			}
		}
	}
	if coll {
		x.res.Collisions++
	}
}

// everDefined lists the names that some VM has defined so far in this history.
func (x *executor) everDefined() []int {
	var out []int
	for n := 0; n < x.c.Names; n++ {
		if x.defined[n] {
			out = append(out, n)
		}
	}
	return out
}

func none(int, byte, int) bool { return false }

// Run executes the whole history. It never panics: a Go panic out of origami is a finding.
func runCase(c Case, off map[string]bool, dir string, verbose bool) (res caseResult, trace []string) {
	if c.Only != "" {
		caseOff := map[string]bool{}
		for k, v := range off {
			caseOff[k] = v
		}
		for _, ch := range channels {
			if ch.Group == 't' && ch.Name != c.Only {
				caseOff[ch.Name] = true
			}
		}
		off = caseOff
	}
	x := &executor{c: c, off: off, dir: dir, m: NewModel(c.Temps), prev: map[string]string{}, res: &res, seen: map[string]bool{}, verb: verbose, defined: map[int]bool{}, dead: map[uintptr]bool{}, valOwners: map[string][]int{}}
	defer func() { trace = x.trace }()
	defer func() {
		// the autoload list is process-wide (and keeps the callback's whole base VM alive): leave
		// nothing of this case behind. Done from a script so that the harness does not depend on
		// the Go signature of runtime.RemoveAutoLoad.
		if x.base != nil && x.bp != nil {
			func() {
				defer func() { _ = recover() }()
				x.runScript(0, "<?php\nspl_autoload_unregister(C12Hub::$cbs['auto']);\n", filepath.Join(dir, "unreg.php"))
			}()
		}
	}()
	guard := func(what string, f func()) (ok bool) {
		defer func() {
			if r := recover(); r != nil {
				st := string(debug.Stack())
				site := lib.PanicSite(st)
				if repo := os.Getenv("VERIF_REPO"); repo != "" {
					// a scratch worktree is not under /repo: keep the key independent of its location
					site = strings.TrimPrefix(site, strings.TrimSuffix(repo, "/")+"/")
				}
				x.violation("panic@"+site, fmt.Sprintf("Go panic during %s: %v", what, r))
				x.res.Aborted = "panic during " + what
				ok = false
			}
		}()
		f()
		return true
	}
	data.WriteOutput = func(s string) { x.out.WriteString(s) }
	x.curOp = "setup"
	if !guard("setup", func() {
		x.base, x.bp = ori.NewVM()
		x.base.SetThrowControl(func(acl data.Control) { x.unc = acl })
		x.temps = make([]*runtime.TempVM, c.Temps+1)
		if _, et := x.runScript(0, prelude(c.Names, off), filepath.Join(dir, "prelude.php")); et != "" {
			x.res.Aborted = "prelude failed: " + et
			return
		}
		if et := x.loadDeclClosures(); et != "" {
			x.res.Aborted = "prelude failed: " + et
			return
		}
		for i := 1; i <= c.Temps; i++ {
			x.newTemp(i)
		}
	}) || res.Aborted != "" {
		if res.Aborted != "" && len(res.Violations) == 0 {
			x.violation("setup-failed", res.Aborted)
		}
		return
	}
	if !guard("initial read-back", func() { x.readBack(nil, none) }) {
		return
	}
	for i, o := range c.Ops {
		x.step = i + 1
		x.curOp = o.String()
		res.Steps++
		if verbose {
			x.trace = append(x.trace, fmt.Sprintf("step %d: %s", x.step, o))
		}
		related := none
		var touched []int
		ok := guard("step "+o.String(), func() {
			switch o.K {
			case 'D':
				x.defined[o.Name] = true
				touched = []int{o.Name}
			case 'X':
				// every name the discarded incarnation had defined
				for n := 0; n < x.c.Names; n++ {
					for _, dk := range []byte{'c', 'i', 'f'} {
						if len(x.m.T[o.VM][cellKey{dk, n}]) > 0 {
							touched = append(touched, n)
							break
						}
					}
				}
			default:
				if o.Name >= 0 {
					touched = []int{o.Name}
				} else {
					touched = x.everDefined()
				}
			}
			switch o.K {
			case 'D':
				if !x.m.CanDefine(o.VM, o.DK, o.Name) {
					x.res.Aborted = "case redefines a base name (generator error)"
					return
				}
				variant := o.Var
				_, route := defSource(o.DK, o.Name, variant, 0)
				if route == routeAutoload {
					trig := variant - 7
					if o.DK == 'i' {
						trig = variant - 5
					}
					if len(x.m.Candidates(o.VM, o.DK, o.Name)) > 0 || x.off["autoload."+string(o.DK)] || x.off["autoload."+string(o.DK)+"."+autoloadTrigName(o.DK, trig)] {
						// the look-up would succeed without loading anything (or the form is quarantined): define directly instead
						variant = 0
						route = routeDirect
					}
				}
				var serial int
				if route == routeClosureDecl {
					// the declaration is one AST shared by every VM that runs the closure
					serial = sharedSerial(o.Name)
					x.m.DefineAs(o.VM, o.DK, o.Name, serial)
				} else {
					serial = x.m.Define(o.VM, o.DK, o.Name)
				}
				if o.VM != 0 {
					x.res.TempDefs++
				}
				src, _ := defSource(o.DK, o.Name, variant, serial)
				path := filepath.Join(dir, fmt.Sprintf("def_%d.php", serial))
				if route == routeInclude || route == routeClosureInc || route == routeAutoload {
					if err := os.WriteFile(path, []byte(src), 0o644); err != nil {
						x.res.Aborted = "cannot write definition file: " + err.Error()
						return
					}
				}
				var et string
				runner := filepath.Join(dir, fmt.Sprintf("inc_%d_%d.php", serial, x.step))
				switch route {
				case routeInclude:
					_, et = x.runScript(o.VM, "<?php\ninclude '"+path+"';\n", runner)
				case routeClosureInc:
					_, et = x.runScript(o.VM, "<?php\n$f=C12Hub::$cbs['inc'];$f('"+path+"');\n", runner)
				case routeClosureDecl:
					_, et = x.runScript(o.VM, "<?php\n$f=C12Hub::$cbs['decl_"+nameLetter(o.Name)+"'];$f();\n", runner)
				case routeAutoload:
					nm := string(kindPrefix(o.DK)) + nameLetter(o.Name)
					trig := variant - 7
					if o.DK == 'i' {
						trig = variant - 5
					}
					// the base VM's callback is pointed at the file for the duration of one look-up
					// (set and reset from the base VM, so that nothing is run on the temp VM but the look-up)
					if _, e1 := x.runScript(0, "<?php\nC12Hub::$auto['"+nm+"'] = '"+path+"';\n", runner); e1 != "" {
						x.res.Aborted = "cannot arm the autoload callback: " + e1
						return
					}
					how := x.autoloadTrigger(o.VM, o.DK, nm, trig, runner)
					x.runScript(0, "<?php\nC12Hub::$auto['"+nm+"'] = '';\n", runner)
					resolves := func(vm data.VM) bool {
						if o.DK == 'i' {
							c, ok := vm.GetInterface(nm)
							return ok && c != nil && serialOf(c) == strconv.Itoa(serial)
						}
						c, ok := vm.GetClass(nm)
						return ok && c != nil && serialOf(c) == strconv.Itoa(serial)
					}
					if verbose {
						x.trace = append(x.trace, "  autoload look-up: "+how)
					}
					if o.VM != 0 && resolves(x.base) {
						// asked directly so that one defect gives one key, not one per channel
						x.violation(fmt.Sprintf("leak/route.autoload.%c.%s/into-base", o.DK, autoloadTrigName(o.DK, trig)),
							fmt.Sprintf("%s, autoloaded by the look-up %s made through %s, was registered on the BASE VM (visible to base and every temp VM)", nm, how, vmName(o.VM)))
						x.res.Aborted = "autoloaded definition landed on the base VM"
						return
					}
					if !resolves(x.vm(o.VM)) {
						// the look-up did not load it (not this property's business): nothing defined
						x.m.Undo(o.VM, o.DK, o.Name, serial)
						if o.VM != 0 {
							x.res.TempDefs--
						}
						if verbose {
							x.trace = append(x.trace, "  autoload did not define it")
						}
					}
					et = ""
				case routeEval:
					// eval() may be refused on a VM (HEAD refuses it on a TempVM): then nothing was
					// defined and the model forgets the attempt. If it reports success the
					// definition must be where every other definition made through this VM is.
					var out string
					out, et = x.runScript(o.VM, "<?php\ntry { eval('"+strings.TrimPrefix(src, "<?php\n")+"'); echo 'OK'; } catch (\\Throwable $e) { echo 'ERR'; }\n", path)
					if et != "" || !strings.Contains(out, "OK") {
						x.m.Undo(o.VM, o.DK, o.Name, serial)
						if o.VM != 0 {
							x.res.TempDefs--
						}
						et = ""
						if verbose {
							x.trace = append(x.trace, fmt.Sprintf("  eval refused (%q): nothing defined", out))
						}
					}
				default:
					_, et = x.runScript(o.VM, src, path)
				}
				if verbose {
					x.trace = append(x.trace, fmt.Sprintf("  definition #%d (route %d): %s", serial, route, strings.ReplaceAll(strings.TrimPrefix(src, "<?php\n"), "\n", " ")))
				}
				if et != "" {
					x.violation(fmt.Sprintf("define-failed/%s/%c/v%d", side(o.VM), o.DK, o.Var),
						fmt.Sprintf("a well-formed definition of %c%s was rejected on %s: %s", kindPrefix(o.DK), nameLetter(o.Name), vmName(o.VM), et))
					x.res.Aborted = "definition rejected"
					return
				}
				vmD, dkD, nD := o.VM, o.DK, o.Name
				related = func(vm int, dk byte, name int) bool {
					return dk == dkD && name == nD && (vm == vmD || vmD == 0)
				}
			case 'L':
				var chs []channel
				if o.Name < 0 {
					chs = x.chans('s', func(c channel) bool { return !c.Identity })
				} else {
					chs = x.chans('s', func(c channel) bool { return !c.Identity && c.Kind == o.DK })
				}
				x.observeScript(o.VM, chs, x.opNames(o), none)
			case 'O':
				x.observeScript(o.VM, x.chans('s', nil), x.opNames(o), none)
			case 'N':
				x.observeScript(o.VM, x.chans('s', func(c channel) bool { return c.Identity && c.Kind == 'c' }), x.opNames(o), none)
			case 'C':
				x.observeScript(o.VM, x.chans('s', func(c channel) bool { return c.Identity && c.Kind == 'f' }), x.opNames(o), none)
			case 'T':
				x.observeScript(o.VM, x.chans('t', nil), x.opNames(o), none)
			case 'G':
				x.observeGo(o.VM, x.opNames(o), none)
			case 'X':
				x.m.Discard(o.VM)
				x.res.Discards++
				x.discardTemp(o.VM)
				pfx := strconv.Itoa(o.VM) + "|"
				for k := range x.prev {
					if strings.HasPrefix(k, pfx) {
						delete(x.prev, k)
					}
				}
			}
		})
		if !ok || res.Aborted != "" {
			return
		}
		if x.step%8 == 0 {
			touched = x.everDefined()
		} else {
			// never read a name nobody has defined: keeps the pre-definition passes cheap
			kept := touched[:0]
			for _, n := range touched {
				if x.defined[n] {
					kept = append(kept, n)
				}
			}
			touched = kept
		}
		if !guard("read-back after "+o.String(), func() { x.readBack(touched, related) }) {
			return
		}
	}
	// full table at the end, twice: something memoised while a later VM was read in the
	// first pass shows on the earlier VMs in the second
	x.curOp = "final read-back"
	if guard("final read-back", func() { x.readBack(x.everDefined(), none) }) {
		guard("final read-back (second pass, helpers)", func() { x.readBackSel(x.everDefined(), none, false) })
	}
	return
}
