package main

// Operation alphabet, case text format, set-based visibility model and the case generators
// of the C12 check. Nothing in this file touches origami.

import (
	"fmt"
	"math/rand"
	"sort"
	"strconv"
	"strings"
)

// ---------------------------------------------------------------------------------
// operations

// Op is one step of a history.
//
//	D  define <kind> <name> (variant v) by running a definition source on <vm>
//	L  look <kind> <name> up from a fresh script run on <vm>   (class_exists/interface_exists/function_exists)
//	N  instantiate class <name> from a fresh script run on <vm> (new K, new $c, K::sid(), K::KID)
//	C  call function <name> from a fresh script run on <vm>
//	T  resolve <name> on <vm> through the persistent base-defined helper functions ("trampolines")
//	G  resolve <name> on <vm> through the Go API only (GetClass/GetOrLoadClass/LoadPkg/GetInterface/…/GetFunc)
//	O  L (all three kinds) + N + C in one fresh script (used by the length-4 enumeration)
//	X  discard temp VM <vm> (the slot gets a brand-new TempVM)
//
// Name == -1 means "every name of the pool" (used by the exhaustive enumeration, where the
// observation operations are not multiplied by the pool).
type Op struct {
	K    byte
	VM   int  // 0 = base, 1..4 = temp slot
	DK   byte // 'c' class, 'i' interface, 'f' function (D, L)
	Name int
	Var  int // definition variant (D)
}

type Case struct {
	ID     string
	Temps  int
	Names  int
	NoPrep bool // temp VMs are used without an initial PrepareParse (as HotHandler creates them)
	// Only, when set, names the single base-defined helper channel this history uses (all other
	// helper channels are neither defined nor run). Every helper that resolved a name through a
	// VM may legitimately keep that VM reachable; with all of them active at once a discarded VM
	// is practically never collected, which hides anything that goes wrong only after collection.
	Only string
	Ops  []Op
}

func vmName(v int) string {
	if v == 0 {
		return "b"
	}
	return "t" + strconv.Itoa(v)
}

func parseVM(s string) (int, error) {
	if s == "b" {
		return 0, nil
	}
	if len(s) == 2 && s[0] == 't' && s[1] >= '1' && s[1] <= '4' {
		return int(s[1] - '0'), nil
	}
	return 0, fmt.Errorf("bad vm %q", s)
}

func nameLetter(n int) string {
	if n < 0 {
		return "*"
	}
	return string(rune('a' + n))
}

func parseName(s string) (int, error) {
	if s == "*" {
		return -1, nil
	}
	if len(s) == 1 && s[0] >= 'a' && s[0] <= 'h' {
		return int(s[0] - 'a'), nil
	}
	return 0, fmt.Errorf("bad name %q", s)
}

func (o Op) String() string {
	switch o.K {
	case 'D':
		return fmt.Sprintf("D.%s.%c.%s.%d", vmName(o.VM), o.DK, nameLetter(o.Name), o.Var)
	case 'L':
		return fmt.Sprintf("L.%s.%c.%s", vmName(o.VM), o.DK, nameLetter(o.Name))
	case 'N', 'C', 'T', 'G', 'O':
		return fmt.Sprintf("%c.%s.%s", o.K, vmName(o.VM), nameLetter(o.Name))
	case 'X':
		return "X." + vmName(o.VM)
	}
	return "?"
}

func parseOp(s string) (Op, error) {
	f := strings.Split(s, ".")
	bad := fmt.Errorf("bad op %q", s)
	if len(f) < 2 || len(f[0]) != 1 {
		return Op{}, bad
	}
	o := Op{K: f[0][0]}
	var err error
	if o.VM, err = parseVM(f[1]); err != nil {
		return Op{}, err
	}
	switch o.K {
	case 'D':
		if len(f) != 5 || len(f[2]) != 1 {
			return Op{}, bad
		}
		o.DK = f[2][0]
		if o.Name, err = parseName(f[3]); err != nil || o.Name < 0 {
			return Op{}, bad
		}
		if o.Var, err = strconv.Atoi(f[4]); err != nil {
			return Op{}, bad
		}
	case 'L':
		if len(f) != 4 || len(f[2]) != 1 {
			return Op{}, bad
		}
		o.DK = f[2][0]
		if o.Name, err = parseName(f[3]); err != nil {
			return Op{}, bad
		}
	case 'N', 'C', 'T', 'G', 'O':
		if len(f) != 3 {
			return Op{}, bad
		}
		if o.Name, err = parseName(f[2]); err != nil {
			return Op{}, bad
		}
	case 'X':
		if len(f) != 2 || o.VM == 0 {
			return Op{}, bad
		}
	default:
		return Op{}, bad
	}
	if (o.K == 'D' || o.K == 'L') && o.DK != 'c' && o.DK != 'i' && o.DK != 'f' {
		return Op{}, bad
	}
	return o, nil
}

// String renders a case as one line: "<id> temps=<k> names=<n> prep=<0|1> op,op,…".
func (c Case) String() string {
	parts := make([]string, len(c.Ops))
	for i, o := range c.Ops {
		parts[i] = o.String()
	}
	prep := 1
	if c.NoPrep {
		prep = 0
	}
	only := ""
	if c.Only != "" {
		only = " only=" + c.Only
	}
	return fmt.Sprintf("%s temps=%d names=%d prep=%d%s %s", c.ID, c.Temps, c.Names, prep, only, strings.Join(parts, ","))
}

func parseCase(line string) (Case, error) {
	f := strings.Fields(line)
	only := ""
	if len(f) == 6 && strings.HasPrefix(f[4], "only=") {
		only = strings.TrimPrefix(f[4], "only=")
		f = append(f[:4], f[5])
	}
	if len(f) != 5 {
		return Case{}, fmt.Errorf("bad case line %q", line)
	}
	c := Case{ID: f[0], Only: only}
	var err error
	if c.Temps, err = strconv.Atoi(strings.TrimPrefix(f[1], "temps=")); err != nil || c.Temps < 1 || c.Temps > 4 {
		return Case{}, fmt.Errorf("bad temps in %q", line)
	}
	if c.Names, err = strconv.Atoi(strings.TrimPrefix(f[2], "names=")); err != nil || c.Names < 1 || c.Names > 8 {
		return Case{}, fmt.Errorf("bad names in %q", line)
	}
	c.NoPrep = f[3] == "prep=0"
	if f[4] != "-" {
		for _, s := range strings.Split(f[4], ",") {
			o, err := parseOp(s)
			if err != nil {
				return Case{}, err
			}
			if o.VM > c.Temps || o.Name >= c.Names {
				return Case{}, fmt.Errorf("op %s outside the case's pool", s)
			}
			c.Ops = append(c.Ops, o)
		}
	}
	return c, nil
}

// number of definition variants per kind (see exec.go defSource)
func nVariants(dk byte) int {
	switch dk {
	case 'c':
		return 12
	case 'i':
		return 9
	default:
		return 6
	}
}

// ---------------------------------------------------------------------------------
// model: visible(base) = B, visible(t_i) = B ∪ T_i, definitions identified by serial

type cellKey struct {
	DK   byte
	Name int
}

type Model struct {
	B     map[cellKey]int     // base definitions (one per kind+name: base refuses duplicates)
	T     []map[cellKey][]int // per temp slot (index 1..): serials defined by the current incarnation
	Owner map[int]string      // serial -> "base" | "t<slot>#<incarnation>"
	Inc   []int               // incarnation counter per slot
	next  int
}

func NewModel(temps int) *Model {
	m := &Model{B: map[cellKey]int{}, Owner: map[int]string{}, T: make([]map[cellKey][]int, temps+1), Inc: make([]int, temps+1)}
	for i := 1; i <= temps; i++ {
		m.T[i] = map[cellKey][]int{}
	}
	return m
}

// CanDefine tells whether the generator may emit this definition: the base VM rejects a
// second definition of a name it already holds (that behaviour belongs to C10, not here).
func (m *Model) CanDefine(vm int, dk byte, name int) bool {
	if vm != 0 {
		return true
	}
	_, dup := m.B[cellKey{dk, name}]
	return !dup
}

// Define returns the serial the definition gets.
func (m *Model) Define(vm int, dk byte, name int) int {
	m.next++
	s := m.next
	k := cellKey{dk, name}
	if vm == 0 {
		m.B[k] = s
		m.Owner[s] = "base"
	} else {
		m.T[vm][k] = append(m.T[vm][k], s)
		m.Owner[s] = fmt.Sprintf("t%d#%d", vm, m.Inc[vm])
	}
	return s
}

// DefineAs records a definition whose serial is fixed by its (shared) source: a function
// declared by the body of a base-created closure is the same AST for every VM that runs it.
func (m *Model) DefineAs(vm int, dk byte, name, serial int) {
	k := cellKey{dk, name}
	if vm == 0 {
		m.B[k] = serial
	} else {
		m.T[vm][k] = append(m.T[vm][k], serial)
	}
	m.Owner[serial] = "whichever VMs ran the declaring base closure"
}

// Undo removes a definition that turned out not to have been made (refused eval).
func (m *Model) Undo(vm int, dk byte, name, serial int) {
	k := cellKey{dk, name}
	if vm == 0 {
		if m.B[k] == serial {
			delete(m.B, k)
		}
	} else {
		l := m.T[vm][k]
		for i, s := range l {
			if s == serial {
				m.T[vm][k] = append(l[:i:i], l[i+1:]...)
				break
			}
		}
		if len(m.T[vm][k]) == 0 {
			delete(m.T[vm], k)
		}
	}
	delete(m.Owner, serial)
}

func (m *Model) Discard(vm int) {
	m.T[vm] = map[cellKey][]int{}
	m.Inc[vm]++
}

// Candidates lists the definitions <vm> may resolve kind+name to. Empty: must not resolve.
// More than one element only when a temp definition collides with a base definition or
// with an earlier definition of the same temp VM: which one wins is not stated.
func (m *Model) Candidates(vm int, dk byte, name int) []int {
	k := cellKey{dk, name}
	var out []int
	if s, ok := m.B[k]; ok {
		out = append(out, s)
	}
	if vm != 0 {
		out = append(out, m.T[vm][k]...)
	}
	return out
}

func (m *Model) HasTempDef() bool {
	for i := 1; i < len(m.T); i++ {
		if len(m.T[i]) > 0 {
			return true
		}
	}
	return false
}

// ---------------------------------------------------------------------------------
// generators

// seededCase draws one random history of the given length.
func seededCase(r *rand.Rand, id string, temps, names, length int, noPrep bool) Case {
	c := Case{ID: id, Temps: temps, Names: names, NoPrep: noPrep}
	m := NewModel(temps)
	kinds := []byte{'c', 'i', 'f'}
	// a few "hot" names make collisions (same name defined on base and on temps) frequent
	hot := []int{r.Intn(names), r.Intn(names)}
	pickName := func() int {
		if r.Intn(100) < 55 {
			return hot[r.Intn(len(hot))]
		}
		return r.Intn(names)
	}
	pickVM := func(baseWeight int) int {
		if r.Intn(100) < baseWeight {
			return 0
		}
		return 1 + r.Intn(temps)
	}
	for len(c.Ops) < length {
		x := r.Intn(100)
		switch {
		case x < 38: // define
			vm := pickVM(22)
			dk := kinds[r.Intn(3)]
			n := pickName()
			if !m.CanDefine(vm, dk, n) {
				continue
			}
			m.Define(vm, dk, n)
			c.Ops = append(c.Ops, Op{K: 'D', VM: vm, DK: dk, Name: n, Var: r.Intn(nVariants(dk))})
		case x < 52:
			c.Ops = append(c.Ops, Op{K: 'L', VM: pickVM(30), DK: kinds[r.Intn(3)], Name: pickName()})
		case x < 64:
			c.Ops = append(c.Ops, Op{K: 'N', VM: pickVM(30), Name: pickName()})
		case x < 76:
			c.Ops = append(c.Ops, Op{K: 'C', VM: pickVM(30), Name: pickName()})
		case x < 86:
			c.Ops = append(c.Ops, Op{K: 'T', VM: pickVM(30), Name: pickName()})
		case x < 92:
			c.Ops = append(c.Ops, Op{K: 'G', VM: pickVM(30), Name: pickName()})
		default:
			vm := 1 + r.Intn(temps)
			m.Discard(vm)
			c.Ops = append(c.Ops, Op{K: 'X', VM: vm})
		}
	}
	return c
}

// enumerate lists every history of length 1..maxLen over the alphabet restricted to
// `temps` temp VMs and `names` names, up to the two symmetries of the property (renaming
// the pool names, renumbering the temp VMs): a name / temp slot may be used only if every
// smaller one has been used already. Observation operations address the whole pool
// (Name = -1). Histories that never define anything are dropped (nothing to leak).
func enumerate(temps, names, maxLen int, merged bool) []Case {
	var out []Case
	kinds := []byte{'c', 'i', 'f'}
	var rec func(prefix []Op, usedNames, usedTemps int, m *modelLite)
	emit := func(ops []Op) {
		hasDef := false
		for _, o := range ops {
			if o.K == 'D' {
				hasDef = true
			}
		}
		if !hasDef {
			return
		}
		cp := append([]Op(nil), ops...)
		out = append(out, Case{Temps: temps, Names: names, Ops: cp})
	}
	rec = func(prefix []Op, usedNames, usedTemps int, m *modelLite) {
		if len(prefix) > 0 {
			emit(prefix)
		}
		if len(prefix) == maxLen {
			return
		}
		maxVM := usedTemps + 1
		if maxVM > temps {
			maxVM = temps
		}
		maxName := usedNames + 1
		if maxName > names {
			maxName = names
		}
		for vm := 0; vm <= maxVM; vm++ {
			ut := usedTemps
			if vm > ut {
				ut = vm
			}
			for _, dk := range kinds {
				for n := 0; n < maxName; n++ {
					if vm == 0 && m.baseHas(dk, n) {
						continue
					}
					un := usedNames
					if n+1 > un {
						un = n + 1
					}
					m2 := m
					if vm == 0 {
						m2 = m.withBase(dk, n)
					}
					// the variant is a deterministic function of the position so that the
					// enumeration also walks through the definition routes
					v := (len(prefix) + n + vm) % nVariants(dk)
					rec(append(prefix, Op{K: 'D', VM: vm, DK: dk, Name: n, Var: v}), un, ut, m2)
				}
			}
			obs := []byte{'L', 'N', 'C', 'T'}
			if merged {
				obs = []byte{'O', 'T'}
			}
			for _, k := range obs {
				o := Op{K: k, VM: vm, Name: -1}
				if k == 'L' {
					o.DK = 'c' // with Name=-1 an L looks all three kinds up
				}
				rec(append(prefix, o), usedNames, ut, m)
			}
			if vm > 0 {
				rec(append(prefix, Op{K: 'X', VM: vm}), usedNames, ut, m)
			}
		}
	}
	rec(nil, 0, 0, &modelLite{})
	for i := range out {
		out[i].ID = fmt.Sprintf("x%d", i)
	}
	return out
}

// modelLite remembers only which base cells are taken (persistent, for the enumeration).
type modelLite struct{ base []cellKey }

func (m *modelLite) baseHas(dk byte, n int) bool {
	for _, k := range m.base {
		if k.DK == dk && k.Name == n {
			return true
		}
	}
	return false
}

func (m *modelLite) withBase(dk byte, n int) *modelLite {
	return &modelLite{base: append(append([]cellKey(nil), m.base...), cellKey{dk, n})}
}

func sortedKeys(m map[string]int) []string {
	ks := make([]string, 0, len(m))
	for k := range m {
		ks = append(ks, k)
	}
	sort.Strings(ks)
	return ks
}
