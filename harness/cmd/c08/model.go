package main

import (
	"fmt"
	"math/rand"
	"sort"
	"strings"
)

// NM instance-method names (m0..), NS static-method names (s0..).
const (
	NM = 3
	NS = 2
)

// Hier is one generated hierarchy. Classes are C0..C{NC-1}, interfaces I0..I{NI-1}.
// Edges only point to lower indices, so index order is a valid declaration order.
type Hier struct {
	NC, NI    int
	Parent    []int   // class -> parent class or -1
	Abstract  []bool  // class is declared abstract (never instantiated)
	ThrowRoot []bool  // class has no parent and is declared `extends Exception`
	IExt      [][]int // interface -> interfaces it extends (declaration order)
	Impl      [][]int // class -> interfaces it implements (declaration order)
	CM        [][NM]int
	CS        [][NS]int // 0 = not declared, 1 = declared, 2 = declared and chains to parent::
	IM        [][NM]bool
	Arity     [][NM]int // per type node (classes first, then interfaces) and method name
	// Vis: visibility of each class's own declaration of mj (0 public, 1 protected, 2 private).
	// Overrides never narrow a non-private declaration; a private declaration is not
	// overridable, a same-named method below it is an independent method.
	Vis [][NM]int
	// ArB: parameter counts used by the `like` script only. Starts as Arity and then lets
	// overrides / implementations change the count (more or fewer parameters) — origami does not
	// enforce signature compatibility, and `like` must follow the most-derived definition.
	ArB [][NM]int
	sub [][]bool // reflexive-transitive subtype relation over type nodes
}

func (h *Hier) N() int             { return h.NC + h.NI }
func (h *Hier) inode(i int) int    { return h.NC + i }
func (h *Hier) cname(c int) string { return fmt.Sprintf("C%d", c) }
func (h *Hier) iname(i int) string { return fmt.Sprintf("I%d", i) }
func (h *Hier) tname(t int) string {
	if t < h.NC {
		return h.cname(t)
	}
	return h.iname(t - h.NC)
}

func (h *Hier) root(c int) int {
	for h.Parent[c] >= 0 {
		c = h.Parent[c]
	}
	return c
}

// dist is the number of extends steps from class y up to class x, or -1.
func (h *Hier) dist(y, x int) int {
	d := 0
	for c := y; c >= 0; c = h.Parent[c] {
		if c == x {
			return d
		}
		d++
	}
	return -1
}

func (h *Hier) throwable(c int) bool { return h.ThrowRoot[h.root(c)] }

// closure computes the subtype relation with Warshall's algorithm on the edge matrix
// (deliberately not a worklist/BFS walk, which is what the implementation under test uses).
func (h *Hier) closure() {
	n := h.N()
	m := make([][]bool, n)
	for i := range m {
		m[i] = make([]bool, n)
		m[i][i] = true
	}
	for c := 0; c < h.NC; c++ {
		if p := h.Parent[c]; p >= 0 {
			m[c][p] = true
		}
		for _, i := range h.Impl[c] {
			m[c][h.inode(i)] = true
		}
	}
	for i := 0; i < h.NI; i++ {
		for _, j := range h.IExt[i] {
			m[h.inode(i)][h.inode(j)] = true
		}
	}
	for k := 0; k < n; k++ {
		for i := 0; i < n; i++ {
			if m[i][k] {
				for j := 0; j < n; j++ {
					if m[k][j] {
						m[i][j] = true
					}
				}
			}
		}
	}
	h.sub = m
}

// provides returns the class whose definition of instance method j an object of class x
// runs (nearest declaration from x upwards), or -1.
func (h *Hier) provides(x, j int) int {
	for c := x; c >= 0; c = h.Parent[c] {
		if h.CM[c][j] != 0 {
			return c
		}
	}
	return -1
}

func (h *Hier) sprovides(x, j int) int {
	for c := x; c >= 0; c = h.Parent[c] {
		if h.CS[c][j] != 0 {
			return c
		}
	}
	return -1
}

// topProvider: the root-most class on x's chain (x included) that has static method j
// available, i.e. the highest class on which the helper sstat_<class>_sj exists.
func (h *Hier) topProvider(x, j int) int {
	top := x
	for c := x; c >= 0; c = h.Parent[c] {
		if h.sprovides(c, j) >= 0 {
			top = c
		}
	}
	return top
}

// marker is what the body of x's own definition of mj returns.
func (h *Hier) marker(x, j int) string {
	s := fmt.Sprintf("%s::m%d", h.cname(x), j)
	if h.CM[x][j] == 2 {
		s += ">" + h.marker(h.provides(h.Parent[x], j), j)
	}
	return s
}

func (h *Hier) smarker(x, j int) string {
	s := fmt.Sprintf("%s::s%d", h.cname(x), j)
	if h.CS[x][j] == 2 {
		s += ">" + h.smarker(h.sprovides(h.Parent[x], j), j)
	}
	return s
}

// required lists the method names that interfaces reachable from class c declare.
func (h *Hier) required(c int) [NM]bool {
	var r [NM]bool
	for i := 0; i < h.NI; i++ {
		if h.sub[c][h.inode(i)] {
			for j := 0; j < NM; j++ {
				if h.IM[i][j] {
					r[j] = true
				}
			}
		}
	}
	return r
}

// finish makes the hierarchy a valid program: concrete classes define what their interfaces
// require, chain flags only where a parent definition exists, and one parameter count per
// method name within every set of declarations that PHP requires to be compatible.
func (h *Hier) finish(r *rand.Rand) {
	h.closure()
	for c := 0; c < h.NC; c++ {
		if h.Parent[c] >= 0 {
			h.ThrowRoot[c] = false
		}
		if h.Abstract[c] {
			continue
		}
		req := h.required(c)
		for j := 0; j < NM; j++ {
			if req[j] && h.provides(c, j) < 0 {
				h.CM[c][j] = 1
			}
		}
	}
	for c := 0; c < h.NC; c++ {
		for j := 0; j < NM; j++ {
			if h.CM[c][j] == 2 && (h.Parent[c] < 0 || h.provides(h.Parent[c], j) < 0) {
				h.CM[c][j] = 1
			}
		}
		for j := 0; j < NS; j++ {
			if h.CS[c][j] == 2 && (h.Parent[c] < 0 || h.sprovides(h.Parent[c], j) < 0) {
				h.CS[c][j] = 1
			}
		}
	}
	// parameter counts
	n := h.N()
	h.Arity = make([][NM]int, n)
	for j := 0; j < NM; j++ {
		var decl []int
		for t := 0; t < n; t++ {
			if h.declares(t, j) {
				decl = append(decl, t)
			}
		}
		uf := make([]int, n)
		for i := range uf {
			uf[i] = i
		}
		var find func(int) int
		find = func(a int) int {
			for uf[a] != a {
				uf[a] = uf[uf[a]]
				a = uf[a]
			}
			return a
		}
		for _, a := range decl {
			for _, b := range decl {
				if a >= b {
					continue
				}
				rel := h.sub[a][b] || h.sub[b][a]
				for x := 0; x < n && !rel; x++ {
					if h.sub[x][a] && h.sub[x][b] {
						rel = true
					}
				}
				if rel {
					uf[find(a)] = find(b)
				}
			}
		}
		ar := map[int]int{}
		for _, a := range decl {
			k := find(a)
			if _, ok := ar[k]; !ok {
				ar[k] = r.Intn(3)
			}
			h.Arity[a][j] = ar[k]
		}
	}
	h.ArB = make([][NM]int, n)
	copy(h.ArB, h.Arity)
	for c := 0; c < h.NC; c++ {
		for j := 0; j < NM; j++ {
			if h.CM[c][j] == 0 {
				continue
			}
			// only declarations that are related to another declaration of the same name can be
			// "arity-changing"; unrelated ones already have independent counts
			related := false
			for t := 0; t < n; t++ {
				if t != c && h.declares(t, j) && (h.sub[c][t] || h.sub[t][c]) {
					related = true
				}
			}
			if related && r.Float64() < 0.35 {
				h.ArB[c][j] = (h.Arity[c][j] + 1 + r.Intn(2)) % 3 // always a different count
			}
		}
	}
	// visibilities (drawn last so that the other draws stay what they were)
	h.Vis = make([][NM]int, h.NC)
	for c := 0; c < h.NC; c++ {
		for j := 0; j < NM; j++ {
			if h.CM[c][j] == 0 {
				continue
			}
			// a method name that an interface implemented anywhere in this class tree declares
			// stays public in the whole tree
			forced := false
			for y := 0; y < h.NC && !forced; y++ {
				if h.root(y) != h.root(c) {
					continue
				}
				for i := 0; i < h.NI; i++ {
					if h.sub[y][h.inode(i)] && h.IM[i][j] {
						forced = true
					}
				}
			}
			v := []int{0, 0, 1, 1, 2}[r.Intn(5)]
			if forced {
				v = 0
			} else if p := h.Parent[c]; p >= 0 {
				if d := h.provides(p, j); d >= 0 && h.Vis[d][j] != 2 {
					// overriding a non-private method: same or wider visibility
					if h.Vis[d][j] == 0 || v == 2 {
						v = h.Vis[d][j]
					} else if r.Intn(3) == 0 {
						v = 0
					} else {
						v = 1
					}
				}
			}
			h.Vis[c][j] = v
		}
	}
	// parent::mj() needs a non-private definition above
	for c := 0; c < h.NC; c++ {
		for j := 0; j < NM; j++ {
			if h.CM[c][j] == 2 {
				if d := h.provides(h.Parent[c], j); d < 0 || h.Vis[d][j] == 2 {
					h.CM[c][j] = 1
				}
			}
		}
	}
}

// resolve is the reference dispatch of `$recv->mj()` executed by code written in class s
// (-1: outside any class) on a receiver of runtime class y: the class whose body runs, and
// whether the call is within what this check asserts (accessible by the PHP rules; protected
// access only asserted when s and y lie on one extends chain).
func (h *Hier) resolve(s, y, j int) (int, bool) {
	f := h.provides(y, j) // nearest declaration, private ones included
	if f < 0 {
		return -1, false
	}
	if s >= 0 && f == s {
		return f, true
	}
	// code of s calling a name that s itself declares private: private methods are not
	// overridable, so s's own body runs for every descendant object
	if s >= 0 && h.CM[s][j] != 0 && h.Vis[s][j] == 2 && h.dist(y, s) > 0 {
		return s, true
	}
	switch h.Vis[f][j] {
	case 0:
		return f, true
	case 1:
		if s >= 0 && (h.dist(y, s) >= 0 || h.dist(s, y) >= 0) {
			// the root declaration of this override chain must be related to s; on one chain
			// with y: s below or at the root declaration, or above it
			root := f
			for a := h.Parent[f]; a >= 0; a = h.Parent[a] {
				if h.CM[a][j] != 0 {
					if h.Vis[a][j] == 2 {
						break
					}
					root = a
				}
			}
			if h.dist(s, root) >= 0 || h.dist(root, s) >= 0 {
				return f, true
			}
		}
	}
	return -1, false
}

// allPublic: every declaration of mj on y's chain is public.
func (h *Hier) allPublic(y, j int) bool {
	for c := y; c >= 0; c = h.Parent[c] {
		if h.CM[c][j] != 0 && h.Vis[c][j] != 0 {
			return false
		}
	}
	return true
}

var visName = []string{"public", "protected", "private"}

func (h *Hier) declares(t, j int) bool {
	if t < h.NC {
		return h.CM[t][j] != 0
	}
	return h.IM[t-h.NC][j]
}

// structKey is a canonical rendering of the edge sets (not of the methods).
func (h *Hier) structKey() string {
	var sb strings.Builder
	for c := 0; c < h.NC; c++ {
		fmt.Fprintf(&sb, "C%d<%d%v;", c, h.Parent[c], h.Impl[c])
	}
	for i := 0; i < h.NI; i++ {
		fmt.Fprintf(&sb, "I%d<%v;", i, h.IExt[i])
	}
	return sb.String()
}

func (h *Hier) fullKey() string {
	return fmt.Sprintf("%s|%v|%v|%v|%v|%v|%v|%v|%v", h.structKey(), h.Abstract, h.ThrowRoot, h.CM, h.CS, h.IM, h.Arity, h.ArB, h.Vis)
}

func (h *Hier) describe() string {
	var sb strings.Builder
	for i := 0; i < h.NI; i++ {
		fmt.Fprintf(&sb, "interface I%d", i)
		if len(h.IExt[i]) > 0 {
			sb.WriteString(" extends")
			for k, j := range h.IExt[i] {
				if k > 0 {
					sb.WriteString(",")
				}
				fmt.Fprintf(&sb, " I%d", j)
			}
		}
		sb.WriteString(" {")
		for j := 0; j < NM; j++ {
			if h.IM[i][j] {
				fmt.Fprintf(&sb, " m%d/%d", j, h.Arity[h.inode(i)][j])
			}
		}
		sb.WriteString(" }\n")
	}
	for c := 0; c < h.NC; c++ {
		if h.Abstract[c] {
			sb.WriteString("abstract ")
		}
		fmt.Fprintf(&sb, "class C%d", c)
		if h.Parent[c] >= 0 {
			fmt.Fprintf(&sb, " extends C%d", h.Parent[c])
		} else if h.ThrowRoot[c] {
			sb.WriteString(" extends Exception")
		}
		if len(h.Impl[c]) > 0 {
			sb.WriteString(" implements")
			for k, j := range h.Impl[c] {
				if k > 0 {
					sb.WriteString(",")
				}
				fmt.Fprintf(&sb, " I%d", j)
			}
		}
		sb.WriteString(" {")
		for j := 0; j < NM; j++ {
			if h.CM[c][j] != 0 {
				fmt.Fprintf(&sb, " %sm%d/%d", []string{"", "protected:", "private:"}[h.Vis[c][j]], j, h.Arity[c][j])
				if h.ArB != nil && h.ArB[c][j] != h.Arity[c][j] {
					fmt.Fprintf(&sb, "(like-script:%d)", h.ArB[c][j])
				}
				if h.CM[c][j] == 2 {
					sb.WriteString("^")
				}
			}
		}
		for j := 0; j < NS; j++ {
			if h.CS[c][j] != 0 {
				fmt.Fprintf(&sb, " s%d", j)
				if h.CS[c][j] == 2 {
					sb.WriteString("^")
				}
			}
		}
		sb.WriteString(" }\n")
	}
	return sb.String()
}

// ---------------------------------------------------------------------------------
// shape descriptors used in violation keys (a function of the graph shape around the
// (object, type) pair only, never of names or of the seed)

func capn(n, max int) string {
	if n >= max {
		return fmt.Sprintf("%d+", max)
	}
	return fmt.Sprint(n)
}

// ifaceDist: least number of interface-extends steps from interface a to interface b, -1
// if unreachable; firstOnly restricts the walk to first-listed parents.
func (h *Hier) ifaceDist(a, b int, firstOnly bool) int {
	if a == b {
		return 0
	}
	best := -1
	for k, p := range h.IExt[a] {
		if firstOnly && k > 0 {
			break
		}
		if d := h.ifaceDist(p, b, firstOnly); d >= 0 && (best < 0 || d+1 < best) {
			best = d + 1
		}
	}
	return best
}

// relShape describes how type node t relates to class y.
func (h *Hier) relShape(y, t int) string {
	if t < h.NC {
		switch {
		case t == y:
			return "self"
		case h.dist(y, t) > 0:
			return "anc" + capn(h.dist(y, t), 3)
		case h.dist(t, y) > 0:
			return "desc"
		case h.root(t) == h.root(y):
			return "sibling"
		}
		return "unrel"
	}
	ti := t - h.NC
	if h.sub[y][t] {
		bu, bv := -1, -1
		first := false
		u := 0
		for c := y; c >= 0; c = h.Parent[c] {
			for k, i := range h.Impl[c] {
				if v := h.ifaceDist(i, ti, false); v >= 0 {
					if bu < 0 || u+v < bu+bv {
						bu, bv = u, v
					}
				}
				if k == 0 && h.ifaceDist(i, ti, true) >= 0 {
					first = true
				}
			}
			u++
		}
		s := "ifc.u" + capn(bu, 2) + ".v" + capn(bv, 2)
		if !first {
			s += ".later"
		}
		return s
	}
	for c := 0; c < h.NC; c++ {
		if c != y && h.dist(c, y) > 0 && h.sub[c][t] {
			return "ifc.of-desc"
		}
	}
	for i := 0; i < h.NI; i++ {
		if i != ti && h.sub[y][h.inode(i)] && h.sub[t][h.inode(i)] {
			return "ifc.subiface"
		}
	}
	for c := 0; c < h.NC; c++ {
		if h.root(c) == h.root(y) && h.sub[c][t] {
			return "ifc.of-sibling"
		}
	}
	return "ifc.unrel"
}

// transitiveOnly: the pair is related only through a transitive edge (interface of an
// ancestor, or an interface-extends chain) — the non-triviality rule of the evidence.
func (h *Hier) transitiveOnly(y, t int) bool {
	if t < h.NC || !h.sub[y][t] {
		return false
	}
	for _, i := range h.Impl[y] {
		if i == t-h.NC {
			return false
		}
	}
	return true
}

// normMarker rewrites class names in a dispatch marker relative to the runtime class y
// (^0 = y, ^1 = parent, ...; other classes become C?), and drops method indices.
func (h *Hier) normMarker(y int, s string) string {
	if strings.HasPrefix(s, "ERR:") {
		return "ERR"
	}
	var out strings.Builder
	for i := 0; i < len(s); {
		if s[i] == 'C' && i+1 < len(s) && s[i+1] >= '0' && s[i+1] <= '9' && (i == 0 || !isWord(s[i-1])) {
			c := int(s[i+1] - '0')
			if i+2 < len(s) && isWord(s[i+2]) {
				out.WriteByte(s[i])
				i++
				continue
			}
			if c < h.NC && h.dist(y, c) >= 0 {
				fmt.Fprintf(&out, "^%d", h.dist(y, c))
			} else if c < h.NC && h.dist(c, y) > 0 {
				out.WriteString("desc")
			} else {
				out.WriteString("C?")
			}
			i += 2
			continue
		}
		if (s[i] == 'm' || s[i] == 's') && i+1 < len(s) && s[i+1] >= '0' && s[i+1] <= '9' && i > 0 && s[i-1] == ':' {
			out.WriteByte(s[i])
			i += 2
			continue
		}
		if s[i] == ' ' || s[i] == '\t' {
			out.WriteByte('_')
			i++
			continue
		}
		out.WriteByte(s[i])
		i++
	}
	r := out.String()
	if len(r) > 60 {
		r = r[:60]
	}
	return r
}

func isWord(b byte) bool {
	return b == '_' || (b >= '0' && b <= '9') || (b >= 'a' && b <= 'z') || (b >= 'A' && b <= 'Z')
}

// ---------------------------------------------------------------------------------
// generation

func newHier(nc, ni int) *Hier {
	h := &Hier{NC: nc, NI: ni}
	h.Parent = make([]int, nc)
	h.Abstract = make([]bool, nc)
	h.ThrowRoot = make([]bool, nc)
	h.Impl = make([][]int, nc)
	h.CM = make([][NM]int, nc)
	h.CS = make([][NS]int, nc)
	h.IExt = make([][]int, ni)
	h.IM = make([][NM]bool, ni)
	return h
}

// randMethods fills declarations/overrides at arbitrary levels.
func (h *Hier) randMethods(r *rand.Rand, variant int) {
	pc, pi := 0.5, 0.4
	switch variant % 4 {
	case 1:
		pc, pi = 0.85, 0.6 // override almost everywhere
	case 2:
		pc, pi = 0.25, 0.3 // sparse: long inheritance of one definition
	}
	for c := 0; c < h.NC; c++ {
		for j := 0; j < NM; j++ {
			if r.Float64() < pc {
				h.CM[c][j] = 1 + r.Intn(2)
			}
		}
		for j := 0; j < NS; j++ {
			if r.Float64() < pc {
				h.CS[c][j] = 1 + r.Intn(2)
			}
		}
	}
	for i := 0; i < h.NI; i++ {
		for j := 0; j < NM; j++ {
			if r.Float64() < pi {
				h.IM[i][j] = true
			}
		}
	}
	hasChild := make([]bool, h.NC)
	for c := 0; c < h.NC; c++ {
		if h.Parent[c] >= 0 {
			hasChild[h.Parent[c]] = true
		}
	}
	for c := 0; c < h.NC; c++ {
		if hasChild[c] && r.Float64() < 0.2 {
			h.Abstract[c] = true
		}
	}
}

// enumSmall enumerates every labelled hierarchy with 1..3 classes and 0..2 interfaces
// (parents/extended interfaces have lower indices; every subset of implements edges).
// This is a superset of "all edge sets up to isomorphism".
func enumSmall() []*Hier {
	var out []*Hier
	for nc := 1; nc <= 3; nc++ {
		var parents [][]int
		var rec func(p []int)
		rec = func(p []int) {
			if len(p) == nc {
				parents = append(parents, append([]int(nil), p...))
				return
			}
			for q := -1; q < len(p); q++ {
				rec(append(p, q))
			}
		}
		rec(nil)
		for ni := 0; ni <= 2; ni++ {
			extOpts := 1
			if ni == 2 {
				extOpts = 2
			}
			for _, par := range parents {
				for ext := 0; ext < extOpts; ext++ {
					for mask := 0; mask < 1<<(nc*ni); mask++ {
						h := newHier(nc, ni)
						copy(h.Parent, par)
						if ext == 1 {
							h.IExt[1] = []int{0}
						}
						for c := 0; c < nc; c++ {
							for i := 0; i < ni; i++ {
								if mask&(1<<(c*ni+i)) != 0 {
									h.Impl[c] = append(h.Impl[c], i)
								}
							}
						}
						out = append(out, h)
					}
				}
			}
		}
	}
	return out
}

// enumLattices enumerates every extends-DAG over 4 interfaces (edges to lower indices, all 64
// subsets) in two listing orders, under a fixed small class forest: C0 implements only the
// top interface, C1 extends C0, C2 implements the two upper interfaces, C3 extends C2.
// This puts "the k-th parent of an interface at depth d" on every position systematically.
func enumLattices() []*Hier {
	var out []*Hier
	type edge struct{ a, b int }
	var edges []edge
	for a := 1; a < 4; a++ {
		for b := 0; b < a; b++ {
			edges = append(edges, edge{a, b})
		}
	}
	for mask := 0; mask < 1<<len(edges); mask++ {
		for order := 0; order < 2; order++ {
			h := newHier(4, 4)
			h.Parent = []int{-1, 0, -1, 2}
			for k, e := range edges {
				if mask&(1<<k) != 0 {
					h.IExt[e.a] = append(h.IExt[e.a], e.b)
				}
			}
			if order == 1 {
				for i := range h.IExt {
					l := h.IExt[i]
					for a, b := 0, len(l)-1; a < b; a, b = a+1, b-1 {
						l[a], l[b] = l[b], l[a]
					}
				}
			}
			h.Impl[0] = []int{3}
			if order == 0 {
				h.Impl[2] = []int{2, 3}
			} else {
				h.Impl[2] = []int{3, 2}
			}
			out = append(out, h)
		}
	}
	return out
}

func (h *Hier) clone() *Hier {
	g := newHier(h.NC, h.NI)
	copy(g.Parent, h.Parent)
	for c := range h.Impl {
		g.Impl[c] = append([]int(nil), h.Impl[c]...)
	}
	for i := range h.IExt {
		g.IExt[i] = append([]int(nil), h.IExt[i]...)
	}
	return g
}

// randHier draws a larger hierarchy: 3..5 classes, 2..4 interfaces, multiple extends.
func randHier(r *rand.Rand) *Hier {
	nc := 3 + r.Intn(3)
	ni := 2 + r.Intn(3)
	h := newHier(nc, ni)
	pRoot := []float64{0.2, 0.35, 0.5}[r.Intn(3)]
	for c := 0; c < nc; c++ {
		h.Parent[c] = -1
		if c > 0 && r.Float64() >= pRoot {
			if r.Intn(2) == 0 {
				h.Parent[c] = c - 1 // favour deep chains
			} else {
				h.Parent[c] = r.Intn(c)
			}
		}
	}
	pe := []float64{0.3, 0.5, 0.7}[r.Intn(3)]
	for i := 1; i < ni; i++ {
		for j := 0; j < i; j++ {
			if r.Float64() < pe {
				h.IExt[i] = append(h.IExt[i], j)
			}
		}
		r.Shuffle(len(h.IExt[i]), func(a, b int) { h.IExt[i][a], h.IExt[i][b] = h.IExt[i][b], h.IExt[i][a] })
	}
	pm := []float64{0.15, 0.3, 0.45}[r.Intn(3)]
	for c := 0; c < nc; c++ {
		for i := 0; i < ni; i++ {
			if r.Float64() < pm {
				h.Impl[c] = append(h.Impl[c], i)
			}
		}
		r.Shuffle(len(h.Impl[c]), func(a, b int) { h.Impl[c][a], h.Impl[c][b] = h.Impl[c][b], h.Impl[c][a] })
	}
	return h
}

func sortedKeys(m map[string]int) []string {
	ks := make([]string, 0, len(m))
	for k := range m {
		ks = append(ks, k)
	}
	sort.Strings(ks)
	return ks
}
