package main

import (
	"fmt"
	"strings"
)

// Row is one printed observation `id=value` and what the rules prescribe for it.
type Row struct {
	ID         string
	Want       string
	Stem       string // violation key: part before got=/want=
	Tail       string // violation key: part after got=/want= (shape of the pair / call site)
	DefX       int    // class-name rows: the class whose body contains the expression, else -1
	NormY      int    // runtime class used to normalise dispatch markers; -1 for T/F rows
	Nontrivial bool   // the row exercises a transitive-only edge
	ErrOpen    bool   // a catchable error is an accepted "form not supported" outcome (not compared)
}

type Script struct {
	Kind string // "A" relations+dispatch, "B" like
	Src  string
	Rows []Row
}

type tref struct {
	name string
	node int // type node, or -1 for a built-in
}

func params(n int) string { return []string{"", "$a", "$a, $b"}[n] }
func args(n int) string   { return []string{"", "1", "1, 2"}[n] }

type writer struct {
	h    *Hier
	sb   strings.Builder
	rows []Row
}

func (w *writer) p(f string, a ...any) { fmt.Fprintf(&w.sb, f, a...) }

const catchErr = ` catch (\Throwable $e) { $r = "ERR:" . $e->getMessage(); }`

func (w *writer) row(r Row, expr string) {
	w.p("try { $r = %s; }%s echo \"%s=\", $r, \"\\n\";\n", expr, catchErr, r.ID)
	w.rows = append(w.rows, r)
}

func (w *writer) boolRow(r Row, cond string) {
	w.row(r, "(("+cond+") ? \"T\" : \"F\")")
}

func tf(b bool) string {
	if b {
		return "T"
	}
	return "F"
}

func (w *writer) header(h *Hier, withStatics bool, ar [][NM]int, body func(c int)) {
	w.p("<?php\n")
	for i := 0; i < h.NI; i++ {
		w.p("interface %s", h.iname(i))
		for k, j := range h.IExt[i] {
			if k == 0 {
				w.p(" extends ")
			} else {
				w.p(", ")
			}
			w.p("%s", h.iname(j))
		}
		w.p(" {\n")
		for j := 0; j < NM; j++ {
			if h.IM[i][j] {
				w.p("  public function m%d(%s);\n", j, params(ar[h.inode(i)][j]))
			}
		}
		w.p("}\n")
	}
	for c := 0; c < h.NC; c++ {
		if h.Abstract[c] {
			w.p("abstract ")
		}
		w.p("class %s", h.cname(c))
		if h.Parent[c] >= 0 {
			w.p(" extends %s", h.cname(h.Parent[c]))
		} else if h.ThrowRoot[c] && withStatics {
			w.p(" extends Exception")
		}
		for k, j := range h.Impl[c] {
			if k == 0 {
				w.p(" implements ")
			} else {
				w.p(", ")
			}
			w.p("%s", h.iname(j))
		}
		w.p(" {\n")
		body(c)
		w.p("}\n")
	}
}

// scriptA prints the hierarchy with marker bodies and helper methods, then every
// (object, type) row and every (object, method, call form) row.
func (h *Hier) scriptA() Script {
	w := &writer{h: h}
	anyThrow := false
	for c := 0; c < h.NC; c++ {
		if h.Parent[c] < 0 && h.ThrowRoot[c] {
			anyThrow = true
		}
	}
	var types []tref
	for t := 0; t < h.N(); t++ {
		types = append(types, tref{h.tname(t), t})
	}
	if anyThrow {
		types = append(types, tref{"Exception", -1}, tref{"Throwable", -1})
	}

	w.header(h, true, h.Arity, func(c int) {
		cn := h.cname(c)
		for j := 0; j < NM; j++ {
			if h.CM[c][j] == 0 {
				continue
			}
			ar := h.Arity[c][j]
			w.p("  %s function m%d(%s) { return \"%s::m%d\"", visName[h.Vis[c][j]], j, params(ar), cn, j)
			if h.CM[c][j] == 2 {
				w.p(" . \">\" . parent::m%d(%s)", j, params(ar))
			}
			w.p("; }\n")
		}
		for j := 0; j < NS; j++ {
			if h.CS[c][j] == 0 {
				continue
			}
			w.p("  public static function s%d() { return \"%s::s%d\"", j, cn, j)
			if h.CS[c][j] == 2 {
				w.p(" . \">\" . parent::s%d()", j)
			}
			w.p("; }\n")
		}
		for j := 0; j < NM; j++ {
			if d := h.provides(c, j); d >= 0 {
				a := args(h.Arity[d][j])
				w.p("  public function this_%s_m%d() { return $this->m%d(%s); }\n", cn, j, j, a)
				w.p("  public function self_%s_m%d() { return self::m%d(%s); }\n", cn, j, j, a)
				w.p("  public function stat_%s_m%d() { return static::m%d(%s); }\n", cn, j, j, a)
				// runOn: code of this class calls the method on another object
				w.p("  public function runon_%s_m%d($o) { return $o->m%d(%s); }\n", cn, j, j, a)
			}
			if p := h.Parent[c]; p >= 0 {
				if d := h.provides(p, j); d >= 0 {
					if h.Vis[d][j] != 2 {
						w.p("  public function par_%s_m%d() { return parent::m%d(%s); }\n", cn, j, j, args(h.Arity[d][j]))
					}
					// template method of the parent reached through parent::
					w.p("  public function vp_%s_m%d() { return parent::this_%s_m%d(); }\n", cn, j, h.cname(p), j)
				}
			}
		}
		for j := 0; j < NS; j++ {
			if h.sprovides(c, j) >= 0 {
				w.p("  public function iself_%s_s%d() { return self::s%d(); }\n", cn, j, j)
				w.p("  public function istat_%s_s%d() { return static::s%d(); }\n", cn, j, j)
				w.p("  public static function sself_%s_s%d() { return self::s%d(); }\n", cn, j, j)
				w.p("  public static function sstat_%s_s%d() { return static::s%d(); }\n", cn, j, j)
			}
			if h.sprovides(c, j) >= 0 {
				// chains of late-bound hops: every hop is found on an ancestor of the runtime class when
				// the object/class is a descendant of this one, and the last hop still has to bind to
				// the runtime class
				w.p("  public static function lb2_%s_s%d() { return static::sstat_%s_s%d(); }\n", cn, j, cn, j)
				w.p("  public static function lb3_%s_s%d() { return static::lb2_%s_s%d(); }\n", cn, j, cn, j)
				w.p("  public function ilb2_%s_s%d() { return static::sstat_%s_s%d(); }\n", cn, j, cn, j)
				w.p("  public function ilb3_%s_s%d() { return static::lb2_%s_s%d(); }\n", cn, j, cn, j)
				if r := h.topProvider(c, j); r != c {
					w.p("  public static function lbx_%s_s%d() { return static::sstat_%s_s%d(); }\n", cn, j, h.cname(r), j)
				}
			}
			if p := h.Parent[c]; p >= 0 && h.sprovides(p, j) >= 0 {
				w.p("  public function ipar_%s_s%d() { return parent::s%d(); }\n", cn, j, j)
				w.p("  public static function spar_%s_s%d() { return parent::s%d(); }\n", cn, j, j)
			}
		}
		w.p("  public static function lbc2_%s() { return static::slsb_%s(); }\n", cn, cn)
		w.p("  public function ilbc2_%s() { return static::slsb_%s(); }\n", cn, cn)
		ctorArgs := ""
		if h.throwable(c) {
			ctorArgs = "\"x\""
		}
		w.p("  public static function mk_%s() { return new static(%s); }\n", cn, ctorArgs)
		w.p("  public static function lbn2_%s() { return static::mk_%s(); }\n", cn, cn)
		w.p("  public function ilbn2_%s() { return static::mk_%s(); }\n", cn, cn)
		w.p("  public function cls_%s() { return self::class; }\n", cn)
		w.p("  public function lsb_%s() { return static::class; }\n", cn)
		w.p("  public static function scls_%s() { return self::class; }\n", cn)
		w.p("  public static function slsb_%s() { return static::class; }\n", cn)
		if h.Parent[c] < 0 {
			for _, t := range types {
				w.p("  public function this_is_%s() { return ($this instanceof %s) ? \"T\" : \"F\"; }\n", t.name, t.name)
				w.p("  public function pass_%s() { return acc_%s($this); }\n", t.name, t.name)
			}
			if h.ThrowRoot[c] {
				w.p("  public function throw_self() { throw $this; }\n")
			}
		}
	})
	w.p("class H {\n")
	for _, t := range types {
		w.p("  public function acc_%s(%s $x) { return \"ok\"; }\n", t.name, t.name)
		w.p("  public static function sacc_%s(%s $x) { return \"ok\"; }\n", t.name, t.name)
	}
	w.p("}\n")
	for _, t := range types {
		w.p("function acc_%s(%s $x) { return \"ok\"; }\n", t.name, t.name)
	}
	w.p("$h = new H();\n")
	for y := 0; y < h.NC; y++ {
		if h.Abstract[y] {
			continue
		}
		if h.throwable(y) {
			w.p("$o%d = new %s(\"x\");\n", y, h.cname(y))
		} else {
			w.p("$o%d = new %s();\n", y, h.cname(y))
		}
	}

	// (object, type) rows
	for y := 0; y < h.NC; y++ {
		if h.Abstract[y] {
			continue
		}
		o := fmt.Sprintf("$o%d", y)
		for _, t := range types {
			var is, nt bool
			var rel string
			if t.node >= 0 {
				is = h.sub[y][t.node]
				rel = h.relShape(y, t.node)
				nt = h.transitiveOnly(y, t.node)
			} else {
				is = h.throwable(y)
				rel = "builtin." + t.name + "." + map[bool]string{true: "thrown", false: "plain"}[is]
			}
			acc := map[bool]string{true: "ok", false: "ERR"}[is]
			mk := func(form, want string) Row {
				return Row{ID: fmt.Sprintf("%s.%d.%s", form, y, t.name), Want: want, Stem: "form=" + form, Tail: ",rel=" + rel, NormY: -1, DefX: -1, Nontrivial: nt}
			}
			w.boolRow(mk("io", tf(is)), o+" instanceof "+t.name)
			w.row(mk("it", tf(is)), o+"->this_is_"+t.name+"()")
			w.row(mk("pf", acc), "acc_"+t.name+"("+o+")")
			w.row(mk("pm", acc), "$h->acc_"+t.name+"("+o+")")
			w.row(mk("ps", acc), "H::sacc_"+t.name+"("+o+")")
			w.row(mk("pt", acc), o+"->pass_"+t.name+"()")
			if h.throwable(y) {
				r := mk("ca", tf(is))
				w.p("try { throw %s; } catch (%s $e) { $r = \"T\"; } catch (\\Throwable $e) { $r = \"F\"; } echo \"%s=\", $r, \"\\n\";\n", o, t.name, r.ID)
				w.rows = append(w.rows, r)
				r = mk("ct", tf(is))
				w.p("try { %s->throw_self(); $r = \"NOTHROW\"; } catch (%s $e) { $r = \"T\"; } catch (\\Throwable $e) { $r = \"F\"; } echo \"%s=\", $r, \"\\n\";\n", o, t.name, r.ID)
				w.rows = append(w.rows, r)
			}
		}
	}

	// (object, method, call form) rows
	for y := 0; y < h.NC; y++ {
		yn := h.cname(y)
		inst := !h.Abstract[y]
		o := fmt.Sprintf("$o%d", y)
		mk := func(form string, x int, what, want string) Row {
			stem, tail, defx := "form="+form, "", -1
			if what == "class" {
				defx = x
			}
			// self::m() / static::m() naming a NON-static method: the statement fixes the binding,
			// not whether the form is available at all; origami rejects it with a catchable error
			open := form == "di" || form == "dj"
			if x >= 0 {
				tail = fmt.Sprintf(",x=^%d", h.dist(y, x))
				return Row{ID: fmt.Sprintf("%s.%d.%d.%s", form, y, x, what), Want: want, Stem: stem, Tail: tail, NormY: y, DefX: defx, ErrOpen: open}
			}
			return Row{ID: fmt.Sprintf("%s.%d.%s", form, y, what), Want: want, Stem: stem, Tail: tail, NormY: y, DefX: defx, ErrOpen: open}
		}
		// visTag names the visibilities involved when they are not all public
		visTag := func(s, rcv, j int) string {
			if h.allPublic(rcv, j) {
				return ""
			}
			f := h.provides(rcv, j)
			t := ",vis=" + visName[h.Vis[f][j]]
			if d, ok := h.resolve(s, rcv, j); ok && d != f {
				t += "+private-in-scope"
			}
			return t
		}
		for j := 0; j < NM && inst; j++ {
			if d, ok := h.resolve(-1, y, j); ok {
				w.row(mk("dm", -1, fmt.Sprintf("m%d", j), h.marker(d, j)), fmt.Sprintf("%s->m%d(%s)", o, j, args(h.Arity[d][j])))
			}
		}
		for j := 0; j < NS; j++ {
			if d := h.sprovides(y, j); d >= 0 {
				w.row(mk("dS", -1, fmt.Sprintf("s%d", j), h.smarker(d, j)), fmt.Sprintf("%s::s%d()", yn, j))
			}
		}
		for x := y; x >= 0; x = h.Parent[x] {
			xn := h.cname(x)
			for j := 0; j < NM && inst; j++ {
				m := fmt.Sprintf("m%d", j)
				if h.provides(x, j) >= 0 {
					if d, ok := h.resolve(x, y, j); ok {
						r := mk("dh", x, m, h.marker(d, j))
						r.Tail += visTag(x, y, j)
						w.row(r, fmt.Sprintf("%s->this_%s_%s()", o, xn, m))
					}
					if h.allPublic(y, j) {
						w.row(mk("di", x, m, h.marker(h.provides(x, j), j)), fmt.Sprintf("%s->self_%s_%s()", o, xn, m))
						w.row(mk("dj", x, m, h.marker(h.provides(y, j), j)), fmt.Sprintf("%s->stat_%s_%s()", o, xn, m))
					}
					// runOn: an object of y (or of the nearest concrete class at/below x) runs x's code
					// on every concrete receiver that lies on one chain with x
					for rcv := 0; rcv < h.NC; rcv++ {
						if h.Abstract[rcv] || (h.dist(rcv, x) < 0 && h.dist(x, rcv) < 0) {
							continue
						}
						d, ok := h.resolve(x, rcv, j)
						if !ok {
							continue
						}
						pos := fmt.Sprintf("rcv=^%d", h.dist(rcv, x)) // receiver at/below the calling code's class
						if h.dist(rcv, x) < 0 {
							pos = fmt.Sprintf("rcv=above%d", h.dist(x, rcv))
						}
						r := Row{ID: fmt.Sprintf("ro.%d.%d.%d.%s", y, x, rcv, m), Want: h.marker(d, j), Stem: "form=ro", Tail: "," + pos + visTag(x, rcv, j), NormY: rcv, DefX: -1}
						w.row(r, fmt.Sprintf("%s->runon_%s_%s($o%d)", o, xn, m, rcv))
					}
				}
				if p := h.Parent[x]; p >= 0 && h.provides(p, j) >= 0 {
					if d := h.provides(p, j); h.Vis[d][j] != 2 {
						r := mk("dp", x, m, h.marker(d, j))
						r.Tail += visTag(x, p, j)
						w.row(r, fmt.Sprintf("%s->par_%s_%s()", o, xn, m))
					}
					if d, ok := h.resolve(p, y, j); ok {
						r := mk("vp", x, m, h.marker(d, j))
						r.Tail += visTag(p, y, j)
						w.row(r, fmt.Sprintf("%s->vp_%s_%s()", o, xn, m))
					}
				}
			}
			for j := 0; j < NS; j++ {
				s := fmt.Sprintf("s%d", j)
				if h.sprovides(x, j) >= 0 {
					wx := h.smarker(h.sprovides(x, j), j)
					wy := h.smarker(h.sprovides(y, j), j)
					if inst {
						w.row(mk("ei", x, s, wx), fmt.Sprintf("%s->iself_%s_%s()", o, xn, s))
						w.row(mk("ej", x, s, wy), fmt.Sprintf("%s->istat_%s_%s()", o, xn, s))
					}
					w.row(mk("fi", x, s, wx), fmt.Sprintf("%s::sself_%s_%s()", yn, xn, s))
					w.row(mk("fj", x, s, wy), fmt.Sprintf("%s::sstat_%s_%s()", yn, xn, s))
				}
				if h.sprovides(x, j) >= 0 {
					wy := h.smarker(h.sprovides(y, j), j)
					w.row(mk("g2", x, s, wy), fmt.Sprintf("%s::lb2_%s_%s()", yn, xn, s))
					w.row(mk("g3", x, s, wy), fmt.Sprintf("%s::lb3_%s_%s()", yn, xn, s))
					if h.topProvider(x, j) != x {
						w.row(mk("gx", x, s, wy), fmt.Sprintf("%s::lbx_%s_%s()", yn, xn, s))
					}
					if inst {
						w.row(mk("h2", x, s, wy), fmt.Sprintf("%s->ilb2_%s_%s()", o, xn, s))
						w.row(mk("h3", x, s, wy), fmt.Sprintf("%s->ilb3_%s_%s()", o, xn, s))
					}
				}
				if p := h.Parent[x]; p >= 0 && h.sprovides(p, j) >= 0 {
					wp := h.smarker(h.sprovides(p, j), j)
					if inst {
						w.row(mk("ep", x, s, wp), fmt.Sprintf("%s->ipar_%s_%s()", o, xn, s))
					}
					w.row(mk("fp", x, s, wp), fmt.Sprintf("%s::spar_%s_%s()", yn, xn, s))
				}
			}
			if inst {
				w.row(mk("dc", x, "class", xn), fmt.Sprintf("%s->cls_%s()", o, xn))
				w.row(mk("dd", x, "class", yn), fmt.Sprintf("%s->lsb_%s()", o, xn))
			}
			w.row(mk("gc", x, "class", yn), fmt.Sprintf("%s::lbc2_%s()", yn, xn))
			if inst {
				w.row(mk("hc", x, "class", yn), fmt.Sprintf("%s->ilbc2_%s()", o, xn))
				// `new static()` needs an instantiable runtime class
				w.row(mk("n1", x, "class", yn), fmt.Sprintf("get_class(%s::mk_%s())", yn, xn))
				w.row(mk("gn", x, "class", yn), fmt.Sprintf("get_class(%s::lbn2_%s())", yn, xn))
				w.row(mk("hn", x, "class", yn), fmt.Sprintf("get_class(%s->ilbn2_%s())", o, xn))
			}
			w.row(mk("fc", x, "class", xn), fmt.Sprintf("%s::scls_%s()", yn, xn))
			w.row(mk("fd", x, "class", yn), fmt.Sprintf("%s::slsb_%s()", yn, xn))
		}
	}
	w.p("echo \"END=1\\n\";\n")
	return Script{Kind: "A", Src: w.sb.String(), Rows: w.rows}
}

type msig struct{ j, ar int }

func (h *Hier) directMethods(t int) []msig {
	var out []msig
	for j := 0; j < NM; j++ {
		if h.declares(t, j) {
			out = append(out, msig{j, h.ArB[t][j]})
		}
	}
	return out
}

// allMethods: every declaration of T and of every supertype of T (each with its own parameter
// count). Any reading of "the methods T declares" lies between directMethods and this set, and
// `has` can only get falser with more requirements, so when the two ends agree every reading
// agrees.
func (h *Hier) allMethods(t int) []msig {
	var out []msig
	for j := 0; j < NM; j++ {
		for s := 0; s < h.N(); s++ {
			if h.sub[t][s] && h.declares(s, j) {
				out = append(out, msig{j, h.ArB[s][j]})
			}
		}
	}
	return out
}

func (h *Hier) has(y int, ms []msig) bool {
	for _, m := range ms {
		d := h.provides(y, m.j)
		if d < 0 || h.ArB[d][m.j] != m.ar {
			return false
		}
	}
	return true
}

// scriptB prints the bare hierarchy (only the declared methods) and every `$o like T` row.
func (h *Hier) scriptB() Script {
	w := &writer{h: h}
	w.header(h, false, h.ArB, func(c int) {
		for j := 0; j < NM; j++ {
			if h.CM[c][j] != 0 {
				w.p("  public function m%d(%s) { return \"%s::m%d\"; }\n", j, params(h.ArB[c][j]), h.cname(c), j)
			}
		}
	})
	for y := 0; y < h.NC; y++ {
		if !h.Abstract[y] {
			w.p("$o%d = new %s();\n", y, h.cname(y))
		}
	}
	for y := 0; y < h.NC; y++ {
		if h.Abstract[y] {
			continue
		}
		for t := 0; t < h.N(); t++ {
			direct := h.directMethods(t)
			want := h.has(y, direct)
			if want != h.has(y, h.allMethods(t)) {
				continue // the statement does not say whether T's inherited methods count
			}
			obj := "own"
			switch {
			case len(direct) == 0:
				obj = "empty"
			default:
				missing, arity, inh := false, false, false
				for _, m := range direct {
					d := h.provides(y, m.j)
					switch {
					case d < 0:
						missing = true
					case h.ArB[d][m.j] != m.ar:
						arity = true
					case d != y:
						inh = true
					}
				}
				switch {
				case missing:
					obj = "missing"
				case arity:
					obj = "arity"
				case inh:
					obj = "inh"
				}
			}
			tk := "cls"
			if t >= h.NC {
				tk = "ifc"
			}
			nominal := "nom"
			if !h.sub[y][t] {
				nominal = "str"
			}
			r := Row{ID: fmt.Sprintf("lk.%d.%s", y, h.tname(t)), Want: tf(want), Stem: "form=lk,obj=" + obj, Tail: ",t=" + tk + "." + nominal, NormY: -1, DefX: -1,
				Nontrivial: h.transitiveOnly(y, t)}
			w.boolRow(r, fmt.Sprintf("$o%d like %s", y, h.tname(t)))
		}
	}
	w.p("echo \"END=1\\n\";\n")
	return Script{Kind: "B", Src: w.sb.String(), Rows: w.rows}
}
