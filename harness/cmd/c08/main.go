// Check C08: instanceof, type hints, catch and dispatch follow the declared class hierarchy.
//
// A graph generator owns the hierarchy (classes, interfaces, extends/implements edges,
// overrides); a printer renders it as an origami script that prints one `id=value` line per
// (object, type, form) and per (object, method, call form); the expected value of every line
// is computed in Go from the graph (Warshall closure, nearest-declaration walk) and compared.
package main

import (
	"fmt"
	"os"
	"path/filepath"
	"strings"
	"sync"
	"time"

	"verif/lib"
)

type Case struct {
	Name string
	H    *Hier
}

func buildCases(e *lib.Env) (cases []Case, nEnum int) {
	// 1. complete enumeration of the small hierarchies; each gets method assignments drawn
	//    from a stream keyed by its own structure (so the list is a pure function of seed+tier)
	variants := e.Pick(2, 8)
	for idx, base := range enumSmall() {
		for v := 0; v < variants; v++ {
			h := base.clone()
			r := e.Rand(fmt.Sprintf("enum/%d/%d", idx, v))
			h.randMethods(r, v)
			// odd variants root the class forest at Exception so that catch rows exist
			for c := 0; c < h.NC; c++ {
				if h.Parent[c] < 0 && v%2 == 1 {
					h.ThrowRoot[c] = true
				}
			}
			if v < 2 {
				for c := range h.Abstract {
					h.Abstract[c] = false
				}
			}
			h.finish(r)
			cases = append(cases, Case{fmt.Sprintf("enum%d.v%d", idx, v), h})
		}
	}
	// 1b. every extends-DAG over 4 interfaces under a fixed class forest
	for idx, h := range enumLattices() {
		r := e.Rand(fmt.Sprintf("lattice/%d", idx))
		h.randMethods(r, 2)
		for c := range h.Abstract {
			h.Abstract[c] = false
		}
		if idx%2 == 0 {
			h.ThrowRoot[0], h.ThrowRoot[2] = true, true
		}
		h.finish(r)
		cases = append(cases, Case{fmt.Sprintf("lattice%d", idx), h})
	}
	nEnum = len(cases)
	// 2. seeded larger hierarchies
	n := e.Pick(300, 5000)
	for k := 0; k < n; k++ {
		r := e.Rand(fmt.Sprintf("rand/%d", k))
		h := randHier(r)
		h.randMethods(r, r.Intn(4))
		for c := 0; c < h.NC; c++ {
			if h.Parent[c] < 0 && r.Intn(2) == 0 {
				h.ThrowRoot[c] = true
			}
		}
		h.finish(r)
		cases = append(cases, Case{fmt.Sprintf("rand%d", k), h})
	}
	return
}

type stats struct {
	mu          sync.Mutex
	rows        int
	rowsByForm  map[string]int
	likeShapes  map[string]int
	ntRows      int
	mismatch    int
	unsupported int
	crashes     int
}

func main() {
	e := lib.Init("C08", "exploration")
	e.RunScriptWitnesses()
	e.Assume(
		"programs are valid PHP-style declarations: every concrete class defines the methods its interfaces declare, and declarations of one method name that PHP requires to be signature-compatible share one parameter count",
		"`like`: 'every method T declares' is read as T's direct declarations; rows where the reading with T's inherited methods differs are not asserted",
		"instance and static method names are disjoint; `like` rows use classes without static methods",
	)
	cases, nEnum := buildCases(e)

	if d := os.Getenv("C08_DUMP"); d != "" { // development aid: write the scripts and exit
		_ = os.MkdirAll(d, 0o755)
		for _, c := range cases {
			for _, s := range []Script{c.H.scriptA(), c.H.scriptB()} {
				_ = os.WriteFile(filepath.Join(d, c.Name+"."+s.Kind+".php"), []byte(s.Src), 0o644)
			}
		}
		fmt.Println("dumped", len(cases), "cases to", d)
		_ = os.RemoveAll(e.Scratch)
		os.Exit(0)
	}

	st := &stats{rowsByForm: map[string]int{}, likeShapes: map[string]int{}}
	var nontrivial lib.DistinctCounter
	var distinctStruct lib.DistinctCounter
	var evals int64
	var evMu sync.Mutex
	samples := make([]any, 0, 4)

	lib.ParallelMap(len(cases), 0, func(i int) {
		c := cases[i]
		h := c.H
		ntSeen := false
		for _, s := range []Script{h.scriptA(), h.scriptB()} {
			if len(s.Rows) == 0 {
				continue
			}
			res := e.RunScript(s.Src, 120*time.Second)
			if res.TimedOut {
				e.Inconclusive("watchdog: " + c.Name + "." + s.Kind)
				continue
			}
			if res.Err != nil {
				e.Inconclusive("cannot start CLI: " + res.Err.Error())
				continue
			}
			evMu.Lock()
			evals++
			evMu.Unlock()
			if judge(e, st, c, s, res) {
				ntSeen = true
			}
		}
		distinctStruct.Add(h.structKey())
		if ntSeen {
			nontrivial.Add(lib.Hash(h.fullKey()))
		}
	})

	for _, i := range []int{nEnum - 1, len(cases) - 1} {
		if i >= 0 && i < len(cases) {
			s := cases[i].H.scriptA()
			samples = append(samples, map[string]any{"case": cases[i].Name, "hierarchy": cases[i].H.describe(), "rows": len(s.Rows), "first_rows": firstRows(s, 6)})
		}
	}
	e.Extra("rows_checked", st.rows)
	e.Extra("rows_by_form", st.rowsByForm)
	e.Extra("like_rows_by_shape", st.likeShapes)
	e.Extra("rows_on_transitive_only_edges", st.ntRows)
	e.Extra("row_mismatches_including_known", st.mismatch)
	e.Extra("hierarchies", len(cases))
	e.Extra("hierarchies_enumerated", nEnum)
	e.Extra("distinct_edge_sets", distinctStruct.N())
	e.Extra("crashes", st.crashes)
	e.Extra("rows_rejected_as_unsupported_form_not_compared", st.unsupported)
	e.Finish(lib.Coverage{
		Evaluations:        int(evals),
		DistinctNontrivial: nontrivial.N(),
		Rule:               "distinct hierarchies (edge sets + declarations) with at least one (object, interface) pair related only through a transitive edge (interface of an ancestor, or an interface-extends chain) whose rows were printed and compared",
		Samples:            samples,
		Exhaustive:         false,
	})
}

func firstRows(s Script, n int) []string {
	var out []string
	for i := 0; i < len(s.Rows) && i < n; i++ {
		out = append(out, s.Rows[i].ID+"="+s.Rows[i].Want)
	}
	return out
}

// judge compares the printed rows with the expected ones; returns whether a row on a
// transitive-only edge was actually observed.
func judge(e *lib.Env, st *stats, c Case, s Script, res lib.ProcResult) (ntSeen bool) {
	h := c.H
	got := map[string]string{}
	for _, ln := range strings.Split(res.Stdout, "\n") {
		if k, v, ok := strings.Cut(ln, "="); ok {
			if _, dup := got[k]; !dup {
				got[k] = v
			}
		}
	}
	replay := func() []byte {
		var sb strings.Builder
		sb.WriteString(s.Src)
		sb.WriteString("\n/* C08 case " + c.Name + "." + s.Kind + "\n" + h.describe() + "expected rows:\n")
		for _, r := range s.Rows {
			sb.WriteString(r.ID + "=" + r.Want + "\n")
		}
		sb.WriteString("*/\n")
		return []byte(sb.String())
	}
	if crashed, what := lib.GoCrash(res); crashed {
		st.mu.Lock()
		st.crashes++
		st.mu.Unlock()
		e.Violation("panic@"+lib.PanicSite(res.Stderr), "Go-level crash while running hierarchy "+c.Name+"."+s.Kind+": "+what, "php", replay())
		return false
	}
	byForm := map[string]int{}
	nRows, nNT, nMis, nOpen := 0, 0, 0, 0
	reportedMissing := false
	for _, r := range s.Rows {
		form := r.ID[:2]
		g, ok := got[r.ID]
		if !ok {
			// a missing row means the script died (uncaught error) — report the first one only
			if !reportedMissing {
				reportedMissing = true
				nMis++
				e.Violation(r.Stem+",got=MISSING,want="+normVal(h, r, r.Want)+r.Tail,
					fmt.Sprintf("row %s of %s.%s was never printed (script ended early, exit=%d); expected %s. stderr: %.400s\n%s", r.ID, c.Name, s.Kind, res.Exit, r.Want, res.Stderr, h.describe()),
					"php", replay())
			}
			continue
		}
		if r.ErrOpen && strings.HasPrefix(g, "ERR:") {
			nOpen++
			continue
		}
		nRows++
		byForm[form]++
		if form == "lk" {
			byForm[strings.TrimPrefix(r.Stem, "form=")+r.Tail]++
		}
		if r.Nontrivial {
			nNT++
			ntSeen = true
		}
		wn, gn := normVal(h, r, r.Want), normVal(h, r, g)
		if !sameVal(r.Want, g) {
			nMis++
			e.Violation(r.Stem+",got="+gn+",want="+wn+r.Tail,
				fmt.Sprintf("row %s of %s.%s: expected %s, origami printed %s\n%s", r.ID, c.Name, s.Kind, r.Want, g, h.describe()),
				"php", replay())
		}
	}
	if _, ok := got["END"]; !ok && !reportedMissing {
		e.Violation("form=end,got=MISSING", fmt.Sprintf("%s.%s: all rows printed but the script did not reach its end (exit=%d) stderr: %.300s", c.Name, s.Kind, res.Exit, res.Stderr), "php", replay())
	}
	st.mu.Lock()
	st.rows += nRows
	st.ntRows += nNT
	st.mismatch += nMis
	st.unsupported += nOpen
	for k, v := range byForm {
		if strings.HasPrefix(k, "lk,") {
			st.likeShapes[k] += v
		} else {
			st.rowsByForm[k] += v
		}
	}
	st.mu.Unlock()
	return
}

// normVal turns a printed/expected value into its seed-independent form for keys and
// comparison: ERR:<message> -> ERR; dispatch markers are compared verbatim but keyed
// relative to the runtime class.
func normVal(h *Hier, r Row, v string) string {
	if strings.HasPrefix(v, "ERR:") || v == "ERR" {
		return "ERR"
	}
	if r.DefX >= 0 && r.DefX != r.NormY {
		// class-name rows of inherited code: name the two classes the statement talks about
		switch v {
		case h.cname(r.DefX):
			return "defining"
		case h.cname(r.NormY):
			return "runtime"
		}
	}
	if r.NormY >= 0 {
		return h.normMarker(r.NormY, v)
	}
	v = strings.ReplaceAll(v, " ", "_")
	if len(v) > 40 {
		v = v[:40]
	}
	return v
}

// sameVal: verbatim comparison, except that any ERR:<message> equals the expectation ERR.
func sameVal(want, got string) bool {
	if want == "ERR" {
		return strings.HasPrefix(got, "ERR:")
	}
	return want == got
}
