package main

import (
	"fmt"
	"strconv"
	"strings"
)

// ---------------------------------------------------------------------------------
// markers printed by the generated scripts

type marker struct {
	status string // I: ok|failed   W: accepted|rejected   R: read
	cur    string // W/R: desc() of the property after the step
	msg    string // message of the caught Throwable, if any
}

type seqOutput struct {
	began, ended bool
	m            map[int]marker
}

// parseOutput splits the stdout of a (batch or single) script into per-sequence markers.
func parseOutput(stdout string) map[int]*seqOutput {
	res := map[int]*seqOutput{}
	get := func(n int) *seqOutput {
		o := res[n]
		if o == nil {
			o = &seqOutput{m: map[int]marker{}}
			res[n] = o
		}
		return o
	}
	for _, line := range strings.Split(stdout, "\n") {
		if len(line) < 3 || line[1] != ' ' {
			continue
		}
		body, msg, _ := strings.Cut(line, " | ")
		f := strings.Fields(body)
		switch line[0] {
		case 'B', 'E':
			if len(f) != 2 {
				continue
			}
			n, err := strconv.Atoi(f[1])
			if err != nil {
				continue
			}
			if line[0] == 'B' {
				get(n).began = true
			} else {
				get(n).ended = true
			}
		case 'I', 'W', 'R':
			if len(f) < 4 {
				continue
			}
			n, err1 := strconv.Atoi(f[1])
			j, err2 := strconv.Atoi(f[2])
			if err1 != nil || err2 != nil {
				continue
			}
			mk := marker{msg: msg}
			switch line[0] {
			case 'I':
				mk.status = f[3]
			case 'W':
				mk.status = f[3]
				if len(f) > 4 {
					mk.cur = f[4]
				}
			case 'R':
				mk.status = "read"
				mk.cur = f[3]
			}
			get(n).m[j] = mk
		}
	}
	return res
}

// complete reports whether every step of q left its marker.
func (o *seqOutput) complete(q sequence) bool {
	if o == nil || !o.began || !o.ended {
		return false
	}
	for j := range q {
		if _, ok := o.m[j]; !ok {
			return false
		}
	}
	return true
}

// ---------------------------------------------------------------------------------
// the oracle

type disagreement struct {
	key  string
	what func() string // formatted only when the disagreement is kept
	step int
}

type evalResult struct {
	dis        []disagreement
	writes     int  // member writes whose acceptance was compared
	nontrivial bool // some compared write happened while another live instance of the same class had different arguments
}

// accepts is the property's own rule: an instance accepts exactly the values of the type
// argument bound to the parameter the member is declared with.
func accepts(arg int8, val int8) bool { return int(val) < nTypes && val == arg }

// evalSeq compares the observed markers of one complete sequence with the expectation
// computed per instance from its own arguments. Disagreements that are exactly what the
// known shared-declaration defect predicts (the property declaration keeps the argument
// of the instance through which it was first looked up) are keyed "shared-decl/…".
func evalSeq(q sequence, o *seqOutput) evalResult {
	var res evalResult
	type inst struct {
		class   int
		args    [2]int8
		created bool
	}
	var insts []inst
	// defect model: (class, property) -> argument the shared declaration was bound to
	bound := map[[2]int]int8{}
	bind := func(class, prop int, own int8) int8 {
		k := [2]int{class, prop}
		if b, ok := bound[k]; ok {
			return b
		}
		bound[k] = own
		return own
	}
	for j, s := range q {
		mk := o.m[j]
		tok := 100 + j
		switch s.Op {
		case 'I':
			c := classes[s.Class]
			in := inst{class: int(s.Class), args: s.Args, created: mk.status == "ok"}
			cls := c.name + "<" + strings.ReplaceAll(argList(c, s.Args), " ", "") + ">"
			if !c.ctor {
				if mk.status != "ok" {
					res.dis = append(res.dis, disagreement{
						key:  "instantiate-failed/class=" + cls,
						what: func() string { return fmt.Sprintf("step %d of [%s]: %s could not be instantiated: %s", j, q, cls, mk.msg) },
						step: j})
				}
			} else {
				own := s.Args[0]
				exp := accepts(own, s.Val)
				b := bind(int(s.Class), 0, own)
				pred := accepts(b, s.Val)
				obs := mk.status == "ok"
				res.writes++
				for _, other := range insts {
					if other.created && other.class == in.class && other.args != in.args {
						res.nontrivial = true
					}
				}
				if obs != exp {
					res.dis = append(res.dis, mismatch(q, j, c, 0, "ctor", -1, own, b, s.Val, exp, obs, pred, mk))
				}
			}
			insts = append(insts, in)
		case 'W':
			t := insts[s.Inst]
			if !t.created {
				continue
			}
			c := classes[t.class]
			p, via := c.member(int(s.Member))
			own := t.args[p]
			exp := accepts(own, s.Val)
			if mk.status != "accepted" && mk.status != "rejected" {
				continue
			}
			// the marker of every write reads the property back through the same instance, so the
			// step is a lookup by this instance even when the call never reached a store
			b := bind(t.class, p, own)
			pred := accepts(b, s.Val)
			obs := mk.status == "accepted"
			res.writes++
			for k, other := range insts {
				if k != int(s.Inst) && other.created && other.class == t.class && other.args != t.args {
					res.nontrivial = true
				}
			}
			if obs != exp {
				res.dis = append(res.dis, mismatch(q, j, c, p, via, -1, own, b, s.Val, exp, obs, pred, mk))
			}
			if d := valueDesc(int(s.Val), tok); d != "" && via != "param" {
				cell := "class=" + c.name + "/prop=" + c.props[p] + "/own=" + typeNames[own] + "/value=" + valNames[s.Val] + "/via=" + via
				if obs && mk.cur != d {
					res.dis = append(res.dis, disagreement{
						key:  "store-mismatch/accepted-not-stored/" + cell,
						what: func() string { return fmt.Sprintf("step %d of [%s]: the write did not throw, but the property then reads %s instead of %s", j, q, mk.cur, d) },
						step: j})
				}
				if !obs && mk.cur == d {
					res.dis = append(res.dis, disagreement{
						key:  "store-mismatch/rejected-but-stored/" + cell,
						what: func() string { return fmt.Sprintf("step %d of [%s]: the write threw (%s), but the property then holds the written value %s", j, q, mk.msg, d) },
						step: j})
				}
			}
		case 'M':
			t := insts[s.Inst]
			if !t.created || (mk.status != "accepted" && mk.status != "rejected") {
				continue
			}
			c := classes[t.class]
			m := c.multis()[s.Member]
			pat := m.patterns()[s.Val]
			kinds, exp := m.argKinds(pat, t.args)
			obs := mk.status == "accepted"
			res.writes++
			for k, other := range insts {
				if k != int(s.Inst) && other.created && other.class == t.class && other.args != t.args {
					res.nontrivial = true
				}
			}
			// the cell: the method, which position carries the foreign value (or "none"), the
			// declared types' bindings
			badPos := "none"
			for i, x := range pat {
				switch x {
				case argBad:
					badPos = fmt.Sprintf("%d:%s", i, valNames[kinds[i]])
				case argNull:
					badPos = fmt.Sprintf("null@%d", i)
				case argOmit:
					badPos = fmt.Sprintf("omit@%d", i)
				}
			}
			own := typeNames[t.args[0]]
			if len(c.params) == 2 {
				own += "," + typeNames[t.args[1]]
			}
			cell := "class=" + c.name + "/method=" + m.name + "/own=" + own + "/foreign=" + badPos
			if obs != exp {
				res.dis = append(res.dis, disagreement{
					key: "accept-mismatch/multi/" + cell + "/observed=" + word(obs),
					what: func() string {
						return fmt.Sprintf("step %d of [%s]: the call of %s%s on an instance of %s<%s> was %s, expected %s (a position declared with a type parameter accepts exactly the instance's own argument, a concrete position its own type; foreign value at position %s) (message: %s)",
							j, q, m.name, m.decl(c), c.name, own, word(obs), word(exp), badPos, mk.msg)
					},
					step: j})
			}
			if p, pos := m.firstStore(); pos >= 0 && kinds[pos] >= 0 {
				if d := valueDesc(int(kinds[pos]), 1000+10*j+pos); d != "" {
					if obs && mk.cur != d {
						res.dis = append(res.dis, disagreement{
							key:  "store-mismatch/accepted-not-stored/multi/" + cell,
							what: func() string { return fmt.Sprintf("step %d of [%s]: the call did not throw, but property %s then reads %s instead of %s", j, q, c.props[p], mk.cur, d) },
							step: j})
					}
					if !obs && mk.cur == d {
						res.dis = append(res.dis, disagreement{
							key:  "store-mismatch/rejected-but-stored/multi/" + cell,
							what: func() string { return fmt.Sprintf("step %d of [%s]: the call threw (%s), but property %s then holds the passed value %s", j, q, mk.msg, c.props[p], d) },
							step: j})
					}
				}
			}
			p0, _ := m.firstStore()
			bind(t.class, p0, t.args[p0])
		case 'P':
			t, a := insts[s.Inst], insts[s.Actor]
			if !t.created || !a.created || (mk.status != "accepted" && mk.status != "rejected") {
				continue
			}
			c := classes[t.class]
			p, via, _ := c.peerMember(int(s.Member))
			// the TARGET's own argument decides, whichever instantiation's method performs the write
			own := t.args[p]
			exp := accepts(own, s.Val)
			b := bind(t.class, p, own)
			pred := accepts(b, s.Val)
			obs := mk.status == "accepted"
			res.writes++
			for k, other := range insts {
				if k != int(s.Inst) && other.created && other.class == t.class && other.args != t.args {
					res.nontrivial = true
				}
			}
			if obs != exp {
				res.dis = append(res.dis, mismatch(q, j, c, p, via, a.args[p], own, b, s.Val, exp, obs, pred, mk))
			}
			if d := valueDesc(int(s.Val), tok); d != "" {
				cell := "class=" + c.name + "/prop=" + c.props[p] + "/own=" + typeNames[own] + "/value=" + valNames[s.Val] + "/via=" + via + "/actor=" + typeNames[a.args[p]]
				if obs && mk.cur != d {
					res.dis = append(res.dis, disagreement{
						key:  "store-mismatch/accepted-not-stored/" + cell,
						what: func() string { return fmt.Sprintf("step %d of [%s]: the write did not throw, but the property then reads %s instead of %s", j, q, mk.cur, d) },
						step: j})
				}
				if !obs && mk.cur == d {
					res.dis = append(res.dis, disagreement{
						key:  "store-mismatch/rejected-but-stored/" + cell,
						what: func() string { return fmt.Sprintf("step %d of [%s]: the write threw (%s), but the property then holds the written value %s", j, q, mk.msg, d) },
						step: j})
				}
			}
		case 'R':
			t := insts[s.Inst]
			if t.created {
				bind(t.class, int(s.Member), t.args[s.Member])
			}
		}
	}
	return res
}

func word(accepted bool) string {
	if accepted {
		return "accepted"
	}
	return "rejected"
}

func mismatch(q sequence, j int, c classSpec, p int, via string, actor int8, own, b, val int8, exp, obs, pred bool, mk marker) disagreement {
	base := func() string {
		inst := fmt.Sprintf("%s (parameter %s = %s)", c.name, c.params[p], typeNames[own])
		target := "written to property " + c.props[p] + " of"
		if via == "param" {
			target = "passed to a method parameter declared " + c.params[p] + " of"
		}
		how := via
		if actor >= 0 {
			how += " from inside a method of an instance with " + c.params[p] + " = " + typeNames[actor]
		}
		t := fmt.Sprintf("step %d of [%s]: a %s value %s an instance of %s through %s was %s, expected %s",
			j, q, valNames[val], target, inst, how, word(obs), word(exp))
		if mk.msg != "" {
			t += " (message: " + mk.msg + ")"
		}
		return t
	}
	// a rejection worded like the interpreter's parameter-type rejections (calibrated prefix)
	// comes from the parameter declaration, not from the property store
	paramMsg := paramRejectPrefix != "" && strings.HasPrefix(mk.msg, paramRejectPrefix)
	isCall := via == "method" || via == "param" || via == "relay" || via == "relayh"
	unboundParam := isCall && exp && !obs && (paramMsg || via == "param")
	viaKey := via
	if actor >= 0 {
		viaKey += "/actor=" + typeNames[actor]
	}
	if b != own && obs == pred && via != "param" && !unboundParam {
		return disagreement{
			key: "shared-decl/first-lookup-wins/class=" + c.name + "/prop=" + c.props[p] + "/own=" + typeNames[own] + "/bound=" + typeNames[b] + "/value=" + valNames[val] + "/via=" + viaKey,
			what: func() string {
				return base() + fmt.Sprintf("; the declaration of $%s was first looked up through an instance with %s = %s and behaves as %s for every instance",
					c.props[p], c.params[p], typeNames[b], typeNames[b])
			},
			step: j}
	}
	if unboundParam {
		// what an unsubstituted parameter declaration predicts: `T $x` is checked against a
		// class literally named T, so every non-null argument is rejected at the call
		return disagreement{
			key: "unbound-param/class=" + c.name + "/param=" + c.params[p] + "/own=" + typeNames[own] + "/value=" + valNames[val] + "/via=" + viaKey,
			what: func() string {
				return base() + "; a value of the instance's own argument type is rejected by a member whose parameter is declared with the type parameter"
			},
			step: j}
	}
	return disagreement{
		key:  "accept-mismatch/class=" + c.name + "/prop=" + c.props[p] + "/own=" + typeNames[own] + "/value=" + valNames[val] + "/via=" + viaKey + "/observed=" + word(obs),
		what: base,
		step: j}
}
