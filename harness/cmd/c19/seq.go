package main

import (
	"fmt"
	"strings"
)

// ---------------------------------------------------------------------------------
// The finite vocabulary of a history: generic classes, type arguments, value kinds.

// type arguments of the quantifier: {int, string, array, a user class}
var typeNames = []string{"int", "string", "array", "U"}

const nTypes = 4

// value kinds. The first four are the values "of type A" for the four arguments; the
// rest are foreign values that no instantiation over the four arguments accepts.
const (
	vInt = iota
	vString
	vArray
	vU
	vW     // instance of an unrelated user class
	vNull  // null
	vFloat // non-integral float
	vBool
	nValsAll
)

const nValsCore = 4

var valNames = []string{"int", "string", "array", "U", "W", "null", "float", "bool"}

// valueLiteral is the source text of a value of the kind, carrying the token tok so that
// a stored value can be recognised afterwards.
func valueLiteral(kind, tok int) string {
	switch kind {
	case vInt:
		return fmt.Sprintf("%d", tok)
	case vString:
		return fmt.Sprintf("\"s%d\"", tok)
	case vArray:
		return fmt.Sprintf("[%d]", tok)
	case vU:
		return fmt.Sprintf("mkU(%d)", tok)
	case vW:
		return fmt.Sprintf("mkW(%d)", tok)
	case vNull:
		return "null"
	case vFloat:
		return fmt.Sprintf("%d.5", tok)
	case vBool:
		return "true"
	}
	panic("value kind")
}

// valueDesc is what the script's desc() prints for that value ("" = not recognisable:
// the stored-value observation is skipped for the kind).
func valueDesc(kind, tok int) string {
	switch kind {
	case vInt:
		return fmt.Sprintf("int:%d", tok)
	case vString:
		return fmt.Sprintf("string:s%d", tok)
	case vArray:
		return fmt.Sprintf("array:%d", tok)
	case vU:
		return fmt.Sprintf("U:%d", tok)
	case vW:
		return fmt.Sprintf("W:%d", tok)
	}
	return ""
}

// classSpec: property i is declared with type parameter i. Members, in index order: the
// direct stores `$o->prop = x` (via "prop"), the typed methods that store into the
// property through $this (via "method"), and the typed methods that store nothing, so
// that only the parameter declaration can reject (via "param").
type classSpec struct {
	name    string
	params  []string
	props   []string
	methods []string // methods[i](P_i $x) stores $x into props[i]
	checks  []string // checks[i](P_i $x) only declares the parameter, it stores nothing
	ctor    bool     // the constructor stores its argument into props[0]
}

var classes = []classSpec{
	{name: "Box", params: []string{"T"}, props: []string{"v"}, methods: []string{"set"}, checks: []string{"take"}},
	{name: "Pair", params: []string{"K", "V"}, props: []string{"k", "v"}, methods: []string{"setK", "setV"}, checks: []string{"takeK", "takeV"}},
	{name: "Cell", params: []string{"T"}, props: []string{"v"}, methods: []string{"set"}, checks: []string{"take"}, ctor: true},
}

const (
	cBox = iota
	cPair
	cCell
)

func (c classSpec) decl(sfx string) string {
	var sb strings.Builder
	fmt.Fprintf(&sb, "class %s%s<%s> {", c.name, sfx, strings.Join(c.params, ", "))
	for i, p := range c.props {
		fmt.Fprintf(&sb, " public %s $%s;", c.params[i], p)
	}
	if c.ctor {
		fmt.Fprintf(&sb, " public function __construct($x) { $this->%s = $x; }", c.props[0])
	}
	for i, m := range c.methods {
		fmt.Fprintf(&sb, " public function %s(%s $x) { $this->%s = $x; return 1; }", m, c.params[i], c.props[i])
	}
	for i, m := range c.checks {
		fmt.Fprintf(&sb, " public function %s(%s $x) { return 1; }", m, c.params[i])
	}
	sb.WriteString(" }\n")
	return sb.String()
}

// member resolves a member index to (property/parameter index, via).
func (c classSpec) member(m int) (prop int, via string) {
	if m < len(c.props) {
		return m, "prop"
	}
	if m < len(c.props)+len(c.methods) {
		return m - len(c.props), "method"
	}
	return m - len(c.props) - len(c.methods), "param"
}

// memberName is the property or method the member index denotes.
func (c classSpec) memberName(m int) string {
	p, via := c.member(m)
	switch via {
	case "prop":
		return c.props[p]
	case "method":
		return c.methods[p]
	}
	return c.checks[p]
}

// nStoreMembers counts the members that store (direct stores and storing methods).
func (c classSpec) nStoreMembers() int { return len(c.props) + len(c.methods) }

// nMembers counts the members in use: the parameter-only methods are compared only when
// the interpreter enforces method parameter types at all (calibrated at run time).
func (c classSpec) nMembers() int {
	if paramsEnforced {
		return len(c.props) + len(c.methods) + len(c.checks)
	}
	return c.nStoreMembers()
}

// paramsEnforced: does this build of the interpreter reject a string for `int $x` of a
// plain (non-generic) class's method? Set once by calibrate().
var paramsEnforced bool

// ---------------------------------------------------------------------------------
// steps

type step struct {
	Op     byte // 'I' instantiate, 'W' typed member write, 'R' property read
	Class  int8
	Args   [2]int8
	Form   int8 // 'I': 0 = `new C<..>()` in line, 1 = through a helper function (one `new` node evaluated repeatedly)
	Inst   int8 // 'W','R': index (in creation order) of the target instance
	Member int8 // 'W': member index; 'R': property index
	Val    int8 // 'W': value kind; 'I' of a ctor class: kind of the constructor argument
}

type sequence []step

func argList(c classSpec, a [2]int8) string {
	s := typeNames[a[0]]
	if len(c.params) == 2 {
		s += ", " + typeNames[a[1]]
	}
	return s
}

// String is the human-readable canonical form, also used as the case identity.
func (q sequence) String() string {
	var parts []string
	for _, s := range q {
		c := classes[s.Class]
		switch s.Op {
		case 'I':
			t := fmt.Sprintf("new %s<%s>", c.name, argList(c, s.Args))
			if c.ctor {
				t += "(" + valNames[s.Val] + ")"
			}
			if s.Form == 1 {
				t = "fn:" + t
			}
			parts = append(parts, t)
		case 'W':
			tc := classes[q.instClass(int(s.Inst))]
			_, via := tc.member(int(s.Member))
			if via == "prop" {
				parts = append(parts, fmt.Sprintf("#%d.%s=%s", s.Inst, tc.memberName(int(s.Member)), valNames[s.Val]))
			} else {
				parts = append(parts, fmt.Sprintf("#%d.%s(%s)", s.Inst, tc.memberName(int(s.Member)), valNames[s.Val]))
			}
		case 'R':
			tc := classes[q.instClass(int(s.Inst))]
			parts = append(parts, fmt.Sprintf("read #%d.%s", s.Inst, tc.props[s.Member]))
		}
	}
	return strings.Join(parts, "; ")
}

// id is a compact identity of the history.
func (q sequence) id() string {
	b := make([]byte, 0, len(q)*8)
	for _, s := range q {
		b = append(b, s.Op, byte(s.Class), byte(s.Args[0]), byte(s.Args[1]), byte(s.Form), byte(s.Inst), byte(s.Member), byte(s.Val))
	}
	return string(b)
}

// instStep returns the step that creates instance number n (creation order).
func (q sequence) instStep(n int) (int, step) {
	k := 0
	for j, s := range q {
		if s.Op == 'I' {
			if k == n {
				return j, s
			}
			k++
		}
	}
	panic("no such instance")
}

func (q sequence) instClass(n int) int {
	_, s := q.instStep(n)
	return int(s.Class)
}

// ---------------------------------------------------------------------------------
// rendering

const prelude = `<?php
class U { public $n = 0; }
class W { public $n = 0; }
function mkU($n) { $o = new U(); $o->n = $n; return $o; }
function mkW($n) { $o = new W(); $o->n = $n; return $o; }
function desc($x) {
  if (is_null($x)) { return "null"; }
  if (is_int($x)) { return "int:" . $x; }
  if (is_float($x)) { return "float"; }
  if (is_bool($x)) { return "bool"; }
  if (is_string($x)) { return "string:" . $x; }
  if (is_array($x)) { return "array:" . $x[0]; }
  if ($x instanceof U) { return "U:" . $x->n; }
  if ($x instanceof W) { return "W:" . $x->n; }
  return "other";
}
`

// renderSeq appends the declarations and the body of one sequence. sidx is the number
// printed in the markers, sfx the suffix of the class names (so that several sequences in
// one file each own their generic class declarations).
func renderSeq(sb *strings.Builder, sidx int, q sequence, sfx string) {
	used := map[int8]bool{}
	for _, s := range q {
		if s.Op == 'I' {
			used[s.Class] = true
		}
	}
	for ci, c := range classes {
		if used[int8(ci)] {
			sb.WriteString(c.decl(sfx))
		}
	}
	// helper functions: one per (class, args) that some step instantiates through form 1
	helpers := map[string]bool{}
	helperName := func(s step) string {
		c := classes[s.Class]
		n := "mk" + c.name + sfx + "_" + typeNames[s.Args[0]]
		if len(c.params) == 2 {
			n += "_" + typeNames[s.Args[1]]
		}
		return n
	}
	for _, s := range q {
		if s.Op == 'I' && s.Form == 1 {
			h := helperName(s)
			if helpers[h] {
				continue
			}
			helpers[h] = true
			c := classes[s.Class]
			if c.ctor {
				fmt.Fprintf(sb, "function %s($x) { return new %s%s<%s>($x); }\n", h, c.name, sfx, argList(c, s.Args))
			} else {
				fmt.Fprintf(sb, "function %s() { return new %s%s<%s>(); }\n", h, c.name, sfx, argList(c, s.Args))
			}
		}
	}
	ninst := 0
	for _, s := range q {
		if s.Op == 'I' {
			fmt.Fprintf(sb, "$q%d_i%d = null;\n", sidx, ninst)
			ninst++
		}
	}
	fmt.Fprintf(sb, "echo \"B %d\\n\";\n", sidx)
	k := 0
	for j, s := range q {
		tok := 100 + j
		switch s.Op {
		case 'I':
			c := classes[s.Class]
			arg := ""
			if c.ctor {
				arg = valueLiteral(int(s.Val), tok)
			}
			var expr string
			if s.Form == 1 {
				expr = fmt.Sprintf("%s(%s)", helperName(s), arg)
			} else {
				expr = fmt.Sprintf("new %s%s<%s>(%s)", c.name, sfx, argList(c, s.Args), arg)
			}
			v := fmt.Sprintf("$q%d_i%d", sidx, k)
			fmt.Fprintf(sb, "try { %s = %s; echo \"I %d %d ok\\n\"; } catch (\\Throwable $e) { echo \"I %d %d failed | \", $e->getMessage(), \"\\n\"; }\n",
				v, expr, sidx, j, sidx, j)
			k++
		case 'W':
			c := classes[q.instClass(int(s.Inst))]
			p, via := c.member(int(s.Member))
			v := fmt.Sprintf("$q%d_i%d", sidx, s.Inst)
			lit := valueLiteral(int(s.Val), tok)
			var stmt string
			if via == "prop" {
				stmt = fmt.Sprintf("%s->%s = %s;", v, c.props[p], lit)
			} else {
				stmt = fmt.Sprintf("%s->%s(%s);", v, c.memberName(int(s.Member)), lit)
			}
			cur := fmt.Sprintf("desc(%s->%s)", v, c.props[p])
			fmt.Fprintf(sb, "try { %s echo \"W %d %d accepted \", %s, \"\\n\"; } catch (\\Throwable $e) { echo \"W %d %d rejected \", %s, \" | \", $e->getMessage(), \"\\n\"; }\n",
				stmt, sidx, j, cur, sidx, j, cur)
		case 'R':
			c := classes[q.instClass(int(s.Inst))]
			v := fmt.Sprintf("$q%d_i%d", sidx, s.Inst)
			fmt.Fprintf(sb, "try { echo \"R %d %d \", desc(%s->%s), \"\\n\"; } catch (\\Throwable $e) { echo \"R %d %d failed | \", $e->getMessage(), \"\\n\"; }\n",
				sidx, j, v, c.props[s.Member], sidx, j)
		}
	}
	fmt.Fprintf(sb, "echo \"E %d\\n\";\n", sidx)
}

// renderBatch renders several sequences into one file; every sequence gets its own
// class declarations (suffix _<n>).
func renderBatch(qs []sequence) string {
	var sb strings.Builder
	sb.WriteString(prelude)
	for i, q := range qs {
		renderSeq(&sb, i, q, fmt.Sprintf("_%d", i))
	}
	return sb.String()
}

// renderSingle renders one sequence alone, with the plain class names.
func renderSingle(q sequence) string {
	var sb strings.Builder
	sb.WriteString(prelude)
	sb.WriteString("// history: " + q.String() + "\n")
	renderSeq(&sb, 0, q, "")
	return sb.String()
}

// ---------------------------------------------------------------------------------
// enumeration

// alphabet restricts the enumerated step vocabulary.
type alphabet struct {
	classes    []int // classes that may be instantiated (cBox, cPair)
	nVals      int   // value kinds 0..nVals-1
	withChecks bool  // also the parameter-only methods (when the interpreter enforces parameter types)
}

// nextSteps lists every step that may follow the prefix q (writes on any live instance,
// instantiations of every class over every argument tuple).
func (a alphabet) nextSteps(q sequence) []step {
	var out []step
	ninst := 0
	for _, s := range q {
		if s.Op == 'I' {
			ninst++
		}
	}
	if ninst < 6 {
		for _, ci := range a.classes {
			c := classes[ci]
			if len(c.params) == 1 {
				for t := 0; t < nTypes; t++ {
					out = append(out, step{Op: 'I', Class: int8(ci), Args: [2]int8{int8(t), 0}})
				}
			} else {
				for t := 0; t < nTypes; t++ {
					for u := 0; u < nTypes; u++ {
						out = append(out, step{Op: 'I', Class: int8(ci), Args: [2]int8{int8(t), int8(u)}})
					}
				}
			}
		}
	}
	k := 0
	for _, s := range q {
		if s.Op != 'I' {
			continue
		}
		c := classes[s.Class]
		nm := c.nStoreMembers()
		if a.withChecks {
			nm = c.nMembers()
		}
		for m := 0; m < nm; m++ {
			for v := 0; v < a.nVals; v++ {
				out = append(out, step{Op: 'W', Inst: int8(k), Member: int8(m), Val: int8(v)})
			}
		}
		k++
	}
	return out
}

// extensions appends to out every sequence that extends prefix by 1..more steps.
func (a alphabet) extensions(prefix sequence, more int, out *[]sequence) {
	if more == 0 {
		return
	}
	for _, s := range a.nextSteps(prefix) {
		q := make(sequence, len(prefix)+1)
		copy(q, prefix)
		q[len(prefix)] = s
		*out = append(*out, q)
		a.extensions(q, more-1, out)
	}
}

// exactly lists all sequences of exactly n steps.
func (a alphabet) exactly(n int) []sequence {
	cur := []sequence{{}}
	for i := 0; i < n; i++ {
		var nxt []sequence
		for _, p := range cur {
			for _, s := range a.nextSteps(p) {
				q := make(sequence, len(p)+1)
				copy(q, p)
				q[len(p)] = s
				nxt = append(nxt, q)
			}
		}
		cur = nxt
	}
	return cur
}
