package main

import (
	"fmt"
	"strings"
)

// ---------------------------------------------------------------------------------
// The finite vocabulary of a history: generic classes, type arguments, value kinds.

// type arguments of the quantifier: {int, string, array, a user class}
var typeNames = []string{"int", "string", "array", "U"}

const nTypes = 4

// value kinds. The first four are the values "of type A" for the four arguments; the
// rest are foreign values that no instantiation over the four arguments accepts.
const (
	vInt = iota
	vString
	vArray
	vU
	vW     // instance of an unrelated user class
	vNull  // null
	vFloat // non-integral float
	vBool
	nValsAll
)

const nValsCore = 4

var valNames = []string{"int", "string", "array", "U", "W", "null", "float", "bool"}

// valueLiteral is the source text of a value of the kind, carrying the token tok so that
// a stored value can be recognised afterwards.
func valueLiteral(kind, tok int) string {
	switch kind {
	case vInt:
		return fmt.Sprintf("%d", tok)
	case vString:
		return fmt.Sprintf("\"s%d\"", tok)
	case vArray:
		return fmt.Sprintf("[%d]", tok)
	case vU:
		return fmt.Sprintf("mkU(%d)", tok)
	case vW:
		return fmt.Sprintf("mkW(%d)", tok)
	case vNull:
		return "null"
	case vFloat:
		return fmt.Sprintf("%d.5", tok)
	case vBool:
		return "true"
	}
	panic("value kind")
}

// valueDesc is what the script's desc() prints for that value ("" = not recognisable:
// the stored-value observation is skipped for the kind).
func valueDesc(kind, tok int) string {
	switch kind {
	case vInt:
		return fmt.Sprintf("int:%d", tok)
	case vString:
		return fmt.Sprintf("string:s%d", tok)
	case vArray:
		return fmt.Sprintf("array:%d", tok)
	case vU:
		return fmt.Sprintf("U:%d", tok)
	case vW:
		return fmt.Sprintf("W:%d", tok)
	}
	return ""
}

// classSpec: property i is declared with type parameter i. Top-level members, in index
// order: the direct stores `$o->prop = x` (via "prop", public properties only), the typed
// methods that store into the property through $this (via "method"), and the typed methods
// that store nothing, so that only the parameter declaration can reject (via "param").
// Peer members (written from inside a method of ANOTHER live instance of the same class,
// op 'P'): `$other->prop = $x` (via "poke"), `$other->set($x)` (via "relay") and, when
// the typed members are not public, `$other->hset($x)` (via "relayh", a storing method
// with the same modifier as the properties).
type classSpec struct {
	name    string
	base    int // cBox, cPair, cCell
	vis     int // modifier of the members declared with the type parameters: 0 public, 1 protected, 2 private
	her     int // heritage: 0 none, 1 extends a plain class, 2 extends an abstract class and implements an interface, 3 extends a class whose constructor it calls (parent::__construct), 4 implements an interface only
	params  []string
	props   []string
	methods []string // methods[i](P_i $x) stores $x into props[i]
	hidden  []string // as methods, declared with the modifier vis (only when vis != public)
	checks  []string // checks[i](P_i $x) only declares the parameter, it stores nothing
	ctor    bool     // the constructor stores its argument into props[0]
}

const (
	cBox = iota
	cPair
	cCell
	nBases
)

const (
	visPublic = iota
	visProtected
	visPrivate
	nVis
)

const (
	herNone = iota
	herPlain
	herAbstract
	herCtor
	herIface
	nHer
)

const nShapes = nVis * nHer

var visWords = []string{"public", "protected", "private"}
var visSfx = []string{"", "Pt", "Pv"}
var herSfx = []string{"", "X", "A", "C", "I"}

// classes[base + nBases*shape], shape = vis + nVis*her; shape 0 is the plain public class.
var classes = func() []classSpec {
	bases := []classSpec{
		{name: "Box", params: []string{"T"}, props: []string{"v"}, methods: []string{"set"}, hidden: []string{"hset"}, checks: []string{"take"}},
		{name: "Pair", params: []string{"K", "V"}, props: []string{"k", "v"}, methods: []string{"setK", "setV"}, hidden: []string{"hsetK", "hsetV"}, checks: []string{"takeK", "takeV"}},
		{name: "Cell", params: []string{"T"}, props: []string{"v"}, methods: []string{"set"}, hidden: []string{"hset"}, checks: []string{"take"}, ctor: true},
	}
	var out []classSpec
	for her := 0; her < nHer; her++ {
		for vis := 0; vis < nVis; vis++ {
			for b, c := range bases {
				c.base, c.vis, c.her = b, vis, her
				c.name = c.name + visSfx[vis] + herSfx[her]
				if vis == visPublic {
					c.hidden = nil
				}
				out = append(out, c)
			}
		}
	}
	return out
}()

func classIndex(base, vis, her int) int { return base + nBases*(vis+nVis*her) }

// parents are the non-generic declarations the heritage shapes derive from (once per file).
const parents = `class Model { public $table = "models"; public function table() { return $this->table; } }
abstract class Shape { abstract public function tag(); public function twice() { return $this->tag() . $this->tag(); } }
interface Tagged { public function tag(); }
class Owned { public $owner = ""; public function __construct($owner = "nobody") { $this->owner = $owner; } public function owner() { return $this->owner; } }
`

func (c classSpec) decl(sfx string) string {
	var sb strings.Builder
	fmt.Fprintf(&sb, "class %s%s<%s>", c.name, sfx, strings.Join(c.params, ", "))
	switch c.her {
	case herPlain:
		sb.WriteString(" extends Model")
	case herAbstract:
		sb.WriteString(" extends Shape implements Tagged")
	case herCtor:
		sb.WriteString(" extends Owned")
	case herIface:
		sb.WriteString(" implements Tagged")
	}
	sb.WriteString(" {")
	for i, p := range c.props {
		fmt.Fprintf(&sb, " %s %s $%s;", visWords[c.vis], c.params[i], p)
	}
	switch {
	case c.ctor && c.her == herCtor:
		fmt.Fprintf(&sb, " public function __construct(int $n, %s $x, string $s = \"d\") { parent::__construct(\"me\"); $this->%s = $x; }", c.params[0], c.props[0])
	case c.ctor:
		fmt.Fprintf(&sb, " public function __construct(int $n, %s $x, string $s = \"d\") { $this->%s = $x; }", c.params[0], c.props[0])
	case c.her == herCtor:
		sb.WriteString(" public function __construct() { parent::__construct(\"me\"); }")
	}
	if c.her == herAbstract || c.her == herIface {
		sb.WriteString(" public function tag() { return \"t\"; }")
	}
	for i, m := range c.methods {
		fmt.Fprintf(&sb, " public function %s(%s $x) { $this->%s = $x; return 1; }", m, c.params[i], c.props[i])
	}
	for i, m := range c.hidden {
		fmt.Fprintf(&sb, " %s function %s(%s $x) { $this->%s = $x; return 1; }", visWords[c.vis], m, c.params[i], c.props[i])
	}
	for i, m := range c.checks {
		fmt.Fprintf(&sb, " public function %s(%s $x) { return 1; }", m, c.params[i])
	}
	for _, m := range c.multis() {
		sb.WriteString(m.decl(c))
	}
	for i, p := range c.props {
		fmt.Fprintf(&sb, " public function cur_%s() { return $this->%s; }", p, p)
		fmt.Fprintf(&sb, " public function poke_%s($other, $x) { $other->%s = $x; return 1; }", p, p)
		fmt.Fprintf(&sb, " public function relay_%s($other, $x) { $other->%s($x); return 1; }", p, c.methods[i])
		if len(c.hidden) > 0 {
			fmt.Fprintf(&sb, " public function relayh_%s($other, $x) { $other->%s($x); return 1; }", p, c.hidden[i])
		}
	}
	sb.WriteString(" }\n")
	return sb.String()
}

// ---------------------------------------------------------------------------------
// methods with 2..4 parameters that mix type parameters and concrete types in every
// position (op 'M'). A position is declared with type parameter tp (>= 0) or with the
// concrete type conc; it may be nullable (?T) or carry a default (trailing positions,
// may be omitted); store >= 0 names the property the method body stores the argument into.
type posSpec struct {
	tp       int  // index of the type parameter, -1 for a concrete type
	conc     int8 // concrete type (vInt, vString, vArray) when tp < 0
	nullable bool
	def      bool
	store    int // property index stored into, -1 none
}

type multiSpec struct {
	name string
	pos  []posSpec
	ret  string // declared return type ("" none)
}

var multiBox = []multiSpec{
	{name: "m2a", pos: []posSpec{{tp: -1, conc: vInt, store: -1}, {tp: 0, store: 0}}},
	{name: "m2b", pos: []posSpec{{tp: 0, store: 0}, {tp: -1, conc: vString, def: true, store: -1}}, ret: "int"},
	{name: "m3", pos: []posSpec{{tp: 0, store: -1}, {tp: -1, conc: vInt, store: -1}, {tp: 0, store: 0}}, ret: "int"},
	{name: "m4", pos: []posSpec{{tp: -1, conc: vString, store: -1}, {tp: 0, store: 0}, {tp: -1, conc: vArray, store: -1}, {tp: 0, store: -1}}},
	{name: "mn", pos: []posSpec{{tp: -1, conc: vInt, store: -1}, {tp: 0, store: 0}, {tp: 0, nullable: true, store: -1}}},
}

var multiPair = []multiSpec{
	{name: "put", pos: []posSpec{{tp: 0, store: 0}, {tp: 1, store: 1}}},
	{name: "putRev", pos: []posSpec{{tp: 1, store: 1}, {tp: 0, store: 0}}, ret: "int"},
	{name: "put3", pos: []posSpec{{tp: -1, conc: vInt, store: -1}, {tp: 0, store: 0}, {tp: 1, store: 1}}},
	{name: "put4", pos: []posSpec{{tp: 0, store: -1}, {tp: 0, store: 0}, {tp: 1, store: 1}, {tp: -1, conc: vString, def: true, store: -1}}, ret: "int"},
	{name: "putn", pos: []posSpec{{tp: 0, store: 0}, {tp: -1, conc: vString, store: -1}, {tp: 1, nullable: true, store: -1}}},
}

// nullableOK: methods with a nullable type-parameter position (`?T $x`) are generated and
// compared. This was calibrated per build while defect generic-nullable-param-unsubstituted
// was open; since its repair (8dbb2dd) it is unconditional, so a return of the defect is a
// VIOLATION and not a silently skipped position.
var nullableOK = true

func (c classSpec) multis() []multiSpec {
	all := multiBox
	if c.base == cPair {
		all = multiPair
	}
	if nullableOK {
		return all
	}
	var out []multiSpec
	for _, m := range all {
		nul := false
		for _, p := range m.pos {
			nul = nul || p.nullable
		}
		if !nul {
			out = append(out, m)
		}
	}
	return out
}

func (m multiSpec) decl(c classSpec) string {
	var ps, body []string
	for i, p := range m.pos {
		t := ""
		if p.tp >= 0 {
			t = c.params[p.tp]
		} else {
			t = typeNames[p.conc]
		}
		if p.nullable {
			t = "?" + t
		}
		d := fmt.Sprintf("%s $a%d", t, i)
		if p.def {
			d += " = " + valueLiteral(int(p.conc), 0)
		}
		ps = append(ps, d)
		if p.store >= 0 {
			body = append(body, fmt.Sprintf("$this->%s = $a%d;", c.props[p.store], i))
		}
	}
	ret := ""
	if m.ret != "" {
		ret = ": " + m.ret
	}
	return fmt.Sprintf(" public function %s(%s)%s { %s return 1; }", m.name, strings.Join(ps, ", "), ret, strings.Join(body, " "))
}

// Argument patterns of a multi method, independent of the instance: 0 = every position
// gets a value of its declared type; 1..n = exactly position i-1 gets a value of another
// type; then (if any) the trailing default omitted, and a nullable position given null.
const (
	argGood = iota
	argBad
	argNull
	argOmit
)

func (m multiSpec) patterns() [][]int8 {
	n := len(m.pos)
	good := make([]int8, n)
	out := [][]int8{good}
	for i := range m.pos {
		p := make([]int8, n)
		p[i] = argBad
		out = append(out, p)
	}
	if m.pos[n-1].def {
		p := make([]int8, n)
		p[n-1] = argOmit
		out = append(out, p)
	}
	for i, ps := range m.pos {
		if ps.nullable {
			p := make([]int8, n)
			p[i] = argNull
			out = append(out, p)
		}
	}
	return out
}

// argKinds resolves a pattern against the target instance's arguments: the value kind
// per position (-1 omitted) and whether the call must be accepted.
func (m multiSpec) argKinds(pat []int8, args [2]int8) (kinds []int8, accept bool) {
	accept = true
	for i, p := range m.pos {
		good := p.conc
		if p.tp >= 0 {
			good = args[p.tp]
		}
		switch pat[i] {
		case argGood:
			kinds = append(kinds, good)
		case argBad:
			bad := (good + 1) % nTypes
			if p.tp >= 0 && args[1-p.tp] != good && m.usesBoth() {
				bad = args[1-p.tp] // the other parameter's argument: catches K/V mix-ups
			}
			kinds = append(kinds, bad)
			accept = false
		case argNull:
			kinds = append(kinds, vNull)
		case argOmit:
			kinds = append(kinds, -1)
		}
	}
	return
}

func (m multiSpec) usesBoth() bool {
	for _, p := range m.pos {
		if p.tp == 1 {
			return true
		}
	}
	return false
}

// firstStore is the property the marker of a multi call reads back, and the position stored into it.
func (m multiSpec) firstStore() (prop, pos int) {
	for i, p := range m.pos {
		if p.store >= 0 {
			return p.store, i
		}
	}
	return 0, -1
}

// curExpr reads property p of the object in variable v from top-level code.
func (c classSpec) curExpr(v string, p int) string {
	if c.vis == visPublic {
		return v + "->" + c.props[p]
	}
	return v + "->cur_" + c.props[p] + "()"
}

// topMembers lists the member indices usable from top-level code.
func (c classSpec) topMembers(withChecks bool) []int {
	var out []int
	n := c.nStoreMembers()
	if withChecks {
		n = c.nMembers()
	}
	for m := 0; m < n; m++ {
		if _, via := c.member(m); via == "prop" && c.vis != visPublic {
			continue // a store from outside the class is a visibility matter, not a typed write
		}
		out = append(out, m)
	}
	return out
}

// nPeerMembers counts the peer members; peerMember resolves one to (property, via, method on the actor).
func (c classSpec) nPeerMembers() int {
	if len(c.hidden) > 0 {
		return 3 * len(c.props)
	}
	return 2 * len(c.props)
}

func (c classSpec) peerMember(m int) (prop int, via string, actorMethod string) {
	np := len(c.props)
	p := m % np
	switch m / np {
	case 0:
		return p, "poke", "poke_" + c.props[p]
	case 1:
		return p, "relay", "relay_" + c.props[p]
	}
	return p, "relayh", "relayh_" + c.props[p]
}

// member resolves a member index to (property/parameter index, via).
func (c classSpec) member(m int) (prop int, via string) {
	if m < len(c.props) {
		return m, "prop"
	}
	if m < len(c.props)+len(c.methods) {
		return m - len(c.props), "method"
	}
	return m - len(c.props) - len(c.methods), "param"
}

// memberName is the property or method the member index denotes.
func (c classSpec) memberName(m int) string {
	p, via := c.member(m)
	switch via {
	case "prop":
		return c.props[p]
	case "method":
		return c.methods[p]
	}
	return c.checks[p]
}

// nStoreMembers counts the members that store (direct stores and storing methods).
func (c classSpec) nStoreMembers() int { return len(c.props) + len(c.methods) }

// nMembers counts the members in use: the parameter-only methods are compared only when
// the interpreter enforces method parameter types at all (calibrated at run time).
func (c classSpec) nMembers() int {
	if paramsEnforced {
		return len(c.props) + len(c.methods) + len(c.checks)
	}
	return c.nStoreMembers()
}

// paramsEnforced: does this build of the interpreter reject a string for `int $x` of a
// plain (non-generic) class's method? Set once by calibrate().
var paramsEnforced bool

// ---------------------------------------------------------------------------------
// steps

type step struct {
	Op     byte // 'I' instantiate, 'W' typed member write from top-level code, 'P' member write from inside a method of another live instance, 'M' call of a multi-parameter method (Member = method, Val = argument pattern), 'R' property read
	Class  int8
	Args   [2]int8
	Form   int8 // 'I': 0 = `new C<..>()` in line, 1 = through a helper function (one `new` node evaluated repeatedly)
	Inst   int8 // 'W','P','R': index (in creation order) of the target instance
	Actor  int8 // 'P': index of the instance whose method performs the write (same class declaration as the target)
	Member int8 // 'W': member index; 'P': peer member index; 'R': property index
	Val    int8 // 'W','P': value kind; 'I' of a ctor class: kind of the constructor argument
}

type sequence []step

// live: does an instantiation step leave a live instance on a correct interpreter? (A
// storing constructor handed a value of another type must fail.)
func (s step) live() bool {
	return s.Op == 'I' && (!classes[s.Class].ctor || accepts(s.Args[0], s.Val))
}

func argList(c classSpec, a [2]int8) string {
	s := typeNames[a[0]]
	if len(c.params) == 2 {
		s += ", " + typeNames[a[1]]
	}
	return s
}

// String is the human-readable canonical form, also used as the case identity.
func (q sequence) String() string {
	var parts []string
	for _, s := range q {
		c := classes[s.Class]
		switch s.Op {
		case 'I':
			t := fmt.Sprintf("new %s<%s>", c.name, argList(c, s.Args))
			if c.ctor {
				t += "(" + valNames[s.Val] + ")"
			}
			if s.Form == 1 {
				t = "fn:" + t
			}
			parts = append(parts, t)
		case 'W':
			tc := classes[q.instClass(int(s.Inst))]
			_, via := tc.member(int(s.Member))
			if via == "prop" {
				parts = append(parts, fmt.Sprintf("#%d.%s=%s", s.Inst, tc.memberName(int(s.Member)), valNames[s.Val]))
			} else {
				parts = append(parts, fmt.Sprintf("#%d.%s(%s)", s.Inst, tc.memberName(int(s.Member)), valNames[s.Val]))
			}
		case 'M':
			tc := classes[q.instClass(int(s.Inst))]
			m := tc.multis()[s.Member]
			_, st := q.instStep(int(s.Inst))
			kinds, _ := m.argKinds(m.patterns()[s.Val], st.Args)
			var as []string
			for _, k := range kinds {
				if k >= 0 {
					as = append(as, valNames[k])
				}
			}
			parts = append(parts, fmt.Sprintf("#%d.%s(%s)", s.Inst, m.name, strings.Join(as, ",")))
		case 'P':
			tc := classes[q.instClass(int(s.Inst))]
			_, _, am := tc.peerMember(int(s.Member))
			parts = append(parts, fmt.Sprintf("#%d.%s(#%d, %s)", s.Actor, am, s.Inst, valNames[s.Val]))
		case 'R':
			tc := classes[q.instClass(int(s.Inst))]
			parts = append(parts, fmt.Sprintf("read #%d.%s", s.Inst, tc.props[s.Member]))
		}
	}
	return strings.Join(parts, "; ")
}

// id is a compact identity of the history.
func (q sequence) id() string {
	b := make([]byte, 0, len(q)*9)
	for _, s := range q {
		b = append(b, s.Op, byte(s.Class), byte(s.Args[0]), byte(s.Args[1]), byte(s.Form), byte(s.Inst), byte(s.Actor), byte(s.Member), byte(s.Val))
	}
	return string(b)
}

// instStep returns the step that creates instance number n (creation order).
func (q sequence) instStep(n int) (int, step) {
	k := 0
	for j, s := range q {
		if s.Op == 'I' {
			if k == n {
				return j, s
			}
			k++
		}
	}
	panic("no such instance")
}

func (q sequence) instClass(n int) int {
	_, s := q.instStep(n)
	return int(s.Class)
}

// ---------------------------------------------------------------------------------
// rendering

const prelude = `<?php
class U { public $n = 0; }
class W { public $n = 0; }
function mkU($n) { $o = new U(); $o->n = $n; return $o; }
function mkW($n) { $o = new W(); $o->n = $n; return $o; }
function desc($x) {
  if (is_null($x)) { return "null"; }
  if (is_int($x)) { return "int:" . $x; }
  if (is_float($x)) { return "float"; }
  if (is_bool($x)) { return "bool"; }
  if (is_string($x)) { return "string:" . $x; }
  if (is_array($x)) { return "array:" . $x[0]; }
  if ($x instanceof U) { return "U:" . $x->n; }
  if ($x instanceof W) { return "W:" . $x->n; }
  return "other";
}
` + parents

// renderSeq appends the declarations and the body of one sequence. sidx is the number
// printed in the markers, sfx the suffix of the class names (so that several sequences in
// one file each own their generic class declarations).
func renderSeq(sb *strings.Builder, sidx int, q sequence, sfx string) {
	used := map[int8]bool{}
	for _, s := range q {
		if s.Op == 'I' {
			used[s.Class] = true
		}
	}
	for ci, c := range classes {
		if used[int8(ci)] {
			sb.WriteString(c.decl(sfx))
		}
	}
	// helper functions: one per (class, args) that some step instantiates through form 1
	helpers := map[string]bool{}
	helperName := func(s step) string {
		c := classes[s.Class]
		n := "mk" + c.name + sfx + "_" + typeNames[s.Args[0]]
		if len(c.params) == 2 {
			n += "_" + typeNames[s.Args[1]]
		}
		return n
	}
	for _, s := range q {
		if s.Op == 'I' && s.Form == 1 {
			h := helperName(s)
			if helpers[h] {
				continue
			}
			helpers[h] = true
			c := classes[s.Class]
			if c.ctor {
				fmt.Fprintf(sb, "function %s($x) { return new %s%s<%s>(7, $x); }\n", h, c.name, sfx, argList(c, s.Args))
			} else {
				fmt.Fprintf(sb, "function %s() { return new %s%s<%s>(); }\n", h, c.name, sfx, argList(c, s.Args))
			}
		}
	}
	ninst := 0
	for _, s := range q {
		if s.Op == 'I' {
			fmt.Fprintf(sb, "$q%d_i%d = null;\n", sidx, ninst)
			ninst++
		}
	}
	fmt.Fprintf(sb, "echo \"B %d\\n\";\n", sidx)
	k := 0
	for j, s := range q {
		tok := 100 + j
		switch s.Op {
		case 'I':
			c := classes[s.Class]
			arg := ""
			if c.ctor {
				arg = valueLiteral(int(s.Val), tok)
			}
			var expr string
			if s.Form == 1 {
				expr = fmt.Sprintf("%s(%s)", helperName(s), arg)
			} else if c.ctor {
				expr = fmt.Sprintf("new %s%s<%s>(7, %s)", c.name, sfx, argList(c, s.Args), arg)
			} else {
				expr = fmt.Sprintf("new %s%s<%s>(%s)", c.name, sfx, argList(c, s.Args), arg)
			}
			v := fmt.Sprintf("$q%d_i%d", sidx, k)
			fmt.Fprintf(sb, "try { %s = %s; echo \"I %d %d ok\\n\"; } catch (\\Throwable $e) { echo \"I %d %d failed | \", $e->getMessage(), \"\\n\"; }\n",
				v, expr, sidx, j, sidx, j)
			k++
		case 'W':
			c := classes[q.instClass(int(s.Inst))]
			p, via := c.member(int(s.Member))
			v := fmt.Sprintf("$q%d_i%d", sidx, s.Inst)
			lit := valueLiteral(int(s.Val), tok)
			var stmt string
			if via == "prop" {
				stmt = fmt.Sprintf("%s->%s = %s;", v, c.props[p], lit)
			} else {
				stmt = fmt.Sprintf("%s->%s(%s);", v, c.memberName(int(s.Member)), lit)
			}
			cur := "desc(" + c.curExpr(v, p) + ")"
			fmt.Fprintf(sb, "try { %s echo \"W %d %d accepted \", %s, \"\\n\"; } catch (\\Throwable $e) { echo \"W %d %d rejected \", %s, \" | \", $e->getMessage(), \"\\n\"; }\n",
				stmt, sidx, j, cur, sidx, j, cur)
		case 'M':
			c := classes[q.instClass(int(s.Inst))]
			m := c.multis()[s.Member]
			_, st := q.instStep(int(s.Inst))
			kinds, _ := m.argKinds(m.patterns()[s.Val], st.Args)
			var as []string
			for i, k := range kinds {
				if k >= 0 {
					as = append(as, valueLiteral(int(k), 1000+10*j+i))
				}
			}
			v := fmt.Sprintf("$q%d_i%d", sidx, s.Inst)
			p, _ := m.firstStore()
			cur := "desc(" + c.curExpr(v, p) + ")"
			fmt.Fprintf(sb, "try { %s->%s(%s); echo \"W %d %d accepted \", %s, \"\\n\"; } catch (\\Throwable $e) { echo \"W %d %d rejected \", %s, \" | \", $e->getMessage(), \"\\n\"; }\n",
				v, m.name, strings.Join(as, ", "), sidx, j, cur, sidx, j, cur)
		case 'P':
			c := classes[q.instClass(int(s.Inst))]
			p, _, am := c.peerMember(int(s.Member))
			v := fmt.Sprintf("$q%d_i%d", sidx, s.Inst)
			act := fmt.Sprintf("$q%d_i%d", sidx, s.Actor)
			stmt := fmt.Sprintf("%s->%s(%s, %s);", act, am, v, valueLiteral(int(s.Val), tok))
			cur := "desc(" + c.curExpr(v, p) + ")"
			fmt.Fprintf(sb, "try { %s echo \"W %d %d accepted \", %s, \"\\n\"; } catch (\\Throwable $e) { echo \"W %d %d rejected \", %s, \" | \", $e->getMessage(), \"\\n\"; }\n",
				stmt, sidx, j, cur, sidx, j, cur)
		case 'R':
			c := classes[q.instClass(int(s.Inst))]
			v := fmt.Sprintf("$q%d_i%d", sidx, s.Inst)
			fmt.Fprintf(sb, "try { echo \"R %d %d \", desc(%s), \"\\n\"; } catch (\\Throwable $e) { echo \"R %d %d failed | \", $e->getMessage(), \"\\n\"; }\n",
				sidx, j, c.curExpr(v, int(s.Member)), sidx, j)
		}
	}
	fmt.Fprintf(sb, "echo \"E %d\\n\";\n", sidx)
}

// renderBatch renders several sequences into one file; every sequence gets its own
// class declarations (suffix _<n>).
func renderBatch(qs []sequence) string {
	var sb strings.Builder
	sb.WriteString(prelude)
	for i, q := range qs {
		renderSeq(&sb, i, q, fmt.Sprintf("_%d", i))
	}
	return sb.String()
}

// renderSingle renders one sequence alone, with the plain class names.
func renderSingle(q sequence) string {
	var sb strings.Builder
	sb.WriteString(prelude)
	sb.WriteString("// history: " + q.String() + "\n")
	renderSeq(&sb, 0, q, "")
	return sb.String()
}

// ---------------------------------------------------------------------------------
// enumeration

// alphabet restricts the enumerated step vocabulary.
type alphabet struct {
	classes    []int // classes that may be instantiated (cBox, cPair)
	nVals      int   // value kinds 0..nVals-1
	withChecks bool  // also the parameter-only methods (when the interpreter enforces parameter types)
	withMulti  bool  // also calls of the multi-parameter methods (every argument pattern)
	withPeers  bool  // also writes performed from inside a method of any live instance of the same class (the target itself included)
}

// nextSteps lists every step that may follow the prefix q (writes on any live instance,
// instantiations of every class over every argument tuple).
func (a alphabet) nextSteps(q sequence) []step {
	var out []step
	ninst := 0
	for _, s := range q {
		if s.Op == 'I' {
			ninst++
		}
	}
	if ninst < 6 {
		for _, ci := range a.classes {
			c := classes[ci]
			if c.ctor {
				// the constructor stores its argument: every value kind of the alphabet
				for t := 0; t < nTypes; t++ {
					for v := 0; v < a.nVals; v++ {
						out = append(out, step{Op: 'I', Class: int8(ci), Args: [2]int8{int8(t), 0}, Val: int8(v)})
					}
				}
			} else if len(c.params) == 1 {
				for t := 0; t < nTypes; t++ {
					out = append(out, step{Op: 'I', Class: int8(ci), Args: [2]int8{int8(t), 0}})
				}
			} else {
				for t := 0; t < nTypes; t++ {
					for u := 0; u < nTypes; u++ {
						out = append(out, step{Op: 'I', Class: int8(ci), Args: [2]int8{int8(t), int8(u)}})
					}
				}
			}
		}
	}
	k := 0
	for _, s := range q {
		if s.Op != 'I' {
			continue
		}
		c := classes[s.Class]
		if !s.live() {
			k++
			continue
		}
		for _, m := range c.topMembers(a.withChecks) {
			for v := 0; v < a.nVals; v++ {
				out = append(out, step{Op: 'W', Inst: int8(k), Member: int8(m), Val: int8(v)})
			}
		}
		if a.withMulti && paramsEnforced {
			for mi, m := range c.multis() {
				for pi := range m.patterns() {
					out = append(out, step{Op: 'M', Inst: int8(k), Member: int8(mi), Val: int8(pi)})
				}
			}
		}
		if a.withPeers {
			ka := 0
			for _, sa := range q {
				if sa.Op != 'I' {
					continue
				}
				if sa.Class == s.Class && sa.live() {
					for m := 0; m < c.nPeerMembers(); m++ {
						for v := 0; v < a.nVals; v++ {
							out = append(out, step{Op: 'P', Inst: int8(k), Actor: int8(ka), Member: int8(m), Val: int8(v)})
						}
					}
				}
				ka++
			}
		}
		k++
	}
	return out
}

// extensions appends to out every sequence that extends prefix by 1..more steps.
func (a alphabet) extensions(prefix sequence, more int, out *[]sequence) {
	if more == 0 {
		return
	}
	for _, s := range a.nextSteps(prefix) {
		q := make(sequence, len(prefix)+1)
		copy(q, prefix)
		q[len(prefix)] = s
		*out = append(*out, q)
		a.extensions(q, more-1, out)
	}
}

// exactly lists all sequences of exactly n steps.
func (a alphabet) exactly(n int) []sequence {
	cur := []sequence{{}}
	for i := 0; i < n; i++ {
		var nxt []sequence
		for _, p := range cur {
			for _, s := range a.nextSteps(p) {
				q := make(sequence, len(p)+1)
				copy(q, p)
				q[len(p)] = s
				nxt = append(nxt, q)
			}
		}
		cur = nxt
	}
	return cur
}
