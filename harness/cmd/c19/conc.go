package main

import (
	"fmt"
	"math/rand"
	"os"
	"path/filepath"
	"sort"
	"strings"

	"verif/lib"
)

// ---------------------------------------------------------------------------------
// concurrent variant: k coroutines, each instantiating the same generic class with its
// own arguments n times and probing every typed member with every core value kind.
// Every coroutine runs in its own function frame and reports through a channel, so the
// script shares no variables between coroutines.

type concCase struct {
	class   int
	args    [][2]int8 // per coroutine
	iters   int
	probes  [][2]int8 // (member, value kind), same order for every coroutine; member >= peerBase: peer member written from inside a method of an instance with the next coroutine's arguments
	procs   int       // GOMAXPROCS
	seedTag string
}

func (c concCase) String() string {
	cs := classes[c.class]
	var a []string
	for _, x := range c.args {
		a = append(a, fmt.Sprintf("%s<%s>", cs.name, argList(cs, x)))
	}
	return fmt.Sprintf("coroutines {%s} x %d iterations, %d probes each, GOMAXPROCS=%d", strings.Join(a, " | "), c.iters, len(c.probes), c.procs)
}

const peerBase = 64

// probe resolves a probe's member to (property, via, peer?).
func (c concCase) probe(m int8) (p int, via string, peer bool) {
	cs := classes[c.class]
	if m >= peerBase {
		p, via, _ = cs.peerMember(int(m - peerBase))
		return p, via, true
	}
	p, via = cs.member(int(m))
	return p, via, false
}

// actorOf is the coroutine whose arguments the peer actor of coroutine w is created with.
func (c concCase) actorOf(w int) int { return (c.fnOf(w) + 1) % len(c.args) }

// fnOf is the coroutine whose worker function coroutine w runs: the first one with the
// same arguments.
func (c concCase) fnOf(w int) int {
	for u := 0; u < w; u++ {
		if c.args[u] == c.args[w] {
			return u
		}
	}
	return w
}

// phpString renders s as a single-quoted script string literal.
func phpString(s string) string {
	return "'" + strings.NewReplacer("\\", "\\\\", "'", "\\'").Replace(s) + "'"
}

func concLiteral(kind int8) string {
	switch kind {
	case vInt:
		return "7"
	case vString:
		return "\"s\""
	case vArray:
		return "[7]"
	case vU:
		return "new U()"
	}
	panic("kind")
}

func (c concCase) script() string {
	cs := classes[c.class]
	var sb strings.Builder
	sb.WriteString("<?php\n// " + c.String() + "\n")
	sb.WriteString("class U { public $n = 0; }\n")
	// monomorphic control: the message of a plain typed-property rejection, used to tell a
	// type rejection from any other error a probe might raise
	sb.WriteString("class Mono { public int $v; public int $k; }\n")
	sb.WriteString(parents) // what the heritage shapes derive from; must precede the class
	sb.WriteString(cs.decl(""))
	sb.WriteString(`function calib($prop, $cls) {
  $m = new Mono(); $t = "";
  try { if ($prop == "v") { $m->v = "s"; } else { $m->k = "s"; } } catch (\Throwable $e) { $t = $e->getMessage(); }
  return str_replace("Mono", $cls, $t);
}
`)
	for m := 0; m < cs.nMembers(); m++ {
		p, via := cs.member(m)
		stmt := fmt.Sprintf("$o->%s = $val;", cs.props[p])
		if via != "prop" {
			stmt = fmt.Sprintf("$o->%s($val);", cs.memberName(m))
		}
		also := ""
		if paramRejectPrefix != "" && via != "prop" {
			also = fmt.Sprintf(" if (str_starts_with($e->getMessage(), %s)) { return \"P\"; }", phpString(paramRejectPrefix))
		}
		fmt.Fprintf(&sb, "function pw%d($o, $val, $want) { try { %s return \"A\"; } catch (\\Throwable $e) { if ($e->getMessage() == $want) { return \"R\"; }%s return \"X(\" . $e->getMessage() . \")\"; } }\n", m, stmt, also)
	}
	for m := 0; m < cs.nPeerMembers(); m++ {
		_, via, am := cs.peerMember(m)
		also := ""
		if paramRejectPrefix != "" && via != "poke" {
			also = fmt.Sprintf(" if (str_starts_with($e->getMessage(), %s)) { return \"P\"; }", phpString(paramRejectPrefix))
		}
		fmt.Fprintf(&sb, "function pp%d($a, $o, $val, $want) { try { $a->%s($o, $val); return \"A\"; } catch (\\Throwable $e) { if ($e->getMessage() == $want) { return \"R\"; }%s return \"X(\" . $e->getMessage() . \")\"; } }\n", m, am, also)
	}
	for w, a := range c.args {
		if c.fnOf(w) != w {
			continue // same arguments as an earlier coroutine: it runs that coroutine's function (and `new` node)
		}
		// the instantiation is the first thing a coroutine does, so that coroutines running the
		// same function reach the same `new` node for the first time together
		fmt.Fprintf(&sb, "function mk%d() { return new %s<%s>(); }\n", w, cs.name, argList(cs, a))
		// the peer actor: an instance with the next coroutine's arguments, private to this coroutine
		fmt.Fprintf(&sb, "function mka%d() { return new %s<%s>(); }\n", w, cs.name, argList(cs, c.args[c.actorOf(w)]))
		fmt.Fprintf(&sb, "function work%d($ch, $n, $want, $id) {\n  $o = mk%d(); $a = mka%d();\n  $r = \"\"; $i = 0;\n  while ($i < $n) {\n", w, w, w)
		for _, pr := range c.probes {
			p, _, peer := c.probe(pr[0])
			if peer {
				fmt.Fprintf(&sb, "    $r = $r . pp%d($a, $o, %s, $want[%d]);\n", pr[0]-peerBase, concLiteral(pr[1]), p)
			} else {
				fmt.Fprintf(&sb, "    $r = $r . pw%d($o, %s, $want[%d]);\n", pr[0], concLiteral(pr[1]), p)
			}
		}
		fmt.Fprintf(&sb, "    $r = $r . \";\"; $i = $i + 1; $o = mk%d(); $a = mka%d();\n  }\n  $ch->send($id . \" \" . $r);\n}\n", w, w)
		fmt.Fprintf(&sb, "function start%d($ch, $n, $want, $id) { spawn(function() use ($ch, $n, $want, $id) { work%d($ch, $n, $want, $id); }); }\n", w, w)
	}
	sb.WriteString("$want = [];\n")
	for _, p := range cs.props {
		fmt.Fprintf(&sb, "$want[] = calib(\"%s\", \"%s\");\n", p, cs.name)
	}
	for i := range cs.props {
		fmt.Fprintf(&sb, "echo \"CALIB %d \", $want[%d], \"\\n\";\n", i, i)
	}
	fmt.Fprintf(&sb, "$ch = new Channel(%d);\n", len(c.args)+1)
	for w := range c.args {
		fmt.Fprintf(&sb, "start%d($ch, %d, $want, \"%d\");\n", c.fnOf(w), c.iters, w)
	}
	for range c.args {
		sb.WriteString("echo \"RES \", $ch->receive(), \"\\n\";\n")
	}
	sb.WriteString("echo \"DONE\\n\";\n")
	return sb.String()
}

func genConcCase(r *rand.Rand, race bool) concCase {
	c := concCase{class: cBox}
	if r.Intn(3) == 0 {
		c.class = cPair
	}
	if r.Intn(3) != 0 {
		c.class += nBases * r.Intn(nShapes) // members public/protected/private x heritage
	}
	cs := classes[c.class]
	k := 2 + r.Intn(3)
	seen := map[[2]int8]bool{}
	for len(c.args) < k {
		a := [2]int8{int8(r.Intn(nTypes)), 0}
		if len(cs.params) == 2 {
			a[1] = int8(r.Intn(nTypes))
		}
		if seen[a] {
			continue
		}
		seen[a] = true
		c.args = append(c.args, a)
	}
	c.iters = 1 + r.Intn(25)
	if race {
		c.iters = 1 + r.Intn(8)
	}
	switch r.Intn(3) {
	case 0:
		// one more coroutine running the same function (hence the same `new` node and the same
		// instantiation object) as coroutine 0
		c.args = append(c.args, c.args[0])
	case 1:
		// burst: two instantiations, each evaluated for the first time by 3..4 coroutines at once
		c.args = c.args[:2]
		n := 3 + r.Intn(2)
		for i := 1; i < n; i++ {
			c.args = append(c.args, c.args[0], c.args[1])
		}
		c.iters = 1 + r.Intn(2)
	}
	for _, m := range cs.topMembers(true) {
		for v := 0; v < nValsCore; v++ {
			c.probes = append(c.probes, [2]int8{int8(m), int8(v)})
		}
	}
	for m := 0; m < cs.nPeerMembers(); m++ {
		for v := 0; v < nValsCore; v++ {
			c.probes = append(c.probes, [2]int8{int8(peerBase + m), int8(v)})
		}
	}
	r.Shuffle(len(c.probes), func(i, j int) { c.probes[i], c.probes[j] = c.probes[j], c.probes[i] })
	c.procs = []int{1, 2, 4, 8, 16}[r.Intn(5)]
	return c
}

// evalConc compares what the coroutines reported with the per-instance expectation.
func (d *driver) evalConc(c concCase, stdout string, src string) (ok bool) {
	cs := classes[c.class]
	calib := 0
	res := map[int]string{}
	done := false
	for _, line := range strings.Split(stdout, "\n") {
		switch {
		case strings.HasPrefix(line, "CALIB "):
			f := strings.SplitN(line, " ", 3)
			if len(f) == 3 && strings.TrimSpace(f[2]) != "" {
				calib++
			}
		case strings.HasPrefix(line, "RES "):
			f := strings.SplitN(line, " ", 3)
			if len(f) == 3 {
				var w int
				if _, err := fmt.Sscanf(f[1], "%d", &w); err == nil {
					res[w] = f[2]
				}
			}
		case line == "DONE":
			done = true
		}
	}
	if !done || len(res) != len(c.args) {
		return false
	}
	if calib != len(cs.props) {
		d.e.Inconclusive("concurrent run: a plain typed property did not reject a value of another type, so rejections cannot be told from other errors: " + c.String())
		return false
	}
	for w, a := range c.args {
		s := res[w]
		if strings.Contains(s, "X(") {
			i := strings.Index(s, "X(")
			d.e.Inconclusive(fmt.Sprintf("concurrent run: a probe raised an error that is not a type rejection (%.120s): %s", s[i:], c.String()))
			return false
		}
		iters := strings.Split(strings.TrimSuffix(s, ";"), ";")
		if len(iters) != c.iters {
			d.e.Inconclusive(fmt.Sprintf("concurrent run: coroutine %d reported %d iterations instead of %d: %s", w, len(iters), c.iters, c.String()))
			return false
		}
		for it, letters := range iters {
			if len(letters) != len(c.probes) {
				d.e.Inconclusive(fmt.Sprintf("concurrent run: malformed report %q: %s", letters, c.String()))
				return false
			}
			for pi, pr := range c.probes {
				p, via, peer := c.probe(pr[0])
				own := a[p]
				exp := accepts(own, pr[1]) // the target's own argument decides, also for writes made by the peer actor
				obs := letters[pi] == 'A'
				if obs == exp {
					continue
				}
				if peer {
					via += "/actor=" + typeNames[c.args[c.actorOf(w)][p]]
				}
				// 'P': rejected by a parameter declaration. Explained by the shared declaration
				// having been bound through another coroutine's instance?
				byParam := letters[pi] == 'P' || via == "param"
				as := int8(-1)
				for u, b := range c.args {
					if !byParam && !peer && u != w && b[p] != own && accepts(b[p], pr[1]) == obs {
						if as < 0 || b[p] < as {
							as = b[p]
						}
					}
				}
				what := fmt.Sprintf("%s: in iteration %d coroutine %d's instance (parameter %s = %s) had a %s value %s by property %s through %s, expected %s",
					c.String(), it, w, cs.params[p], typeNames[own], valNames[pr[1]], word(obs), cs.props[p], via, word(exp))
				var key string
				if byParam && exp && !obs {
					key = fmt.Sprintf("unbound-param/concurrent/class=%s/param=%s/own=%s/value=%s/via=%s", cs.name, cs.params[p], typeNames[own], valNames[pr[1]], via)
					what += "; a value of the instance's own argument type is rejected by a member whose parameter is declared with the type parameter"
				} else if as >= 0 {
					key = fmt.Sprintf("shared-decl/first-lookup-wins-concurrent/class=%s/prop=%s/own=%s/as=%s/value=%s/via=%s",
						cs.name, cs.props[p], typeNames[own], typeNames[as], valNames[pr[1]], via)
					what += fmt.Sprintf("; it behaves as the %s instantiation of another coroutine", typeNames[as])
				} else {
					key = fmt.Sprintf("accept-mismatch-concurrent/class=%s/prop=%s/own=%s/value=%s/via=%s/observed=%s",
						cs.name, cs.props[p], typeNames[own], valNames[pr[1]], via, word(obs))
				}
				d.mu.Lock()
				if _, dup := d.best[key]; !dup {
					d.best[key] = found{key: key, what: what, script: src, single: true}
				}
				d.mu.Unlock()
			}
		}
	}
	return true
}

// ---------------------------------------------------------------------------------
// race reports

type raceFrame struct{ fn, file string }

// parseRaceLog returns, per report, the frames of the two conflicting accesses.
func parseRaceLog(text string) [][2][]raceFrame {
	var out [][2][]raceFrame
	for _, block := range strings.Split(text, "==================") {
		if !strings.Contains(block, "WARNING: DATA RACE") {
			continue
		}
		var acc [][]raceFrame
		for _, sec := range strings.Split(block, "\n\n") {
			lines := strings.Split(strings.Trim(sec, "\n"), "\n")
			// drop the WARNING line
			for len(lines) > 0 && (strings.HasPrefix(lines[0], "WARNING") || strings.TrimSpace(lines[0]) == "") {
				lines = lines[1:]
			}
			if len(lines) == 0 {
				continue
			}
			h := lines[0]
			if !(strings.HasPrefix(h, "Read at") || strings.HasPrefix(h, "Write at") || strings.HasPrefix(h, "Previous read at") ||
				strings.HasPrefix(h, "Previous write at") || strings.HasPrefix(h, "Atomic") || strings.HasPrefix(h, "Previous atomic")) {
				continue
			}
			var fr []raceFrame
			for i := 1; i+1 < len(lines); i += 2 {
				fn := strings.TrimSpace(lines[i])
				file := strings.TrimSpace(lines[i+1])
				if j := strings.Index(file, " "); j >= 0 {
					file = file[:j]
				}
				if j := strings.LastIndex(file, ":"); j >= 0 {
					file = file[:j]
				}
				fr = append(fr, raceFrame{fn: strings.TrimSuffix(fn, "()"), file: file})
			}
			acc = append(acc, fr)
		}
		if len(acc) >= 2 {
			out = append(out, [2][]raceFrame{acc[0], acc[1]})
		}
	}
	return out
}

func shortFn(fn string) string {
	if i := strings.LastIndex(fn, "/"); i >= 0 {
		fn = fn[i+1:]
	}
	if i := strings.Index(fn, "."); i >= 0 {
		fn = fn[i+1:]
	}
	return fn
}

func repoRel(file string) string {
	for _, mark := range []string{"/node/", "/data/", "/runtime/", "/parser/", "/std/", "/lexer/", "/utils/"} {
		if i := strings.LastIndex(file, mark); i >= 0 {
			return file[i+1:]
		}
	}
	return filepath.Base(file)
}

const genericFile = "node/class_generic.go"
const origamiPkg = "github.com/php-any/origami/"

// classifyRace returns the violation key of a report attributed to the property, or ""
// and a signature for the unattributed list. Attributed are reports in which one of the
// two accesses is made by the generic-class code itself: a function of
// node/class_generic.go, or the construction/caching of an instantiation in
// (*NewClassGenerated).resolveClass.
func classifyRace(rep [2][]raceFrame) (key string, sig string) {
	var sigs []string
	sharedDecl, construction := false, false
	var hit *raceFrame
	for _, fr := range rep {
		if len(fr) > 0 {
			sigs = append(sigs, repoRel(fr[0].file)+":"+shortFn(fr[0].fn))
		}
		// the access is made by the first interpreter frame below Go runtime frames (map
		// access, memmove …) and below the accessors of the property declaration's type
		k := 0
		for k < len(fr) && (!strings.HasPrefix(fr[k].fn, origamiPkg) ||
			strings.HasSuffix(fr[k].fn, "(*ClassProperty).SetType") || strings.HasSuffix(fr[k].fn, "(*ClassProperty).GetType")) {
			k++
		}
		if k >= len(fr) {
			continue
		}
		by := fr[k]
		switch {
		case strings.HasSuffix(by.fn, "(*NewClassGenerated).resolveClass"):
			construction = true
		case strings.HasSuffix(by.fn, "(*ClassGeneric).Clone"):
			construction = true
		case repoRel(by.file) == genericFile:
			if hit == nil {
				hit = &by
			}
			if k > 0 && strings.HasSuffix(fr[k-1].fn, "(*ClassProperty).SetType") && strings.HasSuffix(by.fn, "(*ClassGeneric).GetProperty") {
				sharedDecl = true
			}
		}
	}
	sort.Strings(sigs)
	sig = strings.Join(sigs, " <-> ")
	switch {
	case sharedDecl:
		// the shared property declaration is overwritten by one coroutine while another reads it
		return "shared-decl/race@" + genericFile + ":(*ClassGeneric).GetProperty:SetType", sig
	case construction:
		// one side builds (type-argument map, Clone) or caches a fresh instantiation object in
		// the `new` node: it reaches another coroutine through that cache without synchronisation
		return "unsafe-publication/race@node/new.go:(*NewClassGenerated).resolveClass", sig
	case hit != nil:
		return "race@" + genericFile + ":" + shortFn(hit.fn), sig
	}
	return "", sig
}

// ---------------------------------------------------------------------------------

func (d *driver) concurrent() {
	e := d.e
	// plain binary: many runs, functional oracle only
	{
		r := e.Rand("conc")
		n := e.Pick(150, 2000)
		cases := make([]concCase, n)
		for i := range cases {
			cases[i] = genConcCase(r, false)
		}
		lib.ParallelMap(n, 0, func(i int) {
			c := cases[i]
			src := c.script()
			res := e.RunScript(src, procTimeout, fmt.Sprintf("GOMAXPROCS=%d", c.procs))
			d.afterConc(c, src, res, false)
		})
	}
	// race-detector binary
	if _, err := os.Stat(e.OrigamiRace()); err != nil {
		e.Inconclusive("origami-race binary missing: the race-detector runs were skipped")
		return
	}
	r := e.Rand("conc-race")
	n := e.Pick(16, 120)
	cases := make([]concCase, n)
	for i := range cases {
		cases[i] = genConcCase(r, true)
	}
	lib.ParallelMap(n, 8, func(i int) {
		c := cases[i]
		src := c.script()
		dir := filepath.Join(e.Scratch, fmt.Sprintf("race%d", i))
		_ = os.MkdirAll(dir, 0o755)
		res := e.RunScriptWith(e.OrigamiRace(), src, procTimeout,
			fmt.Sprintf("GOMAXPROCS=%d", c.procs),
			"GORACE=halt_on_error=0 exitcode=0 log_path="+filepath.Join(dir, "r"))
		if !d.afterConc(c, src, res, true) {
			return
		}
		logs, _ := filepath.Glob(filepath.Join(dir, "r.*"))
		for _, lf := range logs {
			b, err := os.ReadFile(lf)
			if err != nil {
				continue
			}
			for _, rep := range parseRaceLog(string(b)) {
				key, sig := classifyRace(rep)
				d.mu.Lock()
				d.raceSeen++
				if key == "" {
					d.raceOther[sig]++
				} else {
					d.raceAttr[key]++
					if _, dup := d.best[key]; !dup {
						d.best[key] = found{key: key, single: true, script: src,
							what: "the race detector reports conflicting unsynchronised accesses in " + genericFile + " (" + sig + ") while coroutines instantiate different arguments of one generic class: " + c.String() + " (run with the -race build of the CLI)"}
					}
				}
				d.mu.Unlock()
			}
		}
		_ = os.RemoveAll(dir)
	})
}

// afterConc handles the outcome of one concurrent run; it reports whether the run completed.
func (d *driver) afterConc(c concCase, src string, res lib.ProcResult, race bool) bool {
	if res.TimedOut {
		d.e.Inconclusive("watchdog fired on concurrent run: " + c.String())
		return false
	}
	if crash, what := lib.GoCrash(res); crash {
		site := lib.PanicSite(res.Stderr)
		// a crash of a concurrent run is this property's business only when it happens in the
		// generic-class code; the interpreter has unsynchronised state elsewhere (call depth,
		// static locals, registries) that other properties cover
		if !strings.HasPrefix(site, "node/class_generic.go") && !strings.HasPrefix(site, "node/new.go") && !strings.HasPrefix(site, "data/type_generic.go") {
			d.e.Inconclusive("concurrent run crashed outside the generic-class code (" + site + "): " + c.String())
			return false
		}
		d.mu.Lock()
		if _, ok := d.best["panic@"+site]; !ok {
			d.best["panic@"+site] = found{key: "panic@" + site, what: "concurrent run crashed the interpreter: " + what + ": " + c.String(), script: src, single: true}
		}
		d.mu.Unlock()
		return false
	}
	if !d.evalConc(c, res.Stdout, src) {
		if !strings.Contains(res.Stdout, "DONE") {
			d.mu.Lock()
			d.incompl++
			n := d.incompl
			d.mu.Unlock()
			if n <= 5 {
				d.e.Inconclusive(fmt.Sprintf("concurrent run did not reach its end marker (exit %d): %.200s %.200s: %s", res.Exit, res.Stdout, res.Stderr, c.String()))
			}
		}
		return false
	}
	d.mu.Lock()
	if race {
		d.raceRuns++
	} else {
		d.concRuns++
	}
	d.mu.Unlock()
	d.distinct.Add(lib.Hash("conc", c.String(), fmt.Sprint(c.probes)))
	return true
}
