// Command c19 decides property C19 (a generic instantiation enforces its own type
// arguments, whatever came before) on the real interpreter: generated scripts declare
// generic classes with one or two type parameters, instantiate them over
// {int, string, array, a user class} and write through typed members (direct property
// stores, typed methods that store through $this, a storing constructor) of any live
// instance; every write prints an accepted/rejected marker and the value the property
// holds afterwards. The expectation is computed per instance from its own arguments
// (model.go). A concurrent variant (conc.go) lets coroutines instantiate different
// arguments of one class at the same time, also under the race detector.
package main

import (
	"fmt"
	"math/rand"
	"os"
	"path/filepath"
	"sort"
	"strings"
	"sync"
	"time"
	"unicode/utf8"

	"verif/lib"
)

const (
	batchSize    = 96
	procTimeout  = 5 * time.Minute
	maxSingleRe  = 400 // cap on single re-runs of sequences that a batch did not complete
	maxPanicKeys = 50
)

type found struct {
	key, what string
	q         sequence
	script    string // the script that showed it
	single    bool   // script runs this history alone
}

type driver struct {
	e *lib.Env

	mu        sync.Mutex
	best      map[string]found
	evals     int // sequences executed to completion and compared
	writes    int // member writes compared
	distinct  lib.DistinctCounter
	samples   []any
	byPhase   map[string]int
	sampled   map[string]int
	singleRe  int
	incompl   int
	concRuns  int
	raceRuns  int
	raceSeen  int
	raceAttr  map[string]int
	raceOther map[string]int
}

func (d *driver) record(phase string, q sequence, res evalResult, script string, single bool) {
	d.mu.Lock()
	defer d.mu.Unlock()
	d.evals++
	d.byPhase[phase]++
	d.writes += res.writes
	if res.nontrivial {
		d.distinct.Add(q.id())
		if d.sampled[phase] < 2 && len(q) >= 3 && d.evals%7 == 0 {
			d.sampled[phase]++
			d.samples = append(d.samples, phase+": "+q.String())
		}
	}
	for _, x := range res.dis {
		old, ok := d.best[x.key]
		if ok {
			// keep the shortest history (ties: smallest identity)
			if len(old.q) < len(q) || (len(old.q) == len(q) && old.q.id() <= q.id()) {
				continue
			}
		}
		d.best[x.key] = found{key: x.key, what: x.what(), q: q, script: script, single: single}
	}
}

// runSingle executes one history alone in a fresh process.
func (d *driver) runSingle(phase string, q sequence) {
	src := renderSingle(q)
	r := d.e.RunScript(src, procTimeout)
	if r.TimedOut {
		d.e.Inconclusive("watchdog fired on history [" + q.String() + "]")
		return
	}
	if crash, what := lib.GoCrash(r); crash {
		site := lib.PanicSite(r.Stderr)
		d.mu.Lock()
		if _, ok := d.best["panic@"+site]; !ok && len(d.best) < 10000 {
			d.best["panic@"+site] = found{key: "panic@" + site, what: "history [" + q.String() + "] crashed the interpreter: " + what, q: q, script: src, single: true}
		}
		d.mu.Unlock()
		return
	}
	o := parseOutput(r.Stdout)[0]
	if !o.complete(q) {
		d.mu.Lock()
		d.incompl++
		n := d.incompl
		d.mu.Unlock()
		if n <= 5 {
			d.e.Inconclusive(fmt.Sprintf("history [%s] did not run to its end marker (exit %d): %.200s %.200s", q, r.Exit, r.Stdout, r.Stderr))
		}
		return
	}
	d.record(phase, q, evalSeq(q, o), src, true)
}

// runBatch executes several histories in one process, each with its own declarations of
// the generic classes; histories the process did not complete are re-run alone.
func (d *driver) runBatch(phase string, qs []sequence) {
	src := renderBatch(qs)
	r := d.e.RunScript(src, procTimeout)
	outs := map[int]*seqOutput{}
	if !r.TimedOut {
		outs = parseOutput(r.Stdout)
	}
	for i, q := range qs {
		o := outs[i]
		if o.complete(q) {
			d.record(phase, q, evalSeq(q, o), src, false)
			continue
		}
		d.mu.Lock()
		d.singleRe++
		n := d.singleRe
		d.mu.Unlock()
		if n > maxSingleRe {
			d.mu.Lock()
			d.incompl++
			d.mu.Unlock()
			if n == maxSingleRe+1 {
				d.e.Inconclusive("more than the capped number of histories were left incomplete by their batch; the rest is not re-run")
			}
			continue
		}
		d.runSingle(phase, q)
	}
}

func chop(qs []sequence, n int) [][]sequence {
	var out [][]sequence
	for len(qs) > 0 {
		k := n
		if k > len(qs) {
			k = len(qs)
		}
		out = append(out, qs[:k])
		qs = qs[k:]
	}
	return out
}

// exhaustive runs every sequence of 1..maxLen steps over the alphabet (only those of
// exactly maxLen steps when onlyLongest) in batches. Work units are the 2-step prefixes.
func (d *driver) exhaustive(phase string, a alphabet, maxLen int, onlyLongest bool) int {
	type unit struct{ prefix sequence }
	var units []unit
	short := a.exactly(1)
	if maxLen >= 2 {
		for _, p := range a.exactly(2) {
			units = append(units, unit{p})
		}
	}
	var total int64
	var tmu sync.Mutex
	lib.ParallelMap(len(units)+1, 0, func(i int) {
		var qs []sequence
		if i == len(units) {
			if onlyLongest && maxLen != 1 {
				return
			}
			qs = short
		} else {
			p := units[i].prefix
			var ext []sequence
			a.extensions(p, maxLen-2, &ext)
			all := append([]sequence{p}, ext...)
			for _, q := range all {
				if !onlyLongest || len(q) == maxLen {
					qs = append(qs, q)
				}
			}
		}
		tmu.Lock()
		total += int64(len(qs))
		tmu.Unlock()
		for _, b := range chop(qs, batchSize) {
			d.runBatch(phase, b)
		}
	})
	return int(total)
}

// ---------------------------------------------------------------------------------
// seeded histories

// randomWalk draws a sequence of exactly n steps uniformly step by step over the alphabet.
func randomWalk(r *rand.Rand, a alphabet, n int) sequence {
	var q sequence
	for len(q) < n {
		nx := a.nextSteps(q)
		q = append(q, nx[r.Intn(len(nx))])
	}
	return q
}

// longHistory draws a history of n steps with at most 6 instantiations over the full
// vocabulary: three class shapes, both instantiation forms, reads, foreign values.
func longHistory(r *rand.Rand, n int) sequence {
	var q sequence
	type live struct {
		idx   int
		class int
		args  [2]int8
	}
	var lives []live
	ninst := 0
	mainClass := r.Intn(len(classes))
	mixed := r.Intn(10) < 3
	for len(q) < n {
		roll := r.Intn(100)
		if len(lives) == 0 || (ninst < 6 && roll < 35) {
			ci := mainClass
			if mixed {
				ci = r.Intn(len(classes))
			}
			c := classes[ci]
			s := step{Op: 'I', Class: int8(ci), Form: int8(r.Intn(2))}
			s.Args[0] = int8(r.Intn(nTypes))
			if len(c.params) == 2 {
				s.Args[1] = int8(r.Intn(nTypes))
			}
			if ninst >= 6 {
				break // six instantiations and no live instance left: the history ends here
			}
			ok := true
			if c.ctor {
				// constructor argument: mostly of the own type, sometimes another kind
				if len(lives) == 0 || r.Intn(100) < 65 {
					s.Val = s.Args[0]
				} else {
					s.Val = int8(r.Intn(nValsAll))
				}
				ok = accepts(s.Args[0], s.Val)
			}
			q = append(q, s)
			if ok {
				lives = append(lives, live{ninst, ci, s.Args})
			}
			ninst++
			continue
		}
		t := lives[r.Intn(len(lives))]
		c := classes[t.class]
		if roll >= 90 {
			q = append(q, step{Op: 'R', Inst: int8(t.idx), Member: int8(r.Intn(len(c.props)))})
			continue
		}
		pickVal := func(p int) int8 {
			switch k := r.Intn(100); {
			case k < 35:
				return t.args[p] // of the own type
			case k < 70:
				o := lives[r.Intn(len(lives))] // of the type some live instance was created with
				return o.args[r.Intn(len(classes[o.class].params))]
			case k < 85:
				return int8(r.Intn(nValsCore))
			}
			return int8(r.Intn(nValsAll))
		}
		if roll >= 55 {
			// a write performed from inside a method of a live instance of the same class
			// declaration (another instantiation, the same instantiation, or the target itself)
			var actors []live
			for _, a := range lives {
				if a.class == t.class {
					actors = append(actors, a)
				}
			}
			a := actors[r.Intn(len(actors))]
			m := r.Intn(c.nPeerMembers())
			p, _, _ := c.peerMember(m)
			q = append(q, step{Op: 'P', Inst: int8(t.idx), Actor: int8(a.idx), Member: int8(m), Val: pickVal(p)})
			continue
		}
		if ms := c.multis(); paramsEnforced && len(ms) > 0 && r.Intn(100) < 35 {
			mi := r.Intn(len(ms))
			q = append(q, step{Op: 'M', Inst: int8(t.idx), Member: int8(mi), Val: int8(r.Intn(len(ms[mi].patterns())))})
			continue
		}
		tm := c.topMembers(true)
		m := tm[r.Intn(len(tm))]
		p, _ := c.member(m)
		v := pickVal(p)
		q = append(q, step{Op: 'W', Inst: int8(t.idx), Member: int8(m), Val: v})
	}
	return q
}

// calibrate asks the interpreter, on a plain class, whether method parameter types are
// enforced at all and how such a rejection is worded (common prefix of two rejections
// that differ in declared type and value; used by the concurrent probes only).
func (d *driver) calibrate() {
	src := `<?php
class Mono { public function ti(int $x) { return 1; } public function ta(array $x) { return 1; } }
$m = new Mono();
try { $m->ti("s"); echo "P1 accepted\n"; } catch (\Throwable $e) { echo "P1 rejected ", $e->getMessage(), "\n"; }
try { $m->ta(7); echo "P2 accepted\n"; } catch (\Throwable $e) { echo "P2 rejected ", $e->getMessage(), "\n"; }
try { $m->ti(5); echo "P3 accepted\n"; } catch (\Throwable $e) { echo "P3 rejected ", $e->getMessage(), "\n"; }
class NBox<T> { public function nn(int $n, ?T $x) { return 1; } }
$g = new NBox<int>();
try { $g->nn(1, 5); echo "N1 accepted\n"; } catch (\Throwable $e) { echo "N1 rejected ", $e->getMessage(), "\n"; }
`
	r := d.e.RunScript(src, procTimeout)
	var m1, m2 string
	ok3 := false
	got := 0
	for _, line := range strings.Split(r.Stdout, "\n") {
		switch {
		case strings.HasPrefix(line, "P1 rejected "):
			m1 = strings.TrimPrefix(line, "P1 rejected ")
			got++
		case strings.HasPrefix(line, "P2 rejected "):
			m2 = strings.TrimPrefix(line, "P2 rejected ")
			got++
		case line == "P1 accepted", line == "P2 accepted":
			got++
		case line == "P3 accepted":
			ok3 = true
			got++
		case strings.HasPrefix(line, "P3 rejected"):
			got++
		}
	}
	if got != 3 {
		d.e.Inconclusive(fmt.Sprintf("calibration script did not complete (exit %d): %.200s %.200s; parameter-only methods are not compared", r.Exit, r.Stdout, r.Stderr))
		return
	}
	paramsEnforced = m1 != "" && m2 != "" && ok3
	if paramsEnforced {
		n := 0
		for n < len(m1) && n < len(m2) && m1[n] == m2[n] {
			n++
		}
		for n > 0 && !utf8.ValidString(m1[:n]) {
			n--
		}
		if n >= 6 {
			paramRejectPrefix = m1[:n]
		}
	}
}

// regressionInputs re-runs the stdout witnesses of the (former) findings on every run: a
// witness whose output differs from the output the property prescribes is a violation
// under the key family of the defect it once demonstrated.
func (d *driver) regressionInputs() {
	ran := 0
	for _, w := range []struct{ file, key string }{
		{"generic-first-lookup-wins", "shared-decl/witness"},
		{"generic-method-param-unsubstituted", "unbound-param/witness"},
	} {
		src, err1 := os.ReadFile(filepath.Join(d.e.Verif, "findings", "C19", w.file+".php"))
		want, err2 := os.ReadFile(filepath.Join(d.e.Verif, "findings", "C19", w.file+".expected"))
		if err1 != nil || err2 != nil {
			continue
		}
		r := d.e.RunScript(string(src), procTimeout)
		if r.TimedOut {
			d.e.Inconclusive("watchdog fired on regression input " + w.file)
			continue
		}
		ran++
		d.mu.Lock()
		d.evals++
		d.byPhase["regression-inputs"]++
		d.mu.Unlock()
		if r.Stdout != string(want) {
			d.e.Violation(w.key, fmt.Sprintf("regression input findings/C19/%s.php prints %q, the property prescribes %q", w.file, r.Stdout, string(want)), "php", src)
		}
	}
	d.e.Extra("regression_inputs_run", ran)
}

// paramRejectPrefix is the calibrated common prefix of parameter-type rejections ("" = unknown).
var paramRejectPrefix string

// ---------------------------------------------------------------------------------

func main() {
	e := lib.Init("C19", "exploration")
	e.RunScriptWitnesses()
	d := &driver{e: e, best: map[string]found{}, byPhase: map[string]int{}, sampled: map[string]int{}, raceAttr: map[string]int{}, raceOther: map[string]int{}}

	d.calibrate()
	d.regressionInputs()
	core := alphabet{classes: []int{cBox, cPair}, nVals: nValsCore}
	coreAll := alphabet{classes: []int{cBox, cPair}, nVals: nValsCore, withChecks: true, withPeers: true, withMulti: true}
	boxOnly := alphabet{classes: []int{cBox}, nVals: nValsCore}
	// shaped(s, bases...): the given base classes in shape s (modifier x heritage), with the
	// parameter-only methods and the writes from inside another instance's method
	shaped := func(shape int, bases ...int) alphabet {
		a := alphabet{nVals: nValsCore, withChecks: true, withPeers: true, withMulti: true}
		for _, b := range bases {
			a.classes = append(a.classes, b+nBases*shape)
		}
		return a
	}

	// (1) every history of up to 2 steps, each alone in a fresh process
	var small []sequence
	small = append(small, coreAll.exactly(1)...)
	small = append(small, coreAll.exactly(2)...)
	lib.ParallelMap(len(small), 0, func(i int) { d.runSingle("single<=2", small[i]) })

	// (2) complete enumeration, batched (every history owns its class declarations)
	enumerated := 0
	exhaustiveLen := 3
	if e.Quick() {
		enumerated += d.exhaustive("enum<=3", core, 3, false)
		enumerated += d.exhaustive("enum=4/Box", boxOnly, 4, true)
	} else {
		exhaustiveLen = 4
		enumerated += d.exhaustive("enum<=4", core, 4, false)
	}
	// (2b) every class shape (public/protected/private members x no parent / plain parent /
	// abstract parent + interface / parent whose constructor is called through
	// parent::__construct / interface only): all histories of up to 3 steps over the
	// one-parameter class, including parameter-only methods and writes from inside a method
	// of any live instance (the target itself, the same or another instantiation); the
	// two-parameter class and the class with a storing constructor up to 2 steps (thorough:
	// 3), plus seeded 3..4-step histories over all three
	for shape := 0; shape < nShapes; shape++ {
		noMulti := shaped(shape, cBox)
		noMulti.withMulti = false
		enumerated += d.exhaustive("shapes<=3/Box", noMulti, 3, false)
		// with the multi-parameter methods (every argument pattern): up to 2 steps (thorough: 3)
		enumerated += d.exhaustive(fmt.Sprintf("shapes<=%d/Box+multi", e.Pick(2, 3)), shaped(shape, cBox), e.Pick(2, 3), false)
		enumerated += d.exhaustive(fmt.Sprintf("shapes<=%d/Pair", e.Pick(2, 3)), shaped(shape, cPair), e.Pick(2, 3), false)
		enumerated += d.exhaustive(fmt.Sprintf("shapes<=%d/Cell", e.Pick(2, 3)), shaped(shape, cCell), e.Pick(2, 3), false)
	}
	{
		r := e.Rand("walk34")
		var qs []sequence
		for i := 0; i < e.Pick(3000, 60000); i++ {
			qs = append(qs, randomWalk(r, shaped(r.Intn(nShapes), cBox, cPair, cCell), 3+r.Intn(2)))
		}
		bs := chop(qs, batchSize)
		lib.ParallelMap(len(bs), 0, func(i int) { d.runBatch("seeded3-4/shapes", bs[i]) })
	}

	// (3) seeded histories of 3..4 steps alone in a fresh process (same space as (2), but
	// without other histories in the process)
	{
		r := e.Rand("single34")
		n := e.Pick(600, 6000)
		qs := make([]sequence, n)
		for i := range qs {
			qs[i] = randomWalk(r, shaped(r.Intn(nShapes), cBox, cPair), 3+r.Intn(2))
		}
		lib.ParallelMap(n, 0, func(i int) { d.runSingle("single3-4", qs[i]) })
	}

	// (4) seeded long histories (5..10 steps, at most 6 instantiations) over the full
	// vocabulary, each alone in a fresh process
	{
		r := e.Rand("long")
		n := e.Pick(800, 12000)
		qs := make([]sequence, n)
		for i := range qs {
			qs[i] = longHistory(r, 5+r.Intn(6))
		}
		lib.ParallelMap(n, 0, func(i int) { d.runSingle("long5-10", qs[i]) })
	}

	// (5) concurrent instantiations
	d.concurrent()

	// ---- verdicts: confirm batch-only sightings alone, then report in key order
	keys := make([]string, 0, len(d.best))
	for k := range d.best {
		keys = append(keys, k)
	}
	sort.Strings(keys)
	npanic := 0
	for _, k := range keys {
		f := d.best[k]
		if strings.HasPrefix(k, "panic@") {
			npanic++
			if npanic > maxPanicKeys {
				continue
			}
		}
		if !f.single && f.q != nil {
			src := renderSingle(f.q)
			r := e.RunScript(src, procTimeout)
			o := parseOutput(r.Stdout)[0]
			confirmed := false
			if !r.TimedOut && o.complete(f.q) {
				for _, x := range evalSeq(f.q, o).dis {
					if x.key == k {
						confirmed = true
					}
				}
			}
			if confirmed {
				f.script, f.single = src, true
			} else {
				f.what += " (seen only in a file that runs other histories with their own class declarations as well; alone the history behaves as expected)"
			}
		}
		e.Violation(k, f.what, "php", []byte(f.script))
	}

	e.Extra("method_parameter_types_enforced", paramsEnforced)
	e.Extra("nullable_type_parameter_positions_compared", nullableOK)
	e.Extra("by_phase", d.byPhase)
	e.Extra("member_writes_compared", d.writes)
	e.Extra("enumerated_histories", enumerated)
	e.Extra("exhaustive_up_to_steps", exhaustiveLen)
	e.Extra("incomplete_histories", d.incompl)
	e.Extra("single_reruns", d.singleRe)
	e.Extra("concurrent_runs", d.concRuns)
	e.Extra("race_detector_runs", d.raceRuns)
	e.Extra("race_reports_seen", d.raceSeen)
	e.Extra("race_reports_attributed", d.raceAttr)
	e.Extra("unattributed_races", topN(d.raceOther, 12))
	e.Assume(
		"acceptance is observed as 'the store did not throw and the property then holds the written value'; any Throwable counts as a rejection",
		"methods whose parameter is declared with a type parameter and that store nothing are compared only when the interpreter rejects a string for `int $x` of a plain class's method (calibrated at start, see method_parameter_types_enforced); null arguments to them are not compared because every typed parameter accepts null",
		"race reports are attributed to the property only when one of the two accesses is made by a function of node/class_generic.go or by (*NewClassGenerated).resolveClass (first interpreter frame below Go runtime frames and the property-type accessors); all other reports are listed as unattributed",
		"a Go-level crash of a concurrent run is attributed only when its site is in node/class_generic.go, node/new.go or data/type_generic.go",
		"a write performed from inside a method of another instance (poke/relay/relayh) is expected to follow the TARGET instance's own arguments; actor and target are instances of the same class declaration, so protected and private members are accessible to the actor",
		"non-public members are never stored to directly from top-level code (that is a visibility matter); they are read back through a public getter",
	)
	samples := d.samples
	if len(samples) == 0 {
		samples = append(samples, "no non-trivial history completed")
	}
	e.Finish(lib.Coverage{
		Evaluations:        d.evals + d.concRuns + d.raceRuns,
		DistinctNontrivial: d.distinct.N(),
		Rule:               "distinct histories in which a member write was compared while another live instance of the same generic class had different type arguments (concurrent runs: at least two coroutines with different arguments reported)",
		Samples:            samples,
		Exhaustive:         true,
	})
}

func topN(m map[string]int, n int) map[string]int {
	type kv struct {
		k string
		v int
	}
	var all []kv
	for k, v := range m {
		all = append(all, kv{k, v})
	}
	sort.Slice(all, func(i, j int) bool {
		if all[i].v != all[j].v {
			return all[i].v > all[j].v
		}
		return all[i].k < all[j].k
	})
	out := map[string]int{}
	for i, x := range all {
		if i >= n {
			break
		}
		out[x.k] = x.v
	}
	return out
}
