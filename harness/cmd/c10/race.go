package main

// Race-detector logs: parsing, attribution (DESIGN §2.3: by the innermost repository frame
// of each of the two conflicting accesses) and keys.

import (
	"os"
	"path/filepath"
	"sort"
	"strings"
)

type raceFrame struct{ fn, file string }

// parseRaceLog returns, per report, the stacks of the two conflicting accesses.
func parseRaceLog(text string) [][2][]raceFrame {
	var out [][2][]raceFrame
	for _, block := range strings.Split(text, "==================") {
		if !strings.Contains(block, "WARNING: DATA RACE") {
			continue
		}
		var acc [][]raceFrame
		for _, sec := range strings.Split(block, "\n\n") {
			lines := strings.Split(strings.Trim(sec, "\n"), "\n")
			for len(lines) > 0 && (strings.HasPrefix(lines[0], "WARNING") || strings.TrimSpace(lines[0]) == "") {
				lines = lines[1:]
			}
			if len(lines) == 0 {
				continue
			}
			h := lines[0]
			if !(strings.HasPrefix(h, "Read at") || strings.HasPrefix(h, "Write at") || strings.HasPrefix(h, "Previous read at") ||
				strings.HasPrefix(h, "Previous write at") || strings.HasPrefix(h, "Atomic") || strings.HasPrefix(h, "Previous atomic")) {
				continue
			}
			var fr []raceFrame
			for i := 1; i+1 < len(lines); i += 2 {
				fn := strings.TrimSpace(lines[i])
				file := strings.TrimSpace(lines[i+1])
				if j := strings.Index(file, " "); j >= 0 {
					file = file[:j]
				}
				if j := strings.LastIndex(file, ":"); j >= 0 {
					file = file[:j]
				}
				fr = append(fr, raceFrame{fn: strings.TrimSuffix(fn, "()"), file: file})
			}
			acc = append(acc, fr)
		}
		if len(acc) >= 2 {
			out = append(out, [2][]raceFrame{acc[0], acc[1]})
		}
	}
	return out
}

const origamiPkg = "github.com/php-any/origami/"

// repoFrame: the innermost frame of a stack that belongs to the repository (function of the
// origami module, hooks excluded), as (relative file, short function).
func repoFrame(fr []raceFrame, repo string) (file, fn string, ok bool) {
	for _, f := range fr {
		if !strings.HasPrefix(f.fn, origamiPkg) || strings.Contains(f.fn, "/verifhook.") {
			continue
		}
		file = f.file
		if strings.HasPrefix(file, repo+"/") {
			file = file[len(repo)+1:]
		} else if i := strings.Index(file, "/origami/"); i >= 0 {
			file = file[i+9:]
		}
		fn = f.fn[len(origamiPkg):]
		if i := strings.Index(fn, "."); i >= 0 {
			fn = fn[i+1:] // drop the package path: (*VM).AddClass
		}
		fn = trimClosure(fn)
		return file, fn, true
	}
	return "", "", false
}

// trimClosure: (*VM).foo.func1.2 -> (*VM).foo
func trimClosure(fn string) string {
	for {
		i := strings.LastIndex(fn, ".")
		if i < 0 {
			return fn
		}
		tail := fn[i+1:]
		for _, p := range []string{"func", "gowrap", "deferwrap"} {
			tail = strings.TrimPrefix(tail, p)
		}
		if strings.Trim(tail, "0123456789") != "" || i+1 == len(fn) {
			return fn
		}
		fn = fn[:i]
	}
}

// harnessDefinitionAccess: the innermost frame of a stack without repository frames reads a
// field of a stub definition (tokOf, a stub's method) - i.e. uses an object the registry
// handed over.
func harnessDefinitionAccess(fr []raceFrame) bool {
	for _, f := range fr {
		if strings.HasPrefix(f.fn, "runtime.") || strings.HasPrefix(f.fn, "internal/") || strings.HasPrefix(f.fn, "sort.") || strings.HasPrefix(f.fn, "slices.") {
			continue
		}
		return f.fn == "main.tokOf" || f.fn == "main.constTok" || strings.HasPrefix(f.fn, "main.(*stub")
	}
	return false
}

var anchorFiles = map[string]bool{
	"runtime/vm.go": true, "runtime/vm_temp.go": true, "runtime/autoload.go": true, "parser/class_path_manager.go": true,
}

// accessors of classMap / interfaceMap / funcMap in runtime/vm.go
var registryWriters = map[string]bool{"(*VM).AddClass": true, "(*VM).AddInterface": true, "(*VM).AddFunc": true}
var registryReaders = map[string]bool{
	"(*VM).findClassCaseInsensitive": true, "(*VM).GetClass": true, "(*VM).GetOrLoadClass": true, "(*VM).LoadPkg": true,
	"(*VM).GetInterface": true, "(*VM).GetOrLoadInterface": true, "(*VM).GetFunc": true, "(*VM).AllFuncs": true, "(*VM).AllClasses": true,
}
var depthFuncs = map[string]bool{"(*VM).EnterCall": true, "(*VM).LeaveCall": true}

// classifyRace: key of a report attributed to the property ("" = unattributed) and a
// signature for the evidence.
func classifyRace(rep [2][]raceFrame, repo string) (key, sig string) {
	type side struct {
		file, fn string
		ok       bool
	}
	var s [2]side
	for i := range rep {
		s[i].file, s[i].fn, s[i].ok = repoFrame(rep[i], repo)
	}
	names := []string{}
	for _, x := range s {
		if x.ok {
			names = append(names, x.file+":"+x.fn)
		} else {
			names = append(names, "(outside the repository)")
		}
	}
	sort.Strings(names)
	sig = strings.Join(names, " <-> ")
	isReg := func(f string) bool { return registryWriters[f] || registryReaders[f] }
	// a stub definition read without ordering after its creation: the registry published it
	// without synchronisation
	for i := range s {
		j := 1 - i
		if !harnessDefinitionAccess(rep[i]) && s[i].ok {
			continue
		}
		if !s[i].ok && !s[j].ok && (harnessDefinitionAccess(rep[i]) || harnessDefinitionAccess(rep[j])) {
			for _, st := range rep {
				for _, f := range st {
					if f.fn == "main.constTok" {
						return "race/unsafe-publication-of-constant-value", sig
					}
				}
			}
			return "registry-lock/race/unsafe-publication-of-definition", sig
		}
		if !s[i].ok && s[j].ok && s[j].file == "runtime/vm.go" && isReg(s[j].fn) {
			return "registry-lock/race/" + s[j].fn + "|(definition-object)", sig
		}
	}
	attributed := false
	for _, x := range s {
		if x.ok && anchorFiles[x.file] {
			attributed = true
		}
	}
	if !attributed {
		return "", sig
	}
	if s[0].ok && s[1].ok && s[0].file == "runtime/vm.go" && s[1].file == "runtime/vm.go" {
		a, b := s[0].fn, s[1].fn
		if a > b {
			a, b = b, a
		}
		switch {
		case isReg(a) && isReg(b) && (registryWriters[a] || registryWriters[b]):
			return "registry-lock/race/" + a + "|" + b, sig
		case depthFuncs[a] && depthFuncs[b]:
			return "calldepth/race/" + a + "|" + b, sig
		}
	}
	return "race/" + strings.ReplaceAll(sig, " <-> ", "|"), sig
}

func readRaceLogs(dir, prefix string) [][2][]raceFrame {
	var out [][2][]raceFrame
	logs, _ := filepath.Glob(filepath.Join(dir, prefix+".*"))
	sort.Strings(logs)
	for _, lf := range logs {
		b, err := os.ReadFile(lf)
		if err != nil {
			continue
		}
		out = append(out, parseRaceLog(string(b))...)
	}
	return out
}

// crashKey classifies a Go-level death of a child process: fatal error / panic text and the
// innermost repository frame of the first goroutine trace.
func crashKey(stderr, repo string) (key, what string, attributed bool) {
	msg := ""
	for _, line := range strings.Split(stderr, "\n") {
		if strings.HasPrefix(line, "fatal error: ") || strings.HasPrefix(line, "panic: ") {
			msg = strings.TrimSpace(line)
			break
		}
	}
	if msg == "" {
		return "", "", false
	}
	// innermost repository frame of the first trace after the message
	i := strings.Index(stderr, msg)
	rest := stderr[i:]
	lines := strings.Split(rest, "\n")
	file, fn := "", ""
	for j := 0; j+1 < len(lines); j++ {
		l := strings.TrimSpace(lines[j])
		if !strings.HasPrefix(l, origamiPkg) || strings.Contains(l, "/verifhook.") {
			continue
		}
		loc := strings.TrimSpace(lines[j+1])
		if k := strings.Index(loc, " "); k >= 0 {
			loc = loc[:k]
		}
		if k := strings.LastIndex(loc, ":"); k >= 0 {
			loc = loc[:k]
		}
		if strings.HasPrefix(loc, repo+"/") {
			loc = loc[len(repo)+1:]
		} else if k := strings.Index(loc, "/origami/"); k >= 0 {
			loc = loc[k+9:]
		}
		name := l[len(origamiPkg):]
		if k := strings.LastIndex(name, "("); k > 0 {
			name = name[:k]
		}
		if k := strings.Index(name, "."); k >= 0 {
			name = name[k+1:]
		}
		file, fn = loc, name
		break
	}
	slug := strings.ToLower(strings.TrimPrefix(strings.TrimPrefix(msg, "fatal error: "), "panic: "))
	if len(slug) > 60 {
		slug = slug[:60]
	}
	slug = strings.Map(func(r rune) rune {
		if (r >= 'a' && r <= 'z') || (r >= '0' && r <= '9') {
			return r
		}
		return '-'
	}, slug)
	what = msg + " in " + file + ":" + fn
	if file == "runtime/vm.go" && (registryWriters[fn] || registryReaders[fn]) && strings.Contains(msg, "concurrent map") {
		return "registry-lock/fatal/" + slug + "@" + fn, what, true
	}
	if anchorFiles[file] {
		return "crash/" + slug + "@" + file + ":" + fn, what, true
	}
	return "crash/" + slug + "@" + file + ":" + fn, what, false
}
