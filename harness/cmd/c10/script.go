package main

// Script-level workload: real `spawn` coroutines that autoload classes and interfaces
// from a generated namespace directory, register functions by requiring files, define()
// constants, ask class_exists/interface_exists/function_exists/defined and bind globals.
// Judged by process survival, attributed race reports, and the few outputs the statement
// fixes (exactly one accepted define of a shared name, own registrations visible).

import (
	"fmt"
	"math/rand"
	"os"
	"path/filepath"
	"regexp"
	"sort"
	"strings"
)

type scriptCase struct {
	ID      string
	Seed    int64
	G       int  // coroutines
	Classes int  // class files (each with its interface file)
	Acts    int  // actions per coroutine
	Share   bool // coroutines instantiate the same classes (else class k belongs to coroutine k mod G)
	Procs   int
	Yield   bool // VERIF_YIELD for the CLI's vm.add.checked hook
	Race    bool

	files  map[string]string
	expect [][]expectTok // per coroutine
	shared int           // number of shared constant names
}

type expectTok struct {
	tag  string
	want string // "" = not judged ("y"/"n" both possible), "D|E" = shared define
}

func (c *scriptCase) String() string {
	return fmt.Sprintf("script case %s: %d coroutines x %d actions over %d autoloadable classes (share=%v), GOMAXPROCS=%d, yield=%v, race-build=%v",
		c.ID, c.G, c.Acts, c.Classes, c.Share, c.Procs, c.Yield, c.Race)
}

const scriptNS = "vx10scriptspace"

func genScript(c *scriptCase) {
	r := rand.New(rand.NewSource(c.Seed))
	c.files = map[string]string{}
	// every third class lives in the sub-namespace <ns>\s<k> (directory s<k>/, discovered by the
	// class path manager on demand) and has no interface
	for k := 0; k < c.Classes; k++ {
		if k%3 == 2 {
			c.files[fmt.Sprintf("s%d/C%d.php", k, k)] = fmt.Sprintf("<?php\nnamespace %s\\s%d;\nclass C%d {\n  public function id() { return \"C%d\"; }\n}\n", scriptNS, k, k, k)
			continue
		}
		c.files[fmt.Sprintf("I%d.php", k)] = fmt.Sprintf("<?php\nnamespace %s;\ninterface I%d { function id(); }\n", scriptNS, k)
		var sb strings.Builder
		fmt.Fprintf(&sb, "<?php\nnamespace %s;\n", scriptNS)
		for i, n := 0, r.Intn(30); i < n; i++ {
			fmt.Fprintf(&sb, "// filler line %d\n", i)
		}
		fmt.Fprintf(&sb, "class C%d implements I%d {\n  public $v = %d;\n  public function id() { return \"C%d\"; }\n}\n", k, k, k, k)
		c.files[fmt.Sprintf("C%d.php", k)] = sb.String()
	}
	for g := 0; g < c.G; g++ {
		// the top-level variables make the file's load register global cells (RegisterGlobalContext)
		// for names that other coroutines bind with `global` at the same time
		c.files[fmt.Sprintf("lib%d.php", g)] = fmt.Sprintf("<?php\nnamespace %s;\n$vxh0 = %d;\n$vxh1 = %d;\nfunction libf%d() { return \"L%d\"; }\nfunction libg%d($x) { return $x + %d; }\n", scriptNS, g, g, g, g, g, g)
	}
	c.files["gi_inc.php"] = fmt.Sprintf("<?php\nnamespace %s;\n$vxgi = \"from-inc\";\nfunction giIncRead() { global $vxgi; return $vxgi; }\n", scriptNS)
	c.shared = 2 + r.Intn(4)
	c.expect = make([][]expectTok, c.G)

	var sb strings.Builder
	fmt.Fprintf(&sb, "<?php\n// %s\nnamespace %s;\n", c.String(), scriptNS)
	sb.WriteString("function tryDefine($name, $v) { try { define($name, $v); return \"D\"; } catch (\\Throwable $e) { return \"E\"; } }\n")
	sb.WriteString("function yn($b) { if ($b) { return \"y\"; } return \"n\"; }\n")
	for g := 0; g < c.G; g++ {
		var mine []int
		for k := 0; k < c.Classes; k++ {
			if c.Share || k%c.G == g {
				mine = append(mine, k)
			}
		}
		fmt.Fprintf(&sb, "function work%d($ch, $id) {\n  $r = \"\";\n", g)
		tok := func(tag, want, expr string) {
			c.expect[g] = append(c.expect[g], expectTok{tag, want})
			fmt.Fprintf(&sb, "  $r = $r . \"%s=\" . %s . \",\";\n", tag, expr)
		}
		required := false
		ownConst := 0
		definedShared := map[int]bool{}
		for a := 0; a < c.Acts; a++ {
			// the walk over the class pool advances with the action index, so that coroutines
			// meet at the same classes
			switch x := r.Intn(12); {
			case x < 3 && len(mine) > 0:
				k := mine[(a*len(mine)/c.Acts+r.Intn(2))%len(mine)]
				if k%3 == 2 {
					fmt.Fprintf(&sb, "  $o = new s%d\\C%d();\n", k, k)
				} else {
					fmt.Fprintf(&sb, "  $o = new C%d();\n", k)
				}
				tok(fmt.Sprintf("new%d", k), fmt.Sprintf("C%d", k), "$o->id()")
				// the class is registered now: a lookup through another-case spelling of its name
				// (class names are case-insensitive) finds it
				full := fmt.Sprintf("%s\\C%d", scriptNS, k)
				if k%3 == 2 {
					full = fmt.Sprintf("%s\\s%d\\C%d", scriptNS, k, k)
				}
				tok(fmt.Sprintf("cv%d", k), "y", fmt.Sprintf("yn(class_exists(\"%s\", false))", strings.ReplaceAll(caseVariant(full, r.Intn(1<<13)), "\\", "\\\\")))
			case x == 3:
				k := r.Intn(c.Classes)
				sub := ""
				if k%3 == 2 {
					sub = fmt.Sprintf("s%d\\\\", k)
				}
				tok(fmt.Sprintf("ce%d", k), "", fmt.Sprintf("yn(class_exists(\"%s\\\\%sC%d\", false))", scriptNS, sub, k))
				tok(fmt.Sprintf("cev%d", k), "", fmt.Sprintf("yn(class_exists(\"%s\\\\%sC%d\", false))", caseVariant(scriptNS, r.Intn(1<<13)), sub, k))
			case x == 4:
				k := r.Intn(c.Classes)
				tok(fmt.Sprintf("ie%d", k), "", fmt.Sprintf("yn(interface_exists(\"%s\\\\I%d\", false))", scriptNS, k))
			case x == 5:
				// a function of the main file: registered before any coroutine started
				// half of the time by its fully qualified "\\ns\\name" spelling (the lookup's fallback branch)
				bs := ""
				if r.Intn(2) == 0 {
					bs = "\\\\"
				}
				tok("fe", "y", fmt.Sprintf("yn(function_exists(\"%s%s\\\\work%d\"))", bs, scriptNS, r.Intn(c.G)))
				tok("sl", "3", "\\strlen(\"abc\")")
			case x == 6:
				if !required {
					fmt.Fprintf(&sb, "  require_once __DIR__ . \"/lib%d.php\";\n", g)
					required = true
				}
				tok("lf", fmt.Sprintf("L%d", g), fmt.Sprintf("libf%d()", g))
				tok("lfe", "y", fmt.Sprintf("yn(function_exists(\"%s\\\\libg%d\"))", scriptNS, g))
			case x == 7:
				o := r.Intn(c.G)
				tok(fmt.Sprintf("ofe%d", o), "", fmt.Sprintf("yn(function_exists(\"\\\\%s\\\\libf%d\"))", scriptNS, o))
			case x == 8 || x == 9:
				s := r.Intn(c.shared)
				if definedShared[s] {
					tok(fmt.Sprintf("dd%d", s), "y", fmt.Sprintf("yn(defined(\"VX10S_%d\"))", s))
				} else {
					definedShared[s] = true
					tok(fmt.Sprintf("ds%d", s), "D|E", fmt.Sprintf("tryDefine(\"VX10S_%d\", %d)", s, g+1))
					tok(fmt.Sprintf("dd%d", s), "y", fmt.Sprintf("yn(defined(\"VX10S_%d\"))", s))
				}
			case x == 10:
				ownConst++
				tok("do", "D", fmt.Sprintf("tryDefine(\"VX10O_%d_%d\", %d)", g, ownConst, ownConst))
				tok("dod", "y", fmt.Sprintf("yn(defined(\"VX10O_%d_%d\"))", g, ownConst))
			default:
				v := r.Intn(2)
				if r.Intn(2) == 0 {
					// bind a global that no file had at top level when the coroutines started
					fmt.Fprintf(&sb, "  global $vxh%d;\n", v)
					continue
				}
				fmt.Fprintf(&sb, "  global $vxg%d;\n", v)
				tok(fmt.Sprintf("g%d", v), fmt.Sprintf("%d", 11*(v+1)), fmt.Sprintf("$vxg%d", v))
			}
		}
		sb.WriteString("  $ch->send($id . \" \" . $r);\n}\n")
		fmt.Fprintf(&sb, "function start%d($ch, $id) { spawn(function() use ($ch, $id) { work%d($ch, $id); }); }\n", g, g)
	}
	// deterministic prologue (ordered by two channels): a coroutine binds `global $vxgi`
	// before the name exists anywhere, then a file with a top-level $vxgi is included, then the
	// coroutine writes through its binding. Every later `global $vxgi` must name that same
	// cell, i.e. read the coroutine's write.
	sb.WriteString("function giRead() { global $vxgi; return $vxgi; }\n")
	sb.WriteString("function giStart($go, $done) { spawn(function() use ($go, $done) { global $vxgi; $done->send(\"bound\"); $go->receive(); $vxgi = \"written-by-coroutine\"; $done->send(\"written\"); }); }\n")
	sb.WriteString("$giGo = new Channel();\n$giDone = new Channel();\ngiStart($giGo, $giDone);\n$giDone->receive();\ninclude __DIR__ . \"/gi_inc.php\";\n$giGo->send(1);\n$giDone->receive();\n")
	sb.WriteString("echo \"GI \", giRead(), \" \", giIncRead(), \"\\n\";\n")
	sb.WriteString("$vxg0 = 11;\n$vxg1 = 22;\n")
	fmt.Fprintf(&sb, "$ch = new Channel(%d);\n", c.G+1)
	for g := 0; g < c.G; g++ {
		fmt.Fprintf(&sb, "start%d($ch, \"%d\");\n", g, g)
	}
	for g := 0; g < c.G; g++ {
		sb.WriteString("echo \"RES \", $ch->receive(), \"\\n\";\n")
	}
	sb.WriteString("echo \"DONE\\n\";\n")
	c.files["main.php"] = sb.String()
}

func (c *scriptCase) write(dir string) error {
	if err := os.MkdirAll(dir, 0o755); err != nil {
		return err
	}
	for name, src := range c.files {
		_ = os.MkdirAll(filepath.Dir(filepath.Join(dir, name)), 0o755)
		if err := os.WriteFile(filepath.Join(dir, name), []byte(src), 0o644); err != nil {
			return err
		}
	}
	return nil
}

// replay: all files of the case in one text (the main script first).
func (c *scriptCase) replay() []byte {
	var sb strings.Builder
	names := make([]string, 0, len(c.files))
	for n := range c.files {
		if n != "main.php" {
			names = append(names, n)
		}
	}
	sort.Strings(names)
	sb.WriteString(c.files["main.php"])
	fmt.Fprintf(&sb, "\n// ---- the case needs the following files next to main.php (run: GOMAXPROCS=%d origami main.php) ----\n", c.Procs)
	for _, n := range names {
		fmt.Fprintf(&sb, "// ==== file %s ====\n", n)
		for _, l := range strings.Split(strings.TrimRight(c.files[n], "\n"), "\n") {
			sb.WriteString("// " + l + "\n")
		}
	}
	return []byte(sb.String())
}

var digits = regexp.MustCompile(`[0-9]+`)

// judgeScriptOutput compares the coroutines' reports with what the statement fixes.
// It returns anomalies (key, what) and whether the run completed.
func (c *scriptCase) judgeOutput(stdout string) (anoms [][2]string, complete bool) {
	res := map[int]string{}
	done := false
	for _, line := range strings.Split(stdout, "\n") {
		if line == "DONE" {
			done = true
		}
		if !strings.HasPrefix(line, "RES ") {
			continue
		}
		f := strings.SplitN(line, " ", 3)
		if len(f) != 3 {
			continue
		}
		var g int
		if _, err := fmt.Sscanf(f[1], "%d", &g); err == nil {
			res[g] = f[2]
		}
	}
	if !done || len(res) != c.G {
		return nil, false
	}
	seen := map[string]bool{}
	add := func(key, what string) {
		if !seen[key] {
			seen[key] = true
			anoms = append(anoms, [2]string{key, what})
		}
	}
	for _, line := range strings.Split(stdout, "\n") {
		if strings.HasPrefix(line, "GI ") && line != "GI written-by-coroutine written-by-coroutine" {
			add("script/global-identity/write-through-earlier-binding-lost", fmt.Sprintf("a coroutine bound `global $vxgi` before the name existed, a file with a top-level $vxgi was included, then the coroutine assigned \"written-by-coroutine\" through its binding; later `global $vxgi` bindings (function of the main script, function of the included file) read %q: they name another cell than the one handed out first", strings.TrimPrefix(line, "GI ")))
		}
	}
	if !strings.Contains(stdout, "GI ") {
		add("script/global-identity/missing", "the global-identity prologue printed nothing")
	}
	accepted := map[string]int{}
	attempted := map[string]int{}
	for g := 0; g < c.G; g++ {
		toks := strings.Split(strings.TrimSuffix(res[g], ","), ",")
		if len(toks) != len(c.expect[g]) {
			add("script/malformed-report", fmt.Sprintf("coroutine %d reported %d results instead of %d: %.200s", g, len(toks), len(c.expect[g]), res[g]))
			continue
		}
		for i, t := range toks {
			ex := c.expect[g][i]
			tag, val, _ := strings.Cut(t, "=")
			if tag != ex.tag {
				add("script/malformed-report", fmt.Sprintf("coroutine %d result %d is %q, expected tag %s", g, i, t, ex.tag))
				break
			}
			kind := digits.ReplaceAllString(tag, "")
			switch ex.want {
			case "":
			case "D|E":
				attempted[tag]++
				if val == "D" {
					accepted[tag]++
				} else if val != "E" {
					add("script/"+kind+"/unexpected-value", fmt.Sprintf("coroutine %d: %s gave %q", g, tag, val))
				}
			default:
				if val != ex.want {
					what := map[string]string{
						"new": "a method of the freshly instantiated autoloaded class returned", "cv": "class_exists(<other-case spelling of the class this coroutine just instantiated>, false) returned", "fe": "function_exists of a function of the main script returned", "sl": "the fully qualified call \\strlen(\"abc\") returned",
						"lf": "a function registered by this coroutine's own require_once returned", "lfe": "function_exists of a function registered by this coroutine's own require_once returned",
						"dd": "defined() after this coroutine's own define() attempt of a shared name returned", "do": "define() of a name only this coroutine uses returned",
						"dod": "defined() of the constant this coroutine just defined returned", "g": "a global bound with `global` read",
					}[kind]
					add("script/"+kind+"/wrong-value", fmt.Sprintf("coroutine %d: %s %q, expected %q (%s)", g, what, val, ex.want, tag))
				}
			}
		}
	}
	for tag, n := range attempted {
		if accepted[tag] != 1 {
			add(fmt.Sprintf("script/shared-define/accepted=%d", min(accepted[tag], 2)),
				fmt.Sprintf("%d coroutines called define() of the shared constant %s, %d of the calls were accepted (exactly one must be)", n, strings.Replace(tag, "ds", "VX10S_", 1), accepted[tag]))
		}
	}
	return anoms, true
}

// scriptErrorKey classifies a script-level fatal error of a run that did not complete.
// Only failures to resolve or register a name are this property's business.
func scriptErrorKey(out string) (key string, relevant bool) {
	msg := ""
	for _, line := range strings.Split(out, "\n") {
		if i := strings.Index(line, "Fatal error: "); i >= 0 {
			msg = line[i+len("Fatal error: "):]
			break
		}
	}
	if msg == "" {
		return "", false
	}
	if i := strings.Index(msg, " in /"); i >= 0 {
		msg = msg[:i]
	}
	switch {
	case strings.Contains(msg, "中未找到类"):
		return "concurrent-same-file/class-not-found-while-loading/script", true
	case strings.Contains(msg, "已存在同名"), strings.Contains(msg, "找不到"), strings.Contains(msg, "不存在或无法加载"),
		strings.Contains(msg, "未找到函数"), strings.Contains(msg, "not found"), strings.Contains(msg, "已经定义"):
		norm := digits.ReplaceAllString(msg, "N")
		norm = regexp.MustCompile(`file://\S+`).ReplaceAllString(norm, "FILE")
		norm = strings.Join(strings.Fields(norm), "_")
		if len(norm) > 80 {
			norm = norm[:80]
		}
		return "script/fatal/" + norm, true
	}
	return msg, false
}
