package main

// Judging a recorded registry history: time-free checks that hold for any add-only
// registry (both modes), and the sequential-witness check with porcupine (hist mode),
// partitioned by (table, name).

import (
	"fmt"
	"sort"
	"time"

	"github.com/anishathalye/porcupine"
)

type anomaly struct {
	key, what string
	table     int
	name      int
}

// family: the class/interface and function tables are the ones whose accessors rely on the
// lock discipline of Add*/Get*/LoadPkg; constants and globals have their own accessors.
func family(table int) string {
	if table == tabType || table == tabFunc {
		return "registry-lock"
	}
	return "registry"
}

func tableSlug(table int) string {
	return [...]string{"class-interface", "func", "const", "global"}[table]
}

func displayName(table, n int) string {
	switch table {
	case tabType:
		return typeName(n)
	case tabFunc:
		return funcName(n)
	case tabConst:
		return constName(n)
	}
	return globalName(n)
}

// timeFree applies the checks that need no timestamps.
func timeFree(res *workerResult) []anomaly {
	var out []anomaly
	seen := map[string]bool{}
	add := func(table, name int, shape, what string) {
		key := family(table) + "/" + tableSlug(table) + "/" + shape
		if seen[key] {
			return
		}
		seen[key] = true
		out = append(out, anomaly{key: key, what: fmt.Sprintf("%s %s: %s", tabNames[table], displayName(table, name), what), table: table, name: name})
	}
	type pk struct{ table, name int }
	okAdds := map[pk][]rec{}
	allAdds := map[pk][]rec{}
	offered := map[pk]map[int]bool{} // token -> accepted?
	for _, rs := range res.Recs {
		for _, r := range rs {
			if !isAdd(r.Kind) {
				continue
			}
			k := pk{opTable(r.Kind), r.Name}
			allAdds[k] = append(allAdds[k], r)
			if offered[k] == nil {
				offered[k] = map[int]bool{}
			}
			offered[k][r.In] = r.Out == 1
			if r.Out == 1 {
				okAdds[k] = append(okAdds[k], r)
			}
		}
	}
	keys := make([]pk, 0, len(allAdds))
	for k := range allAdds {
		keys = append(keys, k)
	}
	sort.Slice(keys, func(i, j int) bool {
		if keys[i].table != keys[j].table {
			return keys[i].table < keys[j].table
		}
		return keys[i].name < keys[j].name
	})
	for _, k := range keys {
		if n := len(okAdds[k]); n > 1 {
			a, b := okAdds[k][0], okAdds[k][1]
			add(k.table, k.name, "double-registration", fmt.Sprintf("%d registrations of this one name reported success (e.g. %s by goroutine %d and %s by goroutine %d); all but one must be rejected",
				n, opNames[a.Kind], a.G, opNames[b.Kind], b.G))
		} else if n == 0 {
			add(k.table, k.name, "all-registrations-rejected", fmt.Sprintf("all %d registrations of the name were rejected, none was accepted", len(allAdds[k])))
		}
	}
	// what a lookup may legitimately return, given only the multiset of calls
	checkLookup := func(r rec, who string) {
		t := opTable(r.Kind)
		k := pk{t, r.Name}
		switch {
		case r.Out == 0:
			return
		case r.Out < 0:
			add(t, r.Name, "unknown-definition", fmt.Sprintf("%s (%s) returned a definition that is not one of the registered objects", opNames[r.Kind], who))
			return
		}
		acc, off := offered[k][r.Out]
		if !off {
			add(t, r.Name, "foreign-definition", fmt.Sprintf("%s (%s) returned definition #%d, which nobody registered under this name", opNames[r.Kind], who, r.Out))
		} else if !acc {
			add(t, r.Name, "rejected-definition-visible", fmt.Sprintf("%s (%s) returned definition #%d whose registration was reported as rejected", opNames[r.Kind], who, r.Out))
		}
	}
	// which registration kind a lookup kind can see
	sees := func(lookup, addKind int) bool {
		switch plainKind(lookup) {
		case opGetClass, opGetOrLoadClass:
			return addKind == opAddClass
		case opGetInterface, opGetOrLoadInterface:
			return addKind == opAddInterface
		case opLoadPkg:
			return addKind == opAddClass || addKind == opAddInterface
		case opGetFunc, opGetFuncBS:
			return addKind == opAddFunc
		case opGetConstant, opGetConstantBS:
			return addKind == opSetConstant
		}
		return false
	}
	globalID := map[int]int{} // name -> id
	idName := map[int]int{}
	for g, rs := range res.Recs {
		own := map[pk]rec{}           // this goroutine's accepted registration
		last := map[[3]int]int{}      // (table,name,lookup class) -> token seen earlier
		cls := func(kind int) int { // lookups that see the same registrations share a class
			switch plainKind(kind) {
			case opGetClass, opGetOrLoadClass:
				return 1
			case opGetInterface, opGetOrLoadInterface:
				return 2
			case opLoadPkg:
				return 3
			}
			return 0
		}
		for _, r := range rs {
			t := opTable(r.Kind)
			k := pk{t, r.Name}
			switch {
			case r.Kind == opAllClasses || r.Kind == opAllFuncs || r.Kind == opLoadGlobalsFile:
			case r.Kind == opRegisterGlobal:
				if r.In <= 0 {
					add(t, r.Name, "nil-cell", "a fresh context of the VM has no cell for its variable")
				}
			case isAdd(r.Kind):
				if r.Out == 1 {
					own[k] = r
				}
			case r.Kind == opEnsureGlobal:
				if r.Out <= 0 {
					add(t, r.Name, "nil-cell", "EnsureGlobalZVal returned nil")
					continue
				}
				if id, ok := globalID[r.Name]; ok && id != r.Out {
					add(t, r.Name, "two-cells", fmt.Sprintf("two EnsureGlobalZVal calls for this name returned different cells (#%d and #%d)", id, r.Out))
				} else if !ok {
					globalID[r.Name] = r.Out
					if other, ok := idName[r.Out]; ok && other != r.Name {
						add(t, r.Name, "shared-cell", fmt.Sprintf("EnsureGlobalZVal returned for this name the cell of %s", globalName(other)))
					}
					idName[r.Out] = r.Name
				}
			default:
				checkLookup(r, fmt.Sprintf("goroutine %d", g))
				if o, ok := own[k]; ok && sees(r.Kind, o.Kind) && r.Out != o.In && len(okAdds[k]) == 1 {
					add(t, r.Name, "own-registration-invisible", fmt.Sprintf("goroutine %d's %s was accepted (definition #%d), its own later %s returned %s",
						g, opNames[o.Kind], o.In, opNames[r.Kind], tokText(r.Out)))
				}
				lk := [3]int{t, r.Name, cls(r.Kind)}
				if prev, ok := last[lk]; ok && prev > 0 && r.Out != prev && len(okAdds[k]) == 1 {
					add(t, r.Name, "lookup-regressed", fmt.Sprintf("goroutine %d first saw definition #%d, a later %s returned %s (nothing removes or replaces a registration)",
						g, prev, opNames[r.Kind], tokText(r.Out)))
				}
				if r.Out > 0 {
					last[lk] = r.Out
				}
			}
		}
	}
	// final state read after all goroutines finished
	for _, r := range res.Final {
		t := opTable(r.Kind)
		k := pk{t, r.Name}
		if r.Kind == opEnsureGlobal {
			if id, ok := globalID[r.Name]; ok && id != r.Out {
				add(t, r.Name, "two-cells", fmt.Sprintf("after the run EnsureGlobalZVal returns another cell (%d) than during the run (#%d)", r.Out, id))
			}
			continue
		}
		checkLookup(r, "after the run")
		if len(okAdds[k]) != 1 {
			continue
		}
		a := okAdds[k][0]
		want := 0
		if sees(r.Kind, a.Kind) {
			want = a.In
		}
		if r.Out != want {
			add(t, r.Name, "final-state-mismatch", fmt.Sprintf("the accepted registration was %s of definition #%d by goroutine %d; after the run %s returns %s",
				opNames[a.Kind], a.In, a.G, opNames[r.Kind], tokText(r.Out)))
		}
	}
	return out
}

func tokText(t int) string {
	switch {
	case t == 0:
		return "nothing"
	case t < 0:
		return "an unknown definition"
	}
	return fmt.Sprintf("definition #%d", t)
}

// ---- porcupine ------------------------------------------------------------------------

type regIn struct {
	kind int
	tok  int
}

type typeState struct {
	kind int8 // 0 absent, 1 class, 2 interface
	tok  int
}

var typeModel = porcupine.Model{
	Init: func() interface{} { return typeState{} },
	Step: func(st, in, out interface{}) (bool, interface{}) {
		s, i, o := st.(typeState), in.(regIn), out.(int)
		switch plainKind(i.kind) {
		case opAddClass, opAddInterface:
			if s.kind == 0 {
				k := int8(1)
				if i.kind == opAddInterface {
					k = 2
				}
				return o == 1, typeState{k, i.tok}
			}
			return o == 0, s
		case opGetClass, opGetOrLoadClass:
			if s.kind == 1 {
				return o == s.tok, s
			}
			return o == 0, s
		case opGetInterface, opGetOrLoadInterface:
			if s.kind == 2 {
				return o == s.tok, s
			}
			return o == 0, s
		case opLoadPkg:
			if s.kind != 0 {
				return o == s.tok, s
			}
			return o == 0, s
		}
		return false, s
	},
}

// one-kind tables (functions, constants): state = token of the registered definition or 0
var plainModel = porcupine.Model{
	Init: func() interface{} { return 0 },
	Step: func(st, in, out interface{}) (bool, interface{}) {
		s, i, o := st.(int), in.(regIn), out.(int)
		if isAdd(i.kind) {
			if s == 0 {
				return o == 1, i.tok
			}
			return o == 0, s
		}
		return o == s, s
	},
}

// globals: the first EnsureGlobalZVal creates the cell, or the first loaded file whose top
// level has the variable registers its own; once a name has a cell every later
// EnsureGlobalZVal returns that cell. State: 0 absent, -1 a cell the harness cannot see
// (registered by LoadAndRun; fixed by the next EnsureGlobalZVal), else the cell id.
var globalModel = porcupine.Model{
	Init: func() interface{} { return 0 },
	Step: func(st, in, out interface{}) (bool, interface{}) {
		s, i, o := st.(int), in.(regIn), out.(int)
		switch i.kind {
		case opRegisterGlobal:
			if s == 0 {
				return true, i.tok
			}
			return true, s
		case opLoadGlobalsFile:
			if s == 0 {
				return true, -1
			}
			return true, s
		}
		if s <= 0 {
			return o > 0, o
		}
		return o == s, s
	},
}

type histStats struct {
	partitions, ok, illegal, unknown int
	ops                              int
}

// sequentialWitness checks every (table, name) partition of a hist-mode result.
func sequentialWitness(res *workerResult, timeout time.Duration) ([]anomaly, histStats, []string) {
	type pk struct{ table, name int }
	parts := map[pk][]porcupine.Operation{}
	var st histStats
	for g, rs := range res.Recs {
		for _, r := range rs {
			if r.Kind == opAllClasses || r.Kind == opAllFuncs {
				continue
			}
			k := pk{opTable(r.Kind), r.Name}
			parts[k] = append(parts[k], porcupine.Operation{ClientId: g, Input: regIn{r.Kind, r.In}, Call: r.Call, Output: r.Out, Return: r.Ret})
			st.ops++
		}
	}
	keys := make([]pk, 0, len(parts))
	for k := range parts {
		keys = append(keys, k)
	}
	sort.Slice(keys, func(i, j int) bool {
		if keys[i].table != keys[j].table {
			return keys[i].table < keys[j].table
		}
		return keys[i].name < keys[j].name
	})
	var out []anomaly
	var inconclusive []string
	seen := map[string]bool{}
	for _, k := range keys {
		model := plainModel
		switch k.table {
		case tabType:
			model = typeModel
		case tabGlobal:
			model = globalModel
		}
		st.partitions++
		switch porcupine.CheckOperationsTimeout(model, parts[k], timeout) {
		case porcupine.Ok:
			st.ok++
		case porcupine.Unknown:
			st.unknown++
			inconclusive = append(inconclusive, fmt.Sprintf("porcupine timed out on %s %s (%d operations)", tabNames[k.table], displayName(k.table, k.name), len(parts[k])))
		case porcupine.Illegal:
			st.illegal++
			key := family(k.table) + "/" + tableSlug(k.table) + "/no-sequential-witness"
			if !seen[key] {
				seen[key] = true
				out = append(out, anomaly{key: key, table: k.table, name: k.name,
					what: fmt.Sprintf("%s %s: the %d recorded calls with their call/return order admit no sequential order that a register-once table could produce: %s",
						tabNames[k.table], displayName(k.table, k.name), len(parts[k]), explain(parts[k]))})
			}
		}
	}
	return out, st, inconclusive
}

// explain names the most telling pair of calls of a partition without a sequential witness.
func explain(ops []porcupine.Operation) string {
	if len(ops) > 0 && opTable(ops[0].Input.(regIn).kind) == tabGlobal {
		var first *porcupine.Operation
		for k := range ops {
			o := ops[k]
			if o.Input.(regIn).kind != opEnsureGlobal {
				continue
			}
			if first == nil {
				first = &ops[k]
			} else if o.Output.(int) != first.Output.(int) {
				return fmt.Sprintf("EnsureGlobalZVal returned cell #%d to goroutine %d and cell #%d to goroutine %d", first.Output.(int), first.ClientId, o.Output.(int), o.ClientId)
			}
		}
		return "an EnsureGlobalZVal did not return the cell that RegisterGlobalContext had registered for the name before"
	}
	var firstOKRet int64 = -1
	var firstOK porcupine.Operation
	nOK := 0
	for _, o := range ops {
		in := o.Input.(regIn)
		if isAdd(in.kind) && o.Output.(int) == 1 {
			nOK++
			if firstOKRet < 0 || o.Return < firstOKRet {
				firstOKRet, firstOK = o.Return, o
			}
		}
	}
	if nOK > 1 {
		return fmt.Sprintf("%d registrations were accepted", nOK)
	}
	for _, o := range ops {
		in := o.Input.(regIn)
		out := o.Output.(int)
		if isAdd(in.kind) {
			if out == 0 && (nOK == 0 || o.Return < firstOK.Call) {
				return fmt.Sprintf("%s by goroutine %d was rejected (calls %d..%d) before any accepted registration had begun", opNames[in.kind], o.ClientId, o.Call, o.Return)
			}
			if out == 1 && o.Call > firstOKRet && o.Return != firstOKRet {
				return "a second registration was accepted"
			}
			continue
		}
		if in.kind == opEnsureGlobal {
			continue
		}
		if nOK == 1 {
			fin := firstOK.Input.(regIn)
			if out == 0 && o.Call > firstOKRet {
				return fmt.Sprintf("%s by goroutine %d began (call %d) after the accepted %s of goroutine %d had returned (%d) and found nothing", opNames[in.kind], o.ClientId, o.Call, opNames[fin.kind], firstOK.ClientId, firstOKRet)
			}
			if out == fin.tok && o.Return < firstOK.Call {
				return fmt.Sprintf("%s by goroutine %d returned definition #%d (return %d) before its registration began (call %d)", opNames[in.kind], o.ClientId, out, o.Return, firstOK.Call)
			}
		}
	}
	return "see the replay file for the calls"
}
