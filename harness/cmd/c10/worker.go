package main

// The in-process worker: drives one *runtime.VM from G goroutines and writes what every
// call returned to a result file. It is run as a child process of the driver (normal and
// -race build), one case per process, so that a fatal error ("concurrent map writes"), a
// panic or a race report is attributed to exactly that case.

import (
	"encoding/json"
	"fmt"
	"math/rand"
	"os"
	"os/signal"
	"path/filepath"
	"runtime"
	"sort"
	"strings"
	"sync"
	"sync/atomic"
	"syscall"
	"time"

	"github.com/php-any/origami/data"
	"github.com/php-any/origami/parser"
	oruntime "github.com/php-any/origami/runtime"
	"github.com/php-any/origami/verifhook"

	"verif/ori"
)

// caseSpec is the complete description of one Go-level case; the operation lists are a
// pure function of it (genPrograms).
type caseSpec struct {
	ID    string `json:"id"`
	Mode  string `json:"mode"`  // hist | stress | calldepth | autoload
	Seed  int64  `json:"seed"`  // generator seed of this case
	G     int    `json:"g"`     // goroutines
	Ops   int    `json:"ops"`   // operations in total (all goroutines)
	Names int    `json:"names"` // names per table
	Procs int    `json:"procs"` // GOMAXPROCS
	Std   bool   `json:"std"`   // VM with the standard libraries loaded (large tables) or bare
	Yield int    `json:"yield"` // vm.add.checked handler: 0 none, 1 always Gosched, 2 seeded none/Gosched/sleep
	Temp  bool   `json:"temp"`  // odd goroutines look up through their own TempVM
	Share bool   `json:"share"` // autoload mode: goroutines load the same classes (else disjoint sets)
	Race  bool   `json:"race"`  // run by the -race build (driver side only)
}

// operation kinds
const (
	opAddClass = iota
	opAddInterface
	opAddFunc
	opGetClass
	opGetInterface
	opGetFunc
	opSetConstant
	opGetConstant
	opEnsureGlobal
	opGetOrLoadClass
	opGetOrLoadInterface
	opLoadPkg
	opGetFuncBS     // GetFunc("\\name")
	opGetConstantBS // GetConstant("\\name")
	// the "\\name" forms of the loading lookups (each has a strip/fallback branch); base VM only:
	// TempVM does not normalise a leading backslash
	opGetOrLoadClassBS
	opGetOrLoadInterfaceBS
	opLoadPkgBS
	// registrations of a global variable's cell by a loaded file's top-level scope
	opRegisterGlobal  // vm.RegisterGlobalContext(vars, ctx) with a context of the harness (cell known)
	opLoadGlobalsFile // vm.LoadAndRun(file) of a generated file whose top level assigns the variable
	// class lookups through a spelling that differs in case from the registered name (the VM
	// folds case for classes only); progOp.Var selects one of 2^13 spellings
	opGetClassCV
	opGetOrLoadClassCV
	opAllClasses    // AllClasses(): a reader of the whole table (not part of the histories)
	opAllFuncs
	nOpKinds
)

var opNames = [...]string{"AddClass", "AddInterface", "AddFunc", "GetClass", "GetInterface", "GetFunc", "SetConstant", "GetConstant",
	"EnsureGlobalZVal", "GetOrLoadClass", "GetOrLoadInterface", "LoadPkg", "GetFunc\\", "GetConstant\\",
	"GetOrLoadClass\\", "GetOrLoadInterface\\", "LoadPkg\\", "RegisterGlobalContext", "LoadAndRun(file with top-level variable)",
	"GetClass(other-case spelling)", "GetOrLoadClass(other-case spelling)", "AllClasses", "AllFuncs"}

// plainKind maps the "\\name" form of a lookup to the plain form (same sequential meaning).
func plainKind(kind int) int {
	switch kind {
	case opGetFuncBS:
		return opGetFunc
	case opGetConstantBS:
		return opGetConstant
	case opGetOrLoadClassBS:
		return opGetOrLoadClass
	case opGetOrLoadInterfaceBS:
		return opGetOrLoadInterface
	case opLoadPkgBS:
		return opLoadPkg
	case opGetClassCV:
		return opGetClass
	case opGetOrLoadClassCV:
		return opGetOrLoadClass
	}
	return kind
}

// tables (partitions of the history): class and interface names share one table because
// AddClass and AddInterface each test the other's map.
const (
	tabType = iota
	tabFunc
	tabConst
	tabGlobal
	nTabs
)

var tabNames = [...]string{"class+interface", "func", "const", "global"}

func opTable(kind int) int {
	switch kind {
	case opAddClass, opAddInterface, opGetClass, opGetInterface, opGetOrLoadClass, opGetOrLoadInterface, opLoadPkg, opAllClasses,
		opGetOrLoadClassBS, opGetOrLoadInterfaceBS, opLoadPkgBS, opGetClassCV, opGetOrLoadClassCV:
		return tabType
	case opAddFunc, opGetFunc, opGetFuncBS, opAllFuncs:
		return tabFunc
	case opSetConstant, opGetConstant, opGetConstantBS:
		return tabConst
	}
	return tabGlobal
}

func isAdd(kind int) bool {
	return kind == opAddClass || kind == opAddInterface || kind == opAddFunc || kind == opSetConstant
}

type progOp struct {
	Kind uint8
	Name uint16
	Var  uint16 // spelling selector of the other-case lookups
}

// genPrograms: the per-goroutine operation lists. All goroutines sweep the name pool in the
// same direction at the same pace (with jitter), so that registrations of one name and the
// lookups around them collide in time.
func genPrograms(c caseSpec) [][]progOp {
	r := rand.New(rand.NewSource(c.Seed))
	per := c.Ops / c.G
	if per < 1 {
		per = 1
	}
	progs := make([][]progOp, c.G)
	// weights: registrations are a minority, lookups dominate
	kinds := []int{opAddClass, opAddClass, opAddInterface, opAddFunc, opAddFunc, opSetConstant, opSetConstant,
		opGetClass, opGetClass, opGetClass, opGetInterface, opGetInterface, opGetFunc, opGetFunc, opGetFunc,
		opGetConstant, opGetConstant, opEnsureGlobal, opEnsureGlobal, opGetOrLoadClass, opGetOrLoadInterface, opLoadPkg,
		opGetFuncBS, opGetFuncBS, opGetConstantBS, opGetOrLoadClassBS, opGetOrLoadInterfaceBS, opLoadPkgBS,
		opRegisterGlobal, opLoadGlobalsFile, opGetClassCV, opGetClassCV, opGetClassCV, opGetOrLoadClassCV}
	for g := 0; g < c.G; g++ {
		p := make([]progOp, 0, per)
		for i := 0; i < per; i++ {
			k := kinds[r.Intn(len(kinds))]
			if c.Mode == "stress" && r.Intn(60) == 0 {
				k = opAllClasses + r.Intn(2)
			}
			centre := i * c.Names / per
			n := centre + r.Intn(5) - 2
			if r.Intn(6) == 0 {
				n = r.Intn(c.Names) // anywhere: old names (must hit) and future names (may miss)
			}
			if n < 0 {
				n = 0
			}
			if n >= c.Names {
				n = c.Names - 1
			}
			p = append(p, progOp{uint8(k), uint16(n), uint16(r.Intn(1 << 13))})
		}
		progs[g] = p
	}
	return progs
}

// rec is one executed call. Out: for registrations 1 = accepted, 0 = rejected; for lookups
// the token of the definition returned (0 = not found, -1 = a definition nobody registered);
// for EnsureGlobalZVal the id of the cell. In: the token of the definition a registration
// offers. Call/Ret: sequence numbers (hist mode only).
type rec struct {
	G    int   `json:"g"`
	Kind int   `json:"k"`
	Name int   `json:"n"`
	In   int   `json:"i"`
	Out  int   `json:"o"`
	Call int64 `json:"c"`
	Ret  int64 `json:"r"`
}

type workerResult struct {
	Spec    caseSpec `json:"spec"`
	Recs    [][]rec  `json:"recs,omitempty"` // per goroutine, program order
	Final   []rec    `json:"final,omitempty"`
	Notes   []string `json:"notes,omitempty"`   // violations decided inside the worker: "key :: text"
	Yields  int64    `json:"yields"`            // vm.add.checked hook hits
	Overlap int64    `json:"overlap,omitempty"` // calls that began while another call was in flight
	Depth   int      `json:"depth,omitempty"`   // calldepth mode: depth reported after all pairs
	Loaded  int      `json:"loaded,omitempty"`
}

// ---- stub definitions -----------------------------------------------------------------

type stubClass struct {
	name string
	tok  int
}

func (s *stubClass) GetValue(ctx data.Context) (data.GetValue, data.Control) { return nil, nil }
func (s *stubClass) GetFrom() data.From                                     { return nil }
func (s *stubClass) GetName() string                                        { return s.name }
func (s *stubClass) GetExtend() *string                                     { return nil }
func (s *stubClass) GetImplements() []string                                { return nil }
func (s *stubClass) GetProperty(name string) (data.Property, bool)          { return nil, false }
func (s *stubClass) GetPropertyList() []data.Property                       { return nil }
func (s *stubClass) GetMethod(name string) (data.Method, bool)              { return nil, false }
func (s *stubClass) GetMethods() []data.Method                              { return nil }
func (s *stubClass) GetConstruct() data.Method                              { return nil }

type stubIface struct {
	name string
	tok  int
}

func (s *stubIface) GetValue(ctx data.Context) (data.GetValue, data.Control) { return nil, nil }
func (s *stubIface) GetFrom() data.From                                     { return nil }
func (s *stubIface) GetName() string                                        { return s.name }
func (s *stubIface) GetExtends() []string                                   { return nil }
func (s *stubIface) GetMethod(name string) (data.Method, bool)              { return nil, false }
func (s *stubIface) GetMethods() []data.Method                              { return nil }

type stubFunc struct {
	name string
	tok  int
}

func (s *stubFunc) Call(ctx data.Context) (data.GetValue, data.Control) { return nil, nil }
func (s *stubFunc) GetName() string                                     { return s.name }
func (s *stubFunc) GetParams() []data.GetValue                          { return nil }
func (s *stubFunc) GetVariables() []data.Variable                       { return nil }

func tokOf(v any) int {
	switch s := v.(type) {
	case nil:
		return 0
	case *stubClass:
		if s == nil {
			return 0
		}
		return s.tok
	case *stubIface:
		if s == nil {
			return 0
		}
		return s.tok
	case *stubFunc:
		if s == nil {
			return 0
		}
		return s.tok
	}
	return -1
}

// name spelling: distinct under case folding, distinct between tables, not used by the
// standard libraries.
func typeName(i int) string   { return fmt.Sprintf("Vx10tKlassName%d", i) }

// caseVariant: the name with the case of its letters flipped as selected by mask; never the
// name itself.
func caseVariant(name string, mask int) string {
	b := []byte(name)
	flip := func(i int) {
		switch c := b[i]; {
		case c >= 'a' && c <= 'z':
			b[i] = c - 32
		case c >= 'A' && c <= 'Z':
			b[i] = c + 32
		}
	}
	bit, first := 0, -1
	for i, c := range b {
		if (c >= 'a' && c <= 'z') || (c >= 'A' && c <= 'Z') {
			if first < 0 {
				first = i
			}
			if mask>>(bit%13)&1 == 1 {
				flip(i)
			}
			bit++
		}
	}
	if string(b) == name && first >= 0 {
		flip(first)
	}
	return string(b)
}
func funcName(i int) string   { return fmt.Sprintf("vx10f%d", i) }
func constName(i int) string  { return fmt.Sprintf("VX10K%d", i) }
func globalName(i int) string { return fmt.Sprintf("vx10g%d", i) }

// lookups is what a goroutine uses for the read side: the base VM or its own TempVM.
type lookups interface {
	GetClass(string) (data.ClassStmt, bool)
	GetInterface(string) (data.InterfaceStmt, bool)
	GetFunc(string) (data.FuncStmt, bool)
	GetOrLoadClass(string) (data.ClassStmt, data.Control)
	GetOrLoadInterface(string) (data.InterfaceStmt, data.Control)
	LoadPkg(string) (data.GetValue, data.Control)
	GetConstant(string) (data.Value, bool)
	SetConstant(string, data.Value) data.Control
	EnsureGlobalZVal(string) *data.ZVal
}

func newVM(std bool) *oruntime.VM {
	if std {
		vm, _ := ori.NewVM()
		return vm
	}
	return oruntime.NewVM(parser.NewParser()).(*oruntime.VM)
}

func installYield(c caseSpec, hits *atomic.Int64) {
	if c.Mode == "stress" {
		// no harness-side synchronisation between the goroutines in stress mode: an atomic
		// counter here would order the registrations for the race detector
		if c.Yield != 0 {
			verifhook.SetYield(func(string) { runtime.Gosched() })
		} else {
			verifhook.SetYield(nil)
		}
		return
	}
	switch c.Yield {
	case 1:
		verifhook.SetYield(func(string) { hits.Add(1); runtime.Gosched() })
	case 2:
		var mu sync.Mutex
		rng := rand.New(rand.NewSource(c.Seed ^ 0x5eed))
		verifhook.SetYield(func(string) {
			hits.Add(1)
			mu.Lock()
			x := rng.Intn(100)
			mu.Unlock()
			switch {
			case x < 30:
			case x < 70:
				runtime.Gosched()
			default:
				time.Sleep(time.Duration(x-60) * time.Microsecond)
			}
		})
	default:
		verifhook.SetYield(func(string) { hits.Add(1) })
	}
}

func workerMain(specPath, outPath string) {
	b, err := os.ReadFile(specPath)
	if err != nil {
		fmt.Fprintln(os.Stderr, "worker: read spec:", err)
		os.Exit(3)
	}
	var c caseSpec
	// a bare spec, or a replay file ({"spec": {...}, ...})
	var wrapped struct {
		Spec *caseSpec `json:"spec"`
	}
	if err := json.Unmarshal(b, &wrapped); err == nil && wrapped.Spec != nil && wrapped.Spec.Mode != "" {
		c = *wrapped.Spec
	} else if err := json.Unmarshal(b, &c); err != nil {
		fmt.Fprintln(os.Stderr, "worker: spec:", err)
		os.Exit(3)
	}
	if c.Procs > 0 {
		runtime.GOMAXPROCS(c.Procs)
	}
	installStackDumper(outPath + ".stacks")
	// script output of autoloaded files (none expected) must not reach the result channel
	data.WriteOutput = func(string) {}
	var res workerResult
	switch c.Mode {
	case "hist", "stress":
		res = runRegistry(c, filepath.Dir(outPath))
	case "calldepth":
		res = runCallDepth(c)
	case "autoload":
		res = runAutoload(c, filepath.Dir(outPath))
	default:
		fmt.Fprintln(os.Stderr, "worker: unknown mode", c.Mode)
		os.Exit(3)
	}
	res.Spec = c
	out, _ := json.Marshal(res)
	if err := os.WriteFile(outPath+".tmp", out, 0o644); err != nil {
		fmt.Fprintln(os.Stderr, "worker: write:", err)
		os.Exit(3)
	}
	_ = os.Rename(outPath+".tmp", outPath)
	os.Exit(0)
}

// installStackDumper: on SIGUSR1 the worker writes the stacks of all goroutines (a
// stop-the-world snapshot) to path and carries on. The driver asks for it when the worker
// has stopped consuming CPU, and decides from the snapshot whether every goroutine is
// parked on a registry lock (proc.go).
func installStackDumper(path string) {
	ch := make(chan os.Signal, 4)
	signal.Notify(ch, syscall.SIGUSR1)
	_ = os.WriteFile(path+".ready", []byte("1"), 0o644)
	go func() {
		for range ch {
			buf := make([]byte, 16<<20)
			n := runtime.Stack(buf, true)
			if err := os.WriteFile(path+".tmp", buf[:n], 0o644); err == nil {
				_ = os.Rename(path+".tmp", path)
			}
		}
	}()
}

// runRegistry executes the programs of one hist/stress case.
func runRegistry(c caseSpec, dir string) workerResult {
	var res workerResult
	vm := newVM(c.Std)
	var hits atomic.Int64
	installYield(c, &hits)
	progs := genPrograms(c)
	// one file per opLoadGlobalsFile (a file is loaded once per VM)
	glDir := filepath.Join(dir, "gl")
	_ = os.MkdirAll(glDir, 0o755)
	glFile := func(g, i int) string { return filepath.Join(glDir, fmt.Sprintf("g%d_%d.php", g, i)) }
	for g := range progs {
		for i, op := range progs[g] {
			if int(op.Kind) == opLoadGlobalsFile {
				_ = os.WriteFile(glFile(g, i), []byte(fmt.Sprintf("<?php\n$%s = %d;\n", globalName(int(op.Name)), i+1)), 0o644)
			}
		}
	}
	stamp := c.Mode == "hist"

	recs := make([][]rec, c.G)
	cells := make([][]*data.ZVal, c.G) // EnsureGlobalZVal results, parallel to recs
	var clock atomic.Int64
	var inflight, overlap atomic.Int64
	start := make(chan struct{})
	var wg sync.WaitGroup
	var gnotes [][]string = make([][]string, c.G)
	for g := 0; g < c.G; g++ {
		recs[g] = make([]rec, 0, len(progs[g]))
		cells[g] = make([]*data.ZVal, 0, len(progs[g]))
		wg.Add(1)
		go func(g int) {
			defer wg.Done()
			var lk lookups = vm
			if c.Temp && g%2 == 1 {
				lk = oruntime.NewTempVM(vm).(*oruntime.TempVM)
			}
			<-start
			for i, op := range progs[g] {
				kind, n := int(op.Kind), int(op.Name)
				r := rec{G: g, Kind: kind, Name: n}
				var cell *data.ZVal
				if isAdd(kind) {
					r.In = (g+1)*1000000 + i + 1
				}
				if stamp {
					if inflight.Add(1) > 1 {
						overlap.Add(1)
					}
					r.Call = clock.Add(1)
				}
				switch kind {
				case opAddClass:
					if vm.AddClass(&stubClass{typeName(n), r.In}) == nil {
						r.Out = 1
					}
				case opAddInterface:
					if vm.AddInterface(&stubIface{typeName(n), r.In}) == nil {
						r.Out = 1
					}
				case opAddFunc:
					if vm.AddFunc(&stubFunc{funcName(n), r.In}) == nil {
						r.Out = 1
					}
				case opSetConstant:
					if lk.SetConstant(constName(n), data.NewIntValue(r.In)) == nil {
						r.Out = 1
					}
				case opGetClass:
					if v, ok := lk.GetClass(typeName(n)); ok {
						r.Out = tokOf(v)
						if r.Out == 0 {
							r.Out = -1
						}
					}
				case opGetInterface:
					if v, ok := lk.GetInterface(typeName(n)); ok {
						r.Out = tokOf(v)
						if r.Out == 0 {
							r.Out = -1
						}
					}
				case opGetFunc, opGetFuncBS:
					name := funcName(n)
					if kind == opGetFuncBS {
						name = "\\" + name
					}
					if v, ok := lk.GetFunc(name); ok {
						r.Out = tokOf(v)
						if r.Out == 0 {
							r.Out = -1
						}
					}
				case opGetConstant, opGetConstantBS:
					name := constName(n)
					if kind == opGetConstantBS {
						name = "\\" + name
					}
					if v, ok := lk.GetConstant(name); ok {
						r.Out = constTok(v)
					}
				case opEnsureGlobal:
					cell = lk.EnsureGlobalZVal(globalName(n))
				case opRegisterGlobal:
					vars := []data.Variable{data.NewVariable(globalName(n), 0, nil)}
					ctx := vm.CreateContext(vars)
					cell = ctx.GetIndexZVal(0)
					vm.RegisterGlobalContext(vars, ctx)
				case opLoadGlobalsFile:
					if _, acl := vm.LoadAndRun(glFile(g, i)); acl != nil {
						gnotes[g] = append(gnotes[g], "registry/global/file-load-failed :: LoadAndRun of a one-line file assigning a top-level variable failed: "+acl.AsString())
					}
				case opGetOrLoadClass:
					if v, acl := lk.GetOrLoadClass(typeName(n)); acl == nil && v != nil {
						r.Out = tokOf(v)
					}
				case opGetOrLoadInterface:
					if v, acl := lk.GetOrLoadInterface(typeName(n)); acl == nil && v != nil {
						r.Out = tokOf(v)
					}
				case opLoadPkg:
					if v, acl := lk.LoadPkg(typeName(n)); acl == nil && v != nil {
						r.Out = tokOf(v)
					}
				case opGetClassCV:
					if v, ok := lk.GetClass(caseVariant(typeName(n), int(op.Var))); ok {
						r.Out = nz1(tokOf(v))
					}
				case opGetOrLoadClassCV:
					if v, acl := lk.GetOrLoadClass(caseVariant(typeName(n), int(op.Var))); acl == nil && v != nil {
						r.Out = tokOf(v)
					}
				case opGetOrLoadClassBS:
					if v, acl := vm.GetOrLoadClass("\\" + typeName(n)); acl == nil && v != nil {
						r.Out = tokOf(v)
					}
				case opGetOrLoadInterfaceBS:
					if v, acl := vm.GetOrLoadInterface("\\" + typeName(n)); acl == nil && v != nil {
						r.Out = tokOf(v)
					}
				case opLoadPkgBS:
					if v, acl := vm.LoadPkg("\\" + typeName(n)); acl == nil && v != nil {
						r.Out = tokOf(v)
					}
				case opAllClasses:
					seen := map[string]bool{}
					for _, cl := range vm.AllClasses() {
						if cl == nil || seen[cl.GetName()] {
							gnotes[g] = append(gnotes[g], "scan/AllClasses/duplicate-or-nil :: AllClasses() returned a nil entry or one name twice")
							break
						}
						seen[cl.GetName()] = true
					}
				case opAllFuncs:
					seen := map[string]bool{}
					for _, f := range vm.AllFuncs() {
						if f == nil || seen[f.GetName()] {
							gnotes[g] = append(gnotes[g], "scan/AllFuncs/duplicate-or-nil :: AllFuncs() returned a nil entry or one name twice")
							break
						}
						seen[f.GetName()] = true
					}
				}
				if stamp {
					r.Ret = clock.Add(1)
					inflight.Add(-1)
				}
				recs[g] = append(recs[g], r)
				cells[g] = append(cells[g], cell)
			}
		}(g)
	}
	close(start)
	wg.Wait()
	verifhook.SetYield(nil)

	// cells -> ids (first goroutine, first use order: deterministic given the results)
	ids := map[*data.ZVal]int{}
	for g := range recs {
		for i := range recs[g] {
			k := recs[g][i].Kind
			if k != opEnsureGlobal && k != opRegisterGlobal {
				continue
			}
			cell := cells[g][i]
			id := 0
			if cell != nil {
				var ok bool
				if id, ok = ids[cell]; !ok {
					id = len(ids) + 1
					ids[cell] = id
				}
			}
			if k == opEnsureGlobal {
				recs[g][i].Out = id
			} else {
				recs[g][i].In = id // the cell this registration offers
			}
		}
	}
	// final state, read single-threaded after the join
	for n := 0; n < c.Names; n++ {
		f := func(kind, out int) { res.Final = append(res.Final, rec{G: -1, Kind: kind, Name: n, Out: out}) }
		if v, ok := vm.GetClass(typeName(n)); ok {
			f(opGetClass, nz1(tokOf(v)))
		} else {
			f(opGetClass, 0)
		}
		if v, ok := vm.GetInterface(typeName(n)); ok {
			f(opGetInterface, nz1(tokOf(v)))
		} else {
			f(opGetInterface, 0)
		}
		if v, ok := vm.GetFunc(funcName(n)); ok {
			f(opGetFunc, nz1(tokOf(v)))
		} else {
			f(opGetFunc, 0)
		}
		if v, ok := vm.GetConstant(constName(n)); ok {
			f(opGetConstant, constTok(v))
		} else {
			f(opGetConstant, 0)
		}
		used := false
		for g := range recs {
			for _, r := range recs[g] {
				if r.Kind == opEnsureGlobal && r.Name == n {
					used = true
				}
			}
		}
		if used {
			cell := vm.EnsureGlobalZVal(globalName(n))
			id, ok := ids[cell]
			if !ok {
				id = -1
			}
			f(opEnsureGlobal, id)
		}
	}
	for _, ns := range gnotes {
		res.Notes = append(res.Notes, ns...)
	}
	res.Recs = recs
	res.Yields = hits.Load()
	res.Overlap = overlap.Load()
	return res
}

// constTok: the token carried by a constant's value (-1: not one of ours)
func constTok(v data.Value) int {
	if iv, ok := v.(*data.IntValue); ok && iv != nil && iv.Value > 0 {
		return iv.Value
	}
	return -1
}

func nz1(t int) int {
	if t == 0 {
		return -1
	}
	return t
}

// runCallDepth: balanced EnterCall/LeaveCall sequences from G goroutines; afterwards the
// depth must be back at zero (EnterCall reports 1).
func runCallDepth(c caseSpec) workerResult {
	var res workerResult
	vm := newVM(false)
	per := c.Ops / c.G
	start := make(chan struct{})
	var wg sync.WaitGroup
	for g := 0; g < c.G; g++ {
		wg.Add(1)
		go func(g int) {
			defer wg.Done()
			var v interface {
				EnterCall() int
				LeaveCall()
			} = vm
			if c.Temp && g%2 == 1 {
				v = oruntime.NewTempVM(vm).(*oruntime.TempVM)
			}
			r := rand.New(rand.NewSource(c.Seed + int64(g)))
			<-start
			for i := 0; i < per; i++ {
				d := 1 + r.Intn(3)
				for k := 0; k < d; k++ {
					v.EnterCall()
				}
				if c.Yield != 0 && i%16 == 0 {
					runtime.Gosched()
				}
				for k := 0; k < d; k++ {
					v.LeaveCall()
				}
			}
		}(g)
	}
	close(start)
	wg.Wait()
	res.Depth = vm.EnterCall() - 1
	vm.LeaveCall()
	return res
}

// runAutoload: G goroutines resolve classes and interfaces that live in files of a
// namespace directory through GetOrLoadClass / GetOrLoadInterface / LoadPkg / GetClass on
// one VM. Sequentially every loading call returns the definition, and every call for one
// name returns the same definition.
func runAutoload(c caseSpec, dir string) workerResult {
	var res workerResult
	nsDir := filepath.Join(dir, "ns")
	_ = os.MkdirAll(nsDir, 0o755)
	// every third name lives in a sub-namespace of its own, whose directory the class path
	// manager discovers (and records in its namespace tree) on demand
	nsOf := func(i int) (ns, d string) {
		if i%3 == 2 {
			d := filepath.Join(nsDir, fmt.Sprintf("s%d", i))
			_ = os.MkdirAll(d, 0o755)
			return fmt.Sprintf("vx10ns\\s%d", i), d
		}
		return "vx10ns", nsDir
	}
	cname := func(i int) string { ns, _ := nsOf(i); return fmt.Sprintf("%s\\C%d", ns, i) }
	iname := func(i int) string { ns, _ := nsOf(i); return fmt.Sprintf("%s\\I%d", ns, i) }
	r := rand.New(rand.NewSource(c.Seed))
	for i := 0; i < c.Names; i++ {
		var sb strings.Builder
		ns, d := nsOf(i)
		sb.WriteString("<?php\nnamespace " + ns + ";\n")
		// filler: makes the window between the file-cache entry and the registration wider
		for k, n := 0, r.Intn(40); k < n; k++ {
			fmt.Fprintf(&sb, "// filler %d of %s\n", k, typeName(i))
		}
		fmt.Fprintf(&sb, "interface I%d { function id(); }\n", i)
		_ = os.WriteFile(filepath.Join(d, fmt.Sprintf("I%d.php", i)), []byte(sb.String()), 0o644)
		sb.Reset()
		sb.WriteString("<?php\nnamespace " + ns + ";\n")
		for k, n := 0, r.Intn(40); k < n; k++ {
			fmt.Fprintf(&sb, "// filler %d\n", k)
		}
		fmt.Fprintf(&sb, "class C%d implements I%d { public function id() { return %d; } }\n", i, i, i)
		_ = os.WriteFile(filepath.Join(d, fmt.Sprintf("C%d.php", i)), []byte(sb.String()), 0o644)
	}
	vm := newVM(true)
	vm.AddNamespace("vx10ns", nsDir)
	var hits atomic.Int64
	installYield(c, &hits)

	type obs struct {
		kind, name int
		ptr        any
		err        string
	}
	all := make([][]obs, c.G)
	per := c.Ops / c.G
	start := make(chan struct{})
	var wg sync.WaitGroup
	for g := 0; g < c.G; g++ {
		wg.Add(1)
		rg := rand.New(rand.NewSource(c.Seed*31 + int64(g)))
		// the names this goroutine may *load*; lookups without loading go anywhere
		var mine []int
		for i := 0; i < c.Names; i++ {
			if c.Share || i%c.G == g {
				mine = append(mine, i)
			}
		}
		type step struct{ kind, name int }
		var steps []step
		for i := 0; i < per; i++ {
			switch {
			case len(mine) > 0 && rg.Intn(3) > 0:
				n := mine[(i*len(mine)/per+rg.Intn(2))%len(mine)]
				steps = append(steps, step{[]int{opGetOrLoadClass, opGetOrLoadClass, opLoadPkg, opGetOrLoadInterface}[rg.Intn(4)], n})
			default:
				steps = append(steps, step{[]int{opGetClass, opGetInterface}[rg.Intn(2)], rg.Intn(c.Names)})
			}
		}
		go func(g int) {
			defer wg.Done()
			<-start
			for _, s := range steps {
				o := obs{kind: s.kind, name: s.name}
				switch s.kind {
				case opGetOrLoadClass:
					v, acl := vm.GetOrLoadClass(cname(s.name))
					if acl != nil {
						o.err = acl.AsString()
					} else if v != nil {
						o.ptr = v
					}
				case opLoadPkg:
					v, acl := vm.LoadPkg(cname(s.name))
					if acl != nil {
						o.err = acl.AsString()
					} else if v != nil {
						o.ptr = v
					}
				case opGetOrLoadInterface:
					v, acl := vm.GetOrLoadInterface(iname(s.name))
					if acl != nil {
						o.err = acl.AsString()
					} else if v != nil {
						o.ptr = v
					}
				case opGetClass:
					if v, ok := vm.GetClass(cname(s.name)); ok {
						o.ptr = v
					}
				case opGetInterface:
					if v, ok := vm.GetInterface(iname(s.name)); ok {
						o.ptr = v
					}
				}
				all[g] = append(all[g], o)
			}
		}(g)
	}
	close(start)
	wg.Wait()
	verifhook.SetYield(nil)

	// judge here (definitions are pointers, they do not travel)
	notes := map[string]string{}
	classDef := map[int]any{}
	ifaceDef := map[int]any{}
	loaded := 0
	for g := range all {
		for _, o := range all[g] {
			loading := o.kind == opGetOrLoadClass || o.kind == opLoadPkg || o.kind == opGetOrLoadInterface
			isIface := o.kind == opGetOrLoadInterface || o.kind == opGetInterface
			what := fmt.Sprintf("%s(%s)", opNames[o.kind], map[bool]string{true: iname(o.name), false: cname(o.name)}[isIface])
			if loading && o.ptr == nil {
				key := "autoload/other-failure/" + opNames[o.kind]
				if strings.Contains(o.err, "中未找到类") {
					// the file is in the loaded-files cache but its definitions are not registered yet
					key = "concurrent-same-file/class-not-found-while-loading/" + opNames[o.kind]
				} else if o.err == "" {
					key = "autoload/nil-without-error/" + opNames[o.kind]
				}
				if _, ok := notes[key]; !ok {
					notes[key] = fmt.Sprintf("%s failed although the file exists in the namespace directory (goroutine %d of %d, share=%v): %q", what, g, c.G, c.Share, o.err)
				}
				continue
			}
			if o.ptr == nil {
				continue
			}
			if loading {
				loaded++
			}
			defs := classDef
			if isIface {
				defs = ifaceDef
			}
			if prev, ok := defs[o.name]; ok && prev != o.ptr {
				key := "registry-lock/autoload/two-definitions/" + map[bool]string{true: "interface", false: "class"}[isIface]
				if _, ok := notes[key]; !ok {
					notes[key] = fmt.Sprintf("%s returned a different definition object than another call for the same name: two registrations of one name were accepted", what)
				}
			} else {
				defs[o.name] = o.ptr
			}
		}
	}
	keys := make([]string, 0, len(notes))
	for k := range notes {
		keys = append(keys, k)
	}
	sort.Strings(keys)
	for _, k := range keys {
		res.Notes = append(res.Notes, k+" :: "+notes[k])
	}
	res.Yields = hits.Load()
	res.Loaded = loaded
	return res
}
