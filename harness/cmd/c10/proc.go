package main

// Child processes under a deadlock monitor.
//
// A registry deadlock (e.g. a lookup that takes VM.mu.RLock again while it holds it, with a
// writer queued in between) produces no race report and no panic: every goroutine parks on
// the lock and the process sits there. The Go runtime's own "all goroutines are asleep"
// check does not fire in these binaries (cgo is linked in: the race detector needs it, and
// the extra cgo thread counts as running). So the driver asks for a goroutine snapshot:
//
//   * when a child has consumed (almost) no CPU for stallSecs seconds, or when the generous
//     watchdog expires, the child is asked for the stacks of all its goroutines - the Go
//     workers answer SIGUSR1 with a stop-the-world runtime.Stack snapshot written to a
//     file and carry on; the CLI gets SIGQUIT (fatal, dump on stderr, which is a file);
//   * the *verdict* comes from the snapshot alone (classifyDump): every goroutine that
//     executes interpreter or workload code is parked in a lock acquisition or waits for
//     another goroutine (WaitGroup, channel), none is runnable, running, sleeping or in a
//     syscall, and at least one is parked on a lock taken by the registry code. Only
//     those goroutines can release the locks they wait for, each has a fixed amount of
//     work left, so the state is permanent: a logical fact, not a timing judgment. Any
//     other snapshot decides nothing (the child continues, or the run is inconclusive).
//
// The CPU-stall clock only chooses *when* to look.

import (
	"fmt"
	"os"
	"os/exec"
	"path/filepath"
	"regexp"
	"sort"
	"strconv"
	"strings"
	"syscall"
	"time"
)

type childResult struct {
	Exit     int
	Signal   string
	TimedOut bool // the generous watchdog expired (and the dump showed no deadlock)
	Stdout   string
	Stderr   string
	Deadlock *deadlockInfo
	Probes   int // snapshots requested
}

type deadlockInfo struct {
	Key  string
	What string
	Dump string
}

type childSpec struct {
	Argv      []string
	Dir       string
	Env       []string
	Timeout   time.Duration // generous watchdog
	StallSecs int           // seconds of (almost) no CPU before a snapshot is requested
	StackFile string        // non-empty: SIGUSR1 + this file (worker); empty: SIGQUIT + stderr (CLI)
	Repo      string
}

func cpuTicks(pid int) (int64, bool) {
	b, err := os.ReadFile(fmt.Sprintf("/proc/%d/stat", pid))
	if err != nil {
		return 0, false
	}
	s := string(b)
	i := strings.LastIndex(s, ")")
	if i < 0 {
		return 0, false
	}
	f := strings.Fields(s[i+1:])
	if len(f) < 13 {
		return 0, false
	}
	u, e1 := strconv.ParseInt(f[11], 10, 64)
	k, e2 := strconv.ParseInt(f[12], 10, 64)
	if e1 != nil || e2 != nil {
		return 0, false
	}
	return u + k, true
}

func runMonitored(s childSpec) childResult {
	var r childResult
	stdoutPath, stderrPath := filepath.Join(s.Dir, "child.stdout"), filepath.Join(s.Dir, "child.stderr")
	so, err1 := os.Create(stdoutPath)
	se, err2 := os.Create(stderrPath)
	if err1 != nil || err2 != nil {
		r.Exit = -2
		return r
	}
	defer so.Close()
	defer se.Close()
	cmd := exec.Command(s.Argv[0], s.Argv[1:]...)
	cmd.Dir = s.Dir
	cmd.Env = append(os.Environ(), s.Env...)
	cmd.Stdout, cmd.Stderr = so, se
	cmd.SysProcAttr = &syscall.SysProcAttr{Setpgid: true}
	if err := cmd.Start(); err != nil {
		r.Exit = -2
		return r
	}
	pid := cmd.Process.Pid
	done := make(chan error, 1)
	go func() { done <- cmd.Wait() }()
	read := func(p string) string {
		b, _ := os.ReadFile(p)
		if len(b) > 8<<20 {
			b = b[:8<<20]
		}
		return string(b)
	}
	finish := func() {
		r.Stdout, r.Stderr = read(stdoutPath), read(stderrPath)
		if ps := cmd.ProcessState; ps != nil {
			if ws, ok := ps.Sys().(syscall.WaitStatus); ok {
				if ws.Signaled() {
					r.Exit, r.Signal = -1, ws.Signal().String()
				} else {
					r.Exit = ws.ExitStatus()
				}
			}
		}
	}
	kill := func() {
		_ = syscall.Kill(-pid, syscall.SIGKILL)
		<-done
	}
	start := time.Now()
	tick := time.NewTicker(time.Second)
	defer tick.Stop()
	var hist []int64 // one sample per second
	nextProbe := 0
	for {
		select {
		case <-done:
			finish()
			return r
		case <-tick.C:
		}
		expired := time.Since(start) > s.Timeout
		t, ok := cpuTicks(pid)
		if ok {
			hist = append(hist, t)
		}
		stalled := ok && len(hist) > s.StallSecs && len(hist) >= nextProbe && t-hist[len(hist)-1-s.StallSecs] <= 2
		if !stalled && !expired {
			continue
		}
		r.Probes++
		dump := ""
		if s.StackFile != "" && !expired {
			if _, err := os.Stat(s.StackFile + ".ready"); err != nil {
				continue // the worker has not installed its SIGUSR1 handler yet
			}
			_ = os.Remove(s.StackFile)
			_ = syscall.Kill(pid, syscall.SIGUSR1)
			for i := 0; i < 100; i++ {
				if b, err := os.ReadFile(s.StackFile); err == nil {
					dump = string(b)
					break
				}
				select {
				case <-done:
					finish()
					return r
				case <-time.After(200 * time.Millisecond):
				}
			}
		} else {
			// fatal dump: SIGQUIT, stderr is a file
			_ = syscall.Kill(pid, syscall.SIGQUIT)
			select {
			case <-done:
			case <-time.After(20 * time.Second):
				kill()
			}
			finish()
			dump = r.Stderr
			if dl := classifyDump(dump, s.Repo); dl != nil {
				r.Deadlock = dl
			} else if expired {
				r.TimedOut = true
			} else {
				// a CLI process that was idle but not provably deadlocked: nothing is decided
				r.TimedOut = true
			}
			return r
		}
		if dl := classifyDump(dump, s.Repo); dl != nil {
			kill()
			finish()
			r.Deadlock = dl
			return r
		}
		// not (provably) deadlocked: look again after another stall period
		nextProbe = len(hist) + s.StallSecs
	}
}

// ---- goroutine dump classification ------------------------------------------------------

type gor struct {
	id     string
	state  string
	frames []raceFrame // innermost first
}

var gorHeader = regexp.MustCompile(`^goroutine (\d+)(?: [^\[]*)?\[([^\]]*)\]:`)

func parseDump(text string) []gor {
	var out []gor
	var cur *gor
	lines := strings.Split(text, "\n")
	for i := 0; i < len(lines); i++ {
		l := lines[i]
		if m := gorHeader.FindStringSubmatch(l); m != nil {
			out = append(out, gor{id: m[1], state: strings.TrimSpace(strings.Split(m[2], ",")[0])})
			cur = &out[len(out)-1]
			continue
		}
		if cur == nil {
			continue
		}
		if strings.TrimSpace(l) == "" {
			cur = nil
			continue
		}
		if strings.HasPrefix(l, "\t") || strings.HasPrefix(l, " ") || strings.HasPrefix(l, "created by ") {
			continue
		}
		fn := l
		if j := strings.LastIndex(fn, "("); j > 0 {
			fn = fn[:j]
		}
		file := ""
		if i+1 < len(lines) && strings.HasPrefix(lines[i+1], "\t") {
			file = strings.TrimSpace(lines[i+1])
			if j := strings.Index(file, " "); j >= 0 {
				file = file[:j]
			}
			if j := strings.LastIndex(file, ":"); j >= 0 {
				file = file[:j]
			}
		}
		cur.frames = append(cur.frames, raceFrame{fn: fn, file: file})
	}
	return out
}

var lockStates = map[string]bool{"sync.Mutex.Lock": true, "sync.RWMutex.RLock": true, "sync.RWMutex.Lock": true, "semacquire": true}
var waitOthersStates = map[string]bool{"sync.WaitGroup.Wait": true, "chan receive": true, "chan send": true}

// classifyDump: non-nil iff the snapshot shows a permanent all-blocked state that involves
// a lock taken by the registry code.
func classifyDump(text, repo string) *deadlockInfo {
	gs := parseDump(text)
	if len(gs) == 0 {
		return nil
	}
	type blocked struct {
		g     gor
		chain []string // anchor-file functions of the stack, innermost first
		self  bool
	}
	var locked []blocked
	workload := 0
	for _, g := range gs {
		isWorkload, isDumper := false, false
		for _, f := range g.frames {
			if strings.HasPrefix(f.fn, origamiPkg) && !strings.Contains(f.fn, "/verifhook.") {
				isWorkload = true
			}
			if strings.HasPrefix(f.fn, "main.run") || f.fn == "main.workerMain" || f.fn == "main.main" {
				isWorkload = true
			}
			if strings.HasPrefix(f.fn, "main.installStackDumper") || strings.HasPrefix(f.fn, "os/signal.") {
				isDumper = true
			}
		}
		if isDumper || !isWorkload {
			continue // runtime/system goroutines cannot release a registry lock
		}
		workload++
		switch {
		case lockStates[g.state]:
			// the lock must be acquired directly by repository code (not by the harness)
			var chain []string
			direct := false
			for _, f := range g.frames {
				if strings.HasPrefix(f.fn, "sync.") || strings.HasPrefix(f.fn, "runtime.") || strings.HasPrefix(f.fn, "internal/") {
					continue
				}
				file, fn, ok := repoFrame([]raceFrame{f}, repo)
				if !direct {
					if !ok {
						return nil // parked on a lock of the harness or of a library: not ours to judge
					}
					direct = true
				}
				if ok && anchorFiles[file] {
					chain = append(chain, fn)
				}
			}
			b := blocked{g: g, chain: chain}
			// the function parked in the lock acquisition is also an outer frame of the same
			// stack: it called itself (directly or through wrappers) without leaving
			for _, fn := range chain[min(1, len(chain)):] {
				if fn == chain[0] {
					b.self = true
				}
			}
			locked = append(locked, b)
		case waitOthersStates[g.state]:
			// waits for another goroutine; permanent iff all others are
		default:
			return nil // runnable, running, sleep, select, syscall, IO wait ...: can still make progress
		}
	}
	if workload == 0 || len(locked) == 0 {
		return nil
	}
	// key: the re-entered function if a stack shows one, else the set of innermost registry functions
	var selfFns, inner []string
	anyAnchor := false
	for _, b := range locked {
		if len(b.chain) == 0 {
			continue
		}
		anyAnchor = true
		inner = append(inner, b.chain[0])
		if b.self {
			selfFns = append(selfFns, b.chain[0])
		}
	}
	if !anyAnchor {
		return nil
	}
	uniq := func(xs []string) []string {
		sort.Strings(xs)
		var out []string
		for i, x := range xs {
			if i == 0 || x != xs[i-1] {
				out = append(out, x)
			}
		}
		return out
	}
	key := "deadlock@" + strings.Join(uniq(inner), "+")
	detail := ""
	if len(selfFns) > 0 {
		key = "deadlock/re-entered-lock@" + uniq(selfFns)[0]
		detail = "; " + uniq(selfFns)[0] + " is parked acquiring the registry lock while an outer frame of the same goroutine is " + uniq(selfFns)[0] + " again (sync.RWMutex is not re-entrant: a writer queued between the two acquisitions blocks the inner one for ever)"
	}
	states := map[string]int{}
	for _, b := range locked {
		states[b.g.state]++
	}
	var st []string
	for k, v := range states {
		st = append(st, fmt.Sprintf("%d in %s", v, k))
	}
	sort.Strings(st)
	return &deadlockInfo{Key: key, Dump: text,
		What: fmt.Sprintf("deadlock: all %d goroutines that run interpreter/workload code are parked (%s; the rest wait for them), none is runnable; parked inside %s%s",
			workload, strings.Join(st, ", "), strings.Join(uniq(inner), ", "), detail)}
}
