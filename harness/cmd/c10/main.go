// C10 — VM registries stay consistent under concurrent definition and lookup.
//
// Driver. Go-level cases run in child processes (`c10 worker` / `c10-race worker`), one case
// per process; script-level cases run the CLI (`origami` / `origami-race`). See NOTES.md.
package main

import (
	"encoding/json"
	"fmt"
	"math"
	"math/rand"
	"os"
	"path/filepath"
	"sort"
	"strings"
	"sync"
	"time"

	"verif/lib"
)

const procTimeout = 6 * time.Minute // watchdog only
const checkerTimeout = 60 * time.Second

// seconds without CPU consumption after which a goroutine snapshot is requested (it only
// chooses when to look; the snapshot decides, see proc.go)
const workerStallSecs = 5 // workers answer without dying, so looking early costs nothing
const cliStallSecs = 20    // the CLI dies of the request (SIGQUIT)

type driver struct {
	e  *lib.Env
	mu sync.Mutex

	distinct lib.DistinctCounter
	samples  []any

	evals        int
	byMode       map[string]int
	opsRecorded  int64
	overlapCalls int64
	yieldHits    int64
	hist         histStats
	raceReports  int
	raceAttr     map[string]int
	raceOther    map[string]int
	crashes      map[string]int
	crashOther   map[string]int
	scriptDone   int
	scriptEarly  map[string]int
	raceRuns     int
	autoLoaded   int
	pending      []pendingRace
	probes       int
	deadlocks    map[string]int
}

// pendingRace: an attributed report between registry/autoload code and code that builds or
// reads a definition object (parser/*, node/*). Whether it stands for itself or is the
// unsynchronised hand-over of a definition through an unlocked registry map is decided at
// the end of the run (see settlePending).
type pendingRace struct {
	key, sig, what string
	ext            string
	replay         []byte
}

func main() {
	if len(os.Args) >= 4 && os.Args[1] == "worker" {
		workerMain(os.Args[2], os.Args[3])
		return
	}
	e := lib.Init("C10", "exploration")
	d := &driver{e: e, byMode: map[string]int{}, raceAttr: map[string]int{}, raceOther: map[string]int{}, crashes: map[string]int{},
		crashOther: map[string]int{}, scriptEarly: map[string]int{}, deadlocks: map[string]int{}}
	e.Assume("schedules are whatever the Go scheduler produced under the seeded yield handler, GOMAXPROCS in {1,4,16} and the machine's load; they are not reproducible",
		"definitions in the Go-level cases are stub ClassStmt/InterfaceStmt/FuncStmt values without a source position, so the same-file duplicate exemption of AddClass/AddInterface never applies",
		"a race report counts for the property only if the innermost repository frame of one of its two accesses lies in runtime/vm.go, runtime/vm_temp.go, runtime/autoload.go or parser/class_path_manager.go")
	e.RunScriptWitnesses()

	haveRace := true
	if _, err := os.Stat(e.Bin("c10-race")); err != nil {
		haveRace = false
		e.Inconclusive("c10-race binary missing: Go-level cases run without the race detector")
	}
	haveCLIRace := true
	if _, err := os.Stat(e.OrigamiRace()); err != nil {
		haveCLIRace = false
		e.Inconclusive("origami-race binary missing: script cases run without the race detector")
	}

	cases := d.goCases(haveRace)
	lib.ParallelMap(len(cases), workersFor(e), func(i int) { d.runGoCase(cases[i], i) })

	scripts := d.scriptCases(haveCLIRace)
	lib.ParallelMap(len(scripts), workersFor(e), func(i int) { d.runScriptCase(scripts[i], i) })

	d.settlePending()
	e.Extra("cases_by_mode", d.byMode)
	e.Extra("calls_recorded", d.opsRecorded)
	e.Extra("calls_begun_while_another_was_in_flight", d.overlapCalls)
	e.Extra("vm_add_checked_hook_hits", d.yieldHits)
	e.Extra("porcupine", map[string]int{"partitions_checked": d.hist.partitions, "ok": d.hist.ok, "illegal": d.hist.illegal, "unknown": d.hist.unknown, "operations": d.hist.ops})
	e.Extra("race_detector_runs", d.raceRuns)
	e.Extra("race_reports", d.raceReports)
	e.Extra("attributed_races", d.raceAttr)
	e.Extra("unattributed_races", top(d.raceOther, 25))
	e.Extra("attributed_crashes", d.crashes)
	e.Extra("unattributed_crashes", d.crashOther)
	e.Extra("goroutine_snapshots_requested", d.probes)
	e.Extra("deadlocks", d.deadlocks)
	e.Extra("script_runs_completed", d.scriptDone)
	e.Extra("script_runs_ended_by_script_error", d.scriptEarly)
	e.Extra("autoload_calls_that_returned_a_definition", d.autoLoaded)
	e.Finish(lib.Coverage{
		Evaluations:        d.evals,
		DistinctNontrivial: d.distinct.N(),
		Rule: "Go-level case: at least one name received registrations from two different goroutines and (hist mode) at least one call began while another was in flight; " +
			"calldepth case: >= 2 goroutines; autoload/script case: the run completed with >= 2 goroutines/coroutines and at least one definition was loaded",
		Samples:    d.samples,
		Exhaustive: false,
	})
}

func workersFor(e *lib.Env) int {
	return 8 // children are themselves multi-threaded (up to 16 goroutines, GOMAXPROCS up to 16)
}

func top(m map[string]int, n int) map[string]int {
	type kv struct {
		k string
		v int
	}
	var l []kv
	for k, v := range m {
		l = append(l, kv{k, v})
	}
	sort.Slice(l, func(i, j int) bool {
		if l[i].v != l[j].v {
			return l[i].v > l[j].v
		}
		return l[i].k < l[j].k
	})
	out := map[string]int{}
	for i, x := range l {
		if i >= n {
			break
		}
		out[x.k] = x.v
	}
	return out
}

// ---- case lists (pure functions of seed and tier) ---------------------------------------

func pick[T any](r *rand.Rand, xs ...T) T { return xs[r.Intn(len(xs))] }

func (d *driver) goCases(haveRace bool) []caseSpec {
	e := d.e
	var out []caseSpec
	mk := func(mode string, i int, r *rand.Rand) caseSpec {
		c := caseSpec{ID: fmt.Sprintf("%s-%d", mode, i), Mode: mode, Seed: r.Int63n(1 << 40)}
		c.G = pick(r, 2, 4, 8, 16)
		c.Procs = pick(r, 1, 4, 16)
		c.Names = 8 + r.Intn(25)
		c.Ops = int(math.Pow(10, 2+2*r.Float64())) // 10^2 .. 10^4, log-uniform
		if c.Ops < c.G*4 {
			c.Ops = c.G * 4
		}
		c.Std = r.Intn(3) == 0
		c.Yield = pick(r, 0, 1, 2, 2)
		c.Temp = r.Intn(2) == 0
		return c
	}
	r := e.Rand("hist")
	for i, n := 0, e.Pick(40, 1000); i < n; i++ {
		c := mk("hist", i, r)
		c.Race = haveRace && i%2 == 0
		out = append(out, c)
	}
	r = e.Rand("stress")
	for i, n := 0, e.Pick(24, 400); i < n; i++ {
		c := mk("stress", i, r)
		c.Yield = pick(r, 0, 0, 1)
		c.Race = haveRace && i%4 != 3
		out = append(out, c)
	}
	r = e.Rand("calldepth")
	for i, n := 0, e.Pick(6, 40); i < n; i++ {
		c := mk("calldepth", i, r)
		c.Ops = 2000 + r.Intn(40000)
		c.Race = haveRace && i%2 == 0
		out = append(out, c)
	}
	r = e.Rand("autoload")
	for i, n := 0, e.Pick(12, 200); i < n; i++ {
		c := mk("autoload", i, r)
		c.Names = 4 + r.Intn(9)
		c.Ops = c.G * (6 + r.Intn(30))
		c.Share = i%2 == 0
		c.Std = true
		c.Race = haveRace && i%4 < 2
		out = append(out, c)
	}
	return out
}

func (d *driver) scriptCases(haveRace bool) []*scriptCase {
	e := d.e
	var out []*scriptCase
	r := e.Rand("script")
	nRace, nPlain := e.Pick(12, 150), e.Pick(28, 450)
	for i := 0; i < nRace+nPlain; i++ {
		c := &scriptCase{ID: fmt.Sprintf("script-%d", i), Seed: r.Int63n(1 << 40)}
		c.G = pick(r, 2, 3, 4, 8, 16)
		c.Classes = 3 + r.Intn(10)
		c.Acts = 8 + r.Intn(40)
		c.Share = i%3 == 0
		c.Procs = pick(r, 1, 4, 16)
		c.Yield = r.Intn(2) == 0
		c.Race = haveRace && i < nRace
		genScript(c)
		out = append(out, c)
	}
	return out
}

// ---- Go-level cases ---------------------------------------------------------------------

func (d *driver) violation(key, what string, replay any) {
	b, _ := json.MarshalIndent(replay, "", " ")
	d.e.Violation(key, what, "json", b)
}

// deadlock records a snapshot-proven deadlock; the replay holds the case and the dump.
func (d *driver) deadlock(dl *deadlockInfo, caseText string, caseReplay []byte) {
	d.mu.Lock()
	d.deadlocks[dl.Key]++
	d.mu.Unlock()
	body := append([]byte("case: "+caseText+"\n"+dl.What+"\n\n---- case ----\n"), caseReplay...)
	body = append(body, []byte("\n\n---- goroutine snapshot ----\n"+head(dl.Dump, 200000))...)
	d.e.Violation(dl.Key, dl.What+" ("+caseText+")", "txt", body)
}

func (d *driver) count(mode string) {
	d.mu.Lock()
	d.evals++
	d.byMode[mode]++
	d.mu.Unlock()
}

func (d *driver) sample(s any) {
	d.mu.Lock()
	if len(d.samples) < 10 {
		d.samples = append(d.samples, s)
	}
	d.mu.Unlock()
}

func (d *driver) runGoCase(c caseSpec, idx int) {
	e := d.e
	dir := filepath.Join(e.Scratch, fmt.Sprintf("go%d", idx))
	_ = os.MkdirAll(dir, 0o755)
	defer os.RemoveAll(dir)
	spec, _ := json.Marshal(c)
	specPath, outPath := filepath.Join(dir, "spec.json"), filepath.Join(dir, "result.json")
	_ = os.WriteFile(specPath, spec, 0o644)
	bin := e.Bin("c10")
	if c.Race {
		bin = e.Bin("c10-race")
	}
	res := runMonitored(childSpec{Argv: []string{bin, "worker", specPath, outPath}, Dir: dir, Timeout: procTimeout, StallSecs: workerStallSecs,
		StackFile: outPath + ".stacks", Repo: e.Repo,
		Env: []string{"GORACE=halt_on_error=0 exitcode=0 log_path=" + filepath.Join(dir, "race"), fmt.Sprintf("GOMAXPROCS=%d", c.Procs)}})
	d.count(c.Mode)
	d.mu.Lock()
	d.probes += res.Probes
	d.mu.Unlock()
	caseText := fmt.Sprintf("%s: %d goroutines, %d calls, %d names per table, GOMAXPROCS=%d, std=%v, yield=%d, temp=%v, share=%v, race-build=%v, case seed %d",
		c.ID, c.G, c.Ops, c.Names, c.Procs, c.Std, c.Yield, c.Temp, c.Share, c.Race, c.Seed)
	if res.Deadlock != nil {
		d.deadlock(res.Deadlock, caseText, spec)
		return
	}
	if res.TimedOut {
		e.Inconclusive("watchdog fired on " + c.ID + " and the goroutine dump does not show a registry deadlock")
		return
	}
	if c.Race {
		d.mu.Lock()
		d.raceRuns++
		d.mu.Unlock()
		d.races(dir, "race", caseText, map[string]any{"spec": c})
	}
	b, err := os.ReadFile(outPath)
	if err != nil {
		// the worker died before it could report
		key, what, attributed := crashKey(res.Stderr, e.Repo)
		switch {
		case key == "":
			e.Inconclusive(fmt.Sprintf("worker of %s ended without a result and without a Go crash message (exit %d, signal %q): %.300s", c.ID, res.Exit, res.Signal, res.Stderr))
		case attributed:
			d.mu.Lock()
			d.crashes[key]++
			d.mu.Unlock()
			d.violation(key, "the process died: "+what+" while goroutines registered and looked up names on one VM ("+caseText+")", map[string]any{"spec": c, "stderr_head": head(res.Stderr, 6000)})
		default:
			d.mu.Lock()
			d.crashOther[key]++
			d.mu.Unlock()
			e.Inconclusive("worker of " + c.ID + " crashed outside the registry code: " + what)
		}
		return
	}
	var wr workerResult
	if err := json.Unmarshal(b, &wr); err != nil {
		e.Inconclusive("unreadable result of " + c.ID + ": " + err.Error())
		return
	}
	for _, n := range wr.Notes {
		key, what, _ := strings.Cut(n, " :: ")
		d.violation(key, what+" ("+caseText+")", map[string]any{"spec": c})
	}
	d.mu.Lock()
	d.yieldHits += wr.Yields
	d.overlapCalls += wr.Overlap
	d.autoLoaded += wr.Loaded
	d.mu.Unlock()
	switch c.Mode {
	case "calldepth":
		if wr.Depth != 0 {
			d.violation("calldepth/drift", fmt.Sprintf("after %d goroutines made balanced EnterCall/LeaveCall pairs (%d in total) the VM reports call depth %d instead of 0: updates of the shared counter were lost (%s)",
				c.G, c.Ops, wr.Depth, caseText), map[string]any{"spec": c, "depth": wr.Depth})
		}
		if c.G >= 2 {
			d.distinct.Add(lib.Hash("calldepth", fmt.Sprint(c)))
		}
		d.sample(map[string]any{"case": caseText, "final_depth": wr.Depth})
		return
	case "autoload":
		if c.G >= 2 && wr.Loaded > 0 {
			d.distinct.Add(lib.Hash("autoload", fmt.Sprint(c)))
		}
		d.sample(map[string]any{"case": caseText, "loading_calls_that_returned_a_definition": wr.Loaded, "anomalies": wr.Notes})
		return
	}
	// hist / stress
	nrec := 0
	contended := false
	adders := map[[2]int]int{} // (table,name) -> first goroutine that registered, -2 when several
	for g, rs := range wr.Recs {
		nrec += len(rs)
		for _, r := range rs {
			if !isAdd(r.Kind) {
				continue
			}
			k := [2]int{opTable(r.Kind), r.Name}
			if prev, ok := adders[k]; !ok {
				adders[k] = g
			} else if prev != g {
				contended = true
			}
		}
	}
	anoms := timeFree(&wr)
	if c.Mode == "hist" {
		a2, st, inc := sequentialWitness(&wr, checkerTimeout)
		for _, s := range inc {
			e.Inconclusive(s + " in " + c.ID)
		}
		have := map[string]bool{}
		for _, a := range anoms {
			have[fmt.Sprintf("%d/%d", a.table, a.name)] = true
		}
		for _, a := range a2 {
			// a partition already refuted by a time-free check is not reported twice
			if !have[fmt.Sprintf("%d/%d", a.table, a.name)] {
				anoms = append(anoms, a)
			}
		}
		d.mu.Lock()
		d.hist.partitions += st.partitions
		d.hist.ok += st.ok
		d.hist.illegal += st.illegal
		d.hist.unknown += st.unknown
		d.hist.ops += st.ops
		d.mu.Unlock()
	}
	d.mu.Lock()
	d.opsRecorded += int64(nrec)
	d.mu.Unlock()
	for _, a := range anoms {
		d.violation(a.key, a.what+" ("+caseText+")", map[string]any{"spec": c, "partition": partitionOf(&wr, a.table, a.name)})
	}
	if contended && (c.Mode != "hist" || wr.Overlap > 0) {
		d.distinct.Add(lib.Hash(c.Mode, fmt.Sprint(c)))
	}
	if c.Mode == "hist" {
		d.sample(map[string]any{"case": caseText, "calls": nrec, "calls_overlapping": wr.Overlap, "hook_hits": wr.Yields, "anomalies": len(anoms)})
	}
}

// partitionOf: the recorded calls on one (table, name), for the replay file.
func partitionOf(wr *workerResult, table, name int) []map[string]any {
	var out []map[string]any
	for _, rs := range wr.Recs {
		for _, r := range rs {
			if r.Kind >= opAllClasses || opTable(r.Kind) != table || r.Name != name {
				continue
			}
			m := map[string]any{"goroutine": r.G, "op": opNames[r.Kind], "name": displayName(table, name), "result": r.Out}
			if isAdd(r.Kind) {
				m["offers_definition"] = r.In
			}
			if r.Kind == opRegisterGlobal {
				m["offers_cell"] = r.In
			}
			if r.Call != 0 {
				m["call"], m["return"] = r.Call, r.Ret
			}
			out = append(out, m)
		}
	}
	sort.SliceStable(out, func(i, j int) bool {
		a, _ := out[i]["call"].(int64)
		b, _ := out[j]["call"].(int64)
		return a < b
	})
	if len(out) > 400 {
		out = out[:400]
	}
	return out
}

func head(s string, n int) string {
	if len(s) > n {
		return s[:n]
	}
	return s
}

// races reads the race logs of one run and records attributed reports as violations.
func (d *driver) races(dir, prefix, caseText string, replay any) {
	for _, rep := range readRaceLogs(dir, prefix) {
		key, sig := classifyRace(rep, d.e.Repo)
		d.mu.Lock()
		d.raceReports++
		if key == "" {
			d.raceOther[sig]++
		} else {
			d.raceAttr[key]++
		}
		d.mu.Unlock()
		if key != "" {
			what := "the race detector reports unsynchronised conflicting accesses: " + sig + " (" + caseText + ")"
			ext, body := "json", []byte(nil)
			if sc, ok := replay.(*scriptCase); ok {
				ext, body = "php", sc.replay()
			} else {
				body, _ = json.MarshalIndent(replay, "", " ")
			}
			if definitionHandOver(sig) && strings.HasPrefix(key, "race/") {
				d.mu.Lock()
				dup := false
				for _, p := range d.pending {
					dup = dup || p.key == key
				}
				if !dup {
					d.pending = append(d.pending, pendingRace{key, sig, what, ext, body})
				}
				d.mu.Unlock()
				continue
			}
			d.e.Violation(key, what, ext, body)
		}
	}
}

// definitionHandOver: one side of the report is registry/autoload code, the other side is
// code of parser/ or node/ (which builds and reads class, interface and function
// definitions).
func definitionHandOver(sig string) bool {
	a, b, ok := strings.Cut(sig, " <-> ")
	if !ok {
		return false
	}
	anchor := func(s string) bool {
		f, _, _ := strings.Cut(s, ":")
		return anchorFiles[f]
	}
	defCode := func(s string) bool { return strings.HasPrefix(s, "parser/") && !anchor(s) || strings.HasPrefix(s, "node/") }
	return anchor(a) && defCode(b) || anchor(b) && defCode(a)
}

// settlePending: while the run has seen the registry maps themselves accessed without
// ordering (a direct registry-lock/race/(*VM).Add... report), a definition read by
// registry/autoload code unordered with its construction in the parser is the same defect -
// the map handed the object over without synchronisation - and is keyed under it. On a tree
// whose registry accesses are ordered the report keeps its own key.
func (d *driver) settlePending() {
	direct := false
	for k := range d.raceAttr {
		if strings.HasPrefix(k, "registry-lock/race/(*VM).") {
			direct = true
		}
	}
	for _, p := range d.pending {
		key := p.key
		if direct {
			key = "registry-lock/race/unsafe-publication/" + strings.TrimPrefix(p.key, "race/")
			delete(d.raceAttr, p.key)
			d.raceAttr[key]++
		}
		d.e.Violation(key, p.what, p.ext, p.replay)
	}
}

// ---- script-level cases -------------------------------------------------------------------

func (d *driver) runScriptCase(c *scriptCase, idx int) {
	e := d.e
	dir := filepath.Join(e.Scratch, fmt.Sprintf("sc%d", idx))
	defer os.RemoveAll(dir)
	if err := c.write(dir); err != nil {
		e.Inconclusive("cannot write script case: " + err.Error())
		return
	}
	bin := e.Origami()
	if c.Race {
		bin = e.OrigamiRace()
	}
	env := []string{fmt.Sprintf("GOMAXPROCS=%d", c.Procs), "GORACE=halt_on_error=0 exitcode=0 log_path=" + filepath.Join(dir, "race")}
	if c.Yield {
		env = append(env, fmt.Sprintf("VERIF_YIELD=%d:0.5", c.Seed%100000))
	}
	cr := runMonitored(childSpec{Argv: []string{bin, filepath.Join(dir, "main.php")}, Dir: dir, Timeout: procTimeout, StallSecs: cliStallSecs, Repo: e.Repo, Env: env})
	res := lib.ProcResult{Stdout: cr.Stdout, Stderr: cr.Stderr, Exit: cr.Exit, Signal: cr.Signal, TimedOut: cr.TimedOut}
	d.count("script")
	d.mu.Lock()
	d.probes += cr.Probes
	d.mu.Unlock()
	if cr.Deadlock != nil {
		d.deadlock(cr.Deadlock, c.String(), c.replay())
		return
	}
	if res.TimedOut {
		e.Inconclusive("the process stopped making progress (or the watchdog fired) and its goroutine dump does not show a registry deadlock: " + c.String())
		return
	}
	if c.Race {
		d.mu.Lock()
		d.raceRuns++
		d.mu.Unlock()
		d.races(dir, "race", c.String(), c)
	}
	if crash, _ := lib.GoCrash(res); crash {
		key, what, attributed := crashKey(res.Stderr, e.Repo)
		if key == "" {
			key, what = "crash/"+lib.PanicSite(res.Stderr), head(res.Stderr, 300)
		}
		d.mu.Lock()
		if attributed {
			d.crashes[key]++
		} else {
			d.crashOther[key]++
		}
		d.mu.Unlock()
		if attributed {
			e.Violation(key, "the interpreter died: "+what+" ("+c.String()+")", "php", c.replay())
		} else {
			e.Inconclusive("script run crashed outside the registry code: " + what + ": " + c.String())
		}
		return
	}
	anoms, complete := c.judgeOutput(res.Stdout)
	if !complete {
		key, relevant := scriptErrorKey(res.Stdout + "\n" + res.Stderr)
		d.mu.Lock()
		d.scriptEarly[key]++
		d.mu.Unlock()
		if relevant {
			e.Violation(key, fmt.Sprintf("a coroutine's uncaught error ended the process (exit %d) although every class, interface and function it uses exists: %.300s (%s)",
				res.Exit, firstFatal(res.Stdout+"\n"+res.Stderr), c.String()), "php", c.replay())
		} else {
			e.Inconclusive(fmt.Sprintf("script run did not reach its end marker (exit %d): %.200s: %s", res.Exit, firstFatal(res.Stdout+"\n"+res.Stderr), c.String()))
		}
		return
	}
	d.mu.Lock()
	d.scriptDone++
	d.mu.Unlock()
	for _, a := range anoms {
		e.Violation(a[0], a[1]+" ("+c.String()+")", "php", c.replay())
	}
	if c.G >= 2 {
		d.distinct.Add(lib.Hash("script", c.files["main.php"]))
	}
	if idx < 2 {
		d.sample(map[string]any{"case": c.String(), "first_result_line": firstLine(res.Stdout)})
	}
}

func firstFatal(s string) string {
	for _, l := range strings.Split(s, "\n") {
		if strings.Contains(l, "Fatal error") {
			return l
		}
	}
	return firstLine(s)
}

func firstLine(s string) string {
	if i := strings.Index(s, "\n"); i >= 0 {
		return s[:i]
	}
	return s
}
