package main

import (
	"fmt"
	"math/rand"
	"sync"
)

// shapes of the load workload: route prefix and server per handler shape.
type shapeSpec struct {
	Name, Server, Route, What string
}

var shapes = []shapeSpec{
	{"s1", "plain", "/s1", "locals and loops"},
	{"s2", "plain", "/s2", "arrays (copies, nested, keyed), JSON answer"},
	{"s3", "plain", "/s3", "objects, method chains, recursion"},
	{"s4", "plain", "/s4", "closures (use, by-reference use, arrow fn, returned closure)"},
	{"s5", "mw", "/s5", "closure + class middleware around the handler"},
	{"s6", "err", "/s6", "handler throws for odd n, onError answers"},
	{"s7", "cap", "/s7", "handler, closure middleware and start-up helper closure write to arrays/scalars captured by value (use)"},
	{"s8", "obj", "/s8", "one object per request; its methods run capture-less closures / arrow fns / callbacks (array_map, usort, array_filter, array_reduce) that use $this"},
	{"s9", "boot", "/s9", "by-value copies of boot-time arrays (service object properties, static properties, globals captured by value) that were iterated by reference at boot; writes to the copies"},
	{"s10", "rec", "/s10", "recursion (function, mutual, method, static method, self-calling closure) whose depth is a request parameter; the rendezvous is at the innermost frame"},
}

// round is one load case: K requests with distinct parameters served at the same time by
// one fresh server (twice: a second wave re-sends them in another order to the now used
// server), each compared with the answer the same request gets alone on a fresh server.
type round struct {
	ID    int       `json:"id"`
	Sync  bool      `json:"sync"` // handlers rendezvous mid-way: all K requests are in flight at once
	Reqs  []reqSpec `json:"reqs"`
	Order []int     `json:"order"` // start order of the second wave
}

var inflightChoices = []int{2, 2, 3, 4, 6, 8, 12, 16, 24, 32, 48, 64}

func genRound(r *rand.Rand, id int, superglobals, deepMethods bool) round {
	k := inflightChoices[r.Intn(len(inflightChoices))]
	if r.Intn(4) == 0 {
		k = 2 + r.Intn(63)
	}
	rd := round{ID: id, Sync: r.Intn(2) == 0}
	mono := -1
	if r.Intn(2) == 0 {
		mono = r.Intn(len(shapes)) // every request runs the same handler code
	}
	for i := 0; i < k; i++ {
		si := mono
		if si < 0 {
			si = r.Intn(len(shapes))
		}
		sh := shapes[si]
		method := "GET"
		if r.Intn(2) == 0 {
			method = "POST"
		}
		var extra [][2]string
		if superglobals && r.Intn(2) == 0 {
			extra = append(extra, [2]string{"X-Sg", "1"})
		}
		depth := -1
		if sh.Name == "s10" {
			kind := recKinds[r.Intn(len(recKinds))]
			depth = r.Intn(61)
			if countsAsMethod(kind) && !deepMethods {
				depth = r.Intn(5) // open finding calldepth-shared: keep the sum of method frames of a round far below 500
			}
			extra = append(extra, [2]string{"X-Rec", kind}, [2]string{"X-Gate-Name", "none"})
		}
		q := stdRequest(sh.Server, sh.Name, sh.Route, method, ownerOf(id, i), r.Intn(6), extra...)
		if depth >= 0 {
			q.Target += fmt.Sprintf("&d=%d", depth)
		}
		rd.Reqs = append(rd.Reqs, q)
	}
	rd.Order = r.Perm(k)
	return rd
}

// roundResult is what the worker reports for one round.
type roundResult struct {
	ID          int        `json:"id"`
	Requests    int        `json:"requests"`     // concurrent request executions compared
	Nontrivial  int        `json:"nontrivial"`   // of those: baseline echoes >= 3 own tokens and >= 2 requests were in flight
	BaselineBad []string   `json:"baseline_bad"` // the request alone did not answer the same twice: not compared
	Mism        []mismatch `json:"mism"`
	Sample      string     `json:"sample,omitempty"`
	Fatal       string     `json:"fatal,omitempty"`
}

type mismatch struct {
	Key  string `json:"key"`
	What string `json:"what"`
}

// baseline serves one request alone on a fresh server.
func baseline(q reqSpec) (observation, error) {
	w, err := newLoadedWorld()
	if err != nil {
		return observation{}, err
	}
	return w.serve(q), nil
}

// wave serves the requests at the same time on w, started in the given order.
func wave(w *world, reqs []reqSpec, order []int, sync_ bool) []observation {
	out := make([]observation, len(reqs))
	if sync_ {
		w.barrier.arm(len(reqs))
		defer w.barrier.disarm()
	}
	start := make(chan struct{})
	var wg sync.WaitGroup
	for _, i := range order {
		i := i
		wg.Add(1)
		go func() {
			defer wg.Done()
			<-start
			out[i] = w.serve(reqs[i])
			w.barrier.done() // finished: never keeps the others waiting
		}()
	}
	close(start)
	wg.Wait()
	return out
}

func runRound(rd round) (res roundResult) {
	res.ID = rd.ID
	k := len(rd.Reqs)
	base := make([]observation, k)
	usable := make([]bool, k)
	seen := map[string]bool{}
	for i, q := range rd.Reqs {
		b1, err := baseline(q)
		if err != nil {
			res.Fatal = err.Error()
			return
		}
		b2, err := baseline(q)
		if err != nil {
			res.Fatal = err.Error()
			return
		}
		base[i] = b1
		usable[i] = b1 == b2
		for _, d := range foreignFields(b1, q.Owner) {
			key := fmt.Sprintf("load/%s/%s/foreign-when-alone", q.Shape, d.Field)
			if !seen[key] {
				seen[key] = true
				res.Mism = append(res.Mism, mismatch{Key: key, What: fmt.Sprintf("%s served ALONE on a fresh server answers %s = %q, which belongs to an earlier request %v of this process", q, d.Field, clip(d.Got, 200), d.Foreign)})
			}
		}
		if !usable[i] {
			res.BaselineBad = append(res.BaselineBad, fmt.Sprintf("%s: %+v vs %+v", q, b1, b2))
		}
	}
	w, err := newLoadedWorld()
	if err != nil {
		res.Fatal = err.Error()
		return
	}
	first := make([]int, k)
	for i := range first {
		first[i] = i
	}
	for wv, order := range [][]int{first, rd.Order} {
		obs := wave(w, rd.Reqs, order, rd.Sync)
		for i, q := range rd.Reqs {
			if !usable[i] {
				continue
			}
			res.Requests++
			if ownTokenCount(base[i], q.Owner) >= 3 {
				res.Nontrivial++
				if res.Sample == "" {
					res.Sample = fmt.Sprintf("%d in flight (sync=%v): %s -> %d %q", k, rd.Sync, q, base[i].Status, clip(base[i].Body, 160))
				}
			}
			for _, d := range diffObservation(obs[i], base[i], q.Owner) {
				key := fmt.Sprintf("load/%s/%s/%s", q.Shape, d.Field, d.Kind)
				if seen[key] {
					continue
				}
				seen[key] = true
				what := fmt.Sprintf("with %d requests in flight (wave %d, rendezvous=%v) the %s of %s is %q, alone on a fresh server it is %q", k, wv+1, rd.Sync, d.Field, q, clip(d.Got, 200), clip(d.Want, 200))
				if len(d.Foreign) > 0 {
					what += fmt.Sprintf("; the value belongs to request %v of the same wave", d.Foreign)
				}
				res.Mism = append(res.Mism, mismatch{Key: key, What: what})
			}
		}
	}
	w.mu.Lock()
	notes := append([]string{}, w.notes...)
	w.mu.Unlock()
	if len(notes) > 0 {
		res.BaselineBad = append(res.BaselineBad, "script notes: "+fmt.Sprint(notes))
	}
	return res
}
