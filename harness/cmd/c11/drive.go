package main

import (
	"encoding/json"
	"fmt"
	"os"
	"path/filepath"
	"sort"
	"strings"
	"sync"
	"time"

	"verif/lib"
)

// watchdog per child process; a firing is reported as inconclusive, never as a verdict
var procTimeout = 25 * time.Minute

type driver struct {
	e  *lib.Env
	mu sync.Mutex

	distinct lib.DistinctCounter
	samples  []any

	evals        int
	gateCells    int
	gateParked   int
	seqCells     int
	localCells   int
	deepCells    int
	cellSamples  map[string]int
	rounds       map[string]int // per binary
	requests     int
	nontrivReq   int
	maxInFlight  int
	baselineBad  int
	raceReports  int
	raceAttr     map[string]int
	raceOther    map[string]int
	raceLogsRead int
	children     int
	crashes      int
	jobSeq       int
}

func drive() {
	e := lib.Init("C11", "exploration")
	d := &driver{e: e, rounds: map[string]int{}, raceAttr: map[string]int{}, raceOther: map[string]int{}, cellSamples: map[string]int{}}
	e.Assume(
		"handlers do not share script state on purpose (no by-reference captures, no captured objects that are written, no static properties/locals, no properties of the shared middleware object): sharing those is by design; arrays and scalars captured BY VALUE (use ($x)) are per-call locals and are compared (shape s7)",
		"superglobals are read in the frame of the handler / middleware itself; a read inside a nested function call finds no request (the interpreter locates it through slot 0 of the current frame) and is outside the compared domain",
		"$request->attribute(key) cannot be read back from a script on this tree (the one-argument form fails its own parameter check), so request attributes are not observable and not compared",
		"'alone' = the same request on a fresh VM + freshly registered server in the same worker process with nothing else in flight, served twice; a request whose two solitary answers differ is not compared",
	)
	e.RunScriptWitnesses()
	if e.Quick() {
		procTimeout = 6 * time.Minute
	}

	// phase 1: scripted interleavings (gate) and sequential scenarios, plain build
	var jobs []job
	gc := allGateCells()
	for lo := 0; lo < len(gc); lo += 50 {
		hi := min(lo+50, len(gc))
		jobs = append(jobs, job{Kind: "gate", Gates: gc[lo:hi], Base: lo})
	}
	sc := allSeqCells()
	for lo := 0; lo < len(sc); lo += 10 {
		hi := min(lo+10, len(sc))
		jobs = append(jobs, job{Kind: "seq", Seqs: sc[lo:hi], Base: lo})
	}
	lc := allLocalCells()
	for lo := 0; lo < len(lc); lo += 30 {
		hi := min(lo+30, len(lc))
		jobs = append(jobs, job{Kind: "lgate", Locals: lc[lo:hi], Base: lo})
	}
	dc := allDeepCells()
	for lo := 0; lo < len(dc); lo += 5 {
		hi := min(lo+5, len(dc))
		jobs = append(jobs, job{Kind: "deep", Deeps: dc[lo:hi], Base: lo})
	}
	if !e.Quick() {
		// thorough: every cell a second time with the other request method (the cell index
		// fixes GET/POST by parity; the odd offset flips it and keeps owner tokens unique)
		for _, j := range append([]job{}, jobs...) {
			j.Base += 1001
			jobs = append(jobs, j)
		}
	}
	lib.ParallelMap(len(jobs), 0, func(i int) { d.runJob(jobs[i], "c11", 0) })

	// phase 2: seeded parallel load; superglobal reads are part of it unless an open finding
	// (whose gate cells were just observed to fail) quarantines them
	sg := !e.Quarantined("superglobals")
	e.Extra("load_reads_superglobals", sg)
	deepMethods := !e.Quarantined("deep-method-recursion-under-load")
	e.Extra("load_recurses_deep_in_methods", deepMethods)
	per := e.Pick(2, 20)
	procs := []int{16, 4, 2, 8, 1, 3}
	type lj struct {
		j     job
		bin   string
		procs int
	}
	var ljs []lj
	for _, bin := range []string{"c11-race", "c11"} {
		if _, err := os.Stat(e.Bin(bin)); err != nil {
			e.Inconclusive(bin + " binary missing: its load rounds were skipped")
			continue
		}
		r := e.Rand("load/" + bin)
		base, nRounds := 1, e.Pick(50, 1000) // the -race build costs ~10x per request
		if bin == "c11" {
			base, nRounds = 100001, e.Pick(50, 2000)
		}
		var rs []round
		for i := 0; i < nRounds; i++ {
			rs = append(rs, genRound(r, base+i, sg, deepMethods))
		}
		for lo := 0; lo < len(rs); lo += per {
			hi := min(lo+per, len(rs))
			ljs = append(ljs, lj{job{Kind: "load", Rounds: rs[lo:hi]}, bin, procs[(lo/per)%len(procs)]})
		}
	}
	lib.ParallelMap(len(ljs), 0, func(i int) { d.runJob(ljs[i].j, ljs[i].bin, ljs[i].procs) })

	e.Extra("gate_cells", d.gateCells)
	e.Extra("gate_and_local_cells_where_A_was_parked_while_B_ran", d.gateParked)
	e.Extra("sequential_cells", d.seqCells)
	e.Extra("local_state_gate_cells", d.localCells)
	e.Extra("deep_recursion_cells", d.deepCells)
	e.Extra("load_rounds", d.rounds)
	e.Extra("load_requests_compared", d.requests)
	e.Extra("load_requests_nontrivial", d.nontrivReq)
	e.Extra("max_in_flight", d.maxInFlight)
	e.Extra("baseline_not_reproducible", d.baselineBad)
	e.Extra("child_processes", d.children)
	e.Extra("child_crashes", d.crashes)
	e.Extra("race_logs_read", d.raceLogsRead)
	e.Extra("race_reports", d.raceReports)
	e.Extra("race_reports_attributed", d.raceAttr)
	e.Extra("unattributed_races", topN(d.raceOther, 25))
	e.Finish(lib.Coverage{
		Evaluations:        d.evals,
		DistinctNontrivial: d.distinct.N(),
		Rule:               "gate/sequential cell: both requests echo their own token when alone and (gate) A was really parked while B ran to completion; load round: >= 2 requests in flight and at least one compared request whose solitary answer echoes >= 3 of its own tokens",
		Samples:            d.samples,
		Exhaustive:         false,
	})
}

func topN(m map[string]int, n int) map[string]int {
	type kv struct {
		k string
		v int
	}
	var l []kv
	for k, v := range m {
		l = append(l, kv{k, v})
	}
	sort.Slice(l, func(i, j int) bool { return l[i].v > l[j].v || (l[i].v == l[j].v && l[i].k < l[j].k) })
	out := map[string]int{}
	for i, x := range l {
		if i >= n {
			break
		}
		out[x.k] = x.v
	}
	return out
}

func (j job) tail(from int) job {
	c := j
	switch j.Kind {
	case "load":
		c.Rounds = j.Rounds[from:]
	case "gate":
		c.Gates = j.Gates[from:]
		c.Base = j.Base + from
	case "seq":
		c.Seqs = j.Seqs[from:]
		c.Base = j.Base + from
	case "lgate":
		c.Locals = j.Locals[from:]
		c.Base = j.Base + from
	case "deep":
		c.Deeps = j.Deeps[from:]
		c.Base = j.Base + from
	}
	return c
}

func (j job) replayOf(name string) []byte {
	names := j.caseNames()
	for i, n := range names {
		if n != name {
			continue
		}
		one := j.tail(i)
		switch j.Kind {
		case "load":
			one.Rounds = one.Rounds[:1]
		case "gate":
			one.Gates = one.Gates[:1]
		case "seq":
			one.Seqs = one.Seqs[:1]
		case "lgate":
			one.Locals = one.Locals[:1]
		case "deep":
			one.Deeps = one.Deeps[:1]
		}
		b, _ := json.MarshalIndent(map[string]any{
			"property":  "C11",
			"reproduce": "cd /verif && ./check.sh C11 quick >/dev/null; .build/c11 replay <this file>   (.build/c11-race for the race detector)",
			"job":       one,
		}, "", " ")
		return append(b, '\n')
	}
	return []byte(name + "\n")
}

// runJob executes a job in child processes until every case has run or been attributed
// to a crash.
func (d *driver) runJob(j job, bin string, procs int) {
	e := d.e
	for len(j.caseNames()) > 0 {
		d.mu.Lock()
		d.jobSeq++
		d.children++
		id := d.jobSeq
		d.mu.Unlock()
		dir := filepath.Join(e.Scratch, fmt.Sprintf("job%d", id))
		_ = os.MkdirAll(dir, 0o755)
		jb, _ := json.Marshal(j)
		jobPath, outPath, logPath := filepath.Join(dir, "job.json"), filepath.Join(dir, "out.jsonl"), filepath.Join(dir, "cases.log")
		_ = os.WriteFile(jobPath, jb, 0o644)
		env := []string{"GORACE=halt_on_error=0 exitcode=0 log_path=" + filepath.Join(dir, "race")}
		if procs > 0 {
			env = append(env, fmt.Sprintf("GOMAXPROCS=%d", procs))
		}
		res := lib.RunProc(lib.ProcSpec{Argv: []string{e.Bin(bin), "worker", jobPath, outPath, logPath}, Dir: dir, Env: env, Timeout: procTimeout})
		lines, done := readOut(outPath)
		for _, l := range lines {
			d.absorb(j, bin, l)
		}
		d.absorbRaceLogs(dir, j, bin)
		next := -1
		if !done {
			culprit := unfinishedCase(logPath)
			names := j.caseNames()
			idx := -1
			for i, n := range names {
				if n == culprit {
					idx = i
				}
			}
			switch {
			case res.TimedOut:
				e.Inconclusive(fmt.Sprintf("watchdog fired on a %s batch (%s) in case %q", j.Kind, bin, culprit))
				if idx >= 0 {
					next = idx + 1
				}
			case idx >= 0:
				d.mu.Lock()
				d.crashes++
				d.evals++
				d.mu.Unlock()
				site := lib.PanicSite(res.Stderr)
				_, what := lib.GoCrash(res)
				first := ""
				for _, l := range strings.Split(res.Stderr, "\n") {
					if strings.HasPrefix(l, "fatal error:") || strings.HasPrefix(l, "panic:") {
						first = l
						break
					}
				}
				e.Violation("crash/"+site, fmt.Sprintf("the worker process died while serving case %s (%s build, exit %d %s): %s %s", culprit, bin, res.Exit, res.Signal, first, what), "json", j.replayOf(culprit))
				next = idx + 1
			default:
				e.Inconclusive(fmt.Sprintf("a %s batch (%s) ended without its end marker and without an open case (exit %d): %.300s", j.Kind, bin, res.Exit, res.Stderr))
			}
		}
		_ = os.RemoveAll(dir)
		if done || next < 0 {
			return
		}
		j = j.tail(next)
	}
}

func (d *driver) absorb(j job, bin string, l outLine) {
	e := d.e
	d.mu.Lock()
	defer d.mu.Unlock()
	switch {
	case l.Round != nil:
		r := l.Round
		if r.Fatal != "" {
			e.Inconclusive("round " + l.Case + " could not be set up: " + r.Fatal)
			return
		}
		d.rounds[bin]++
		d.evals += r.Requests
		d.requests += r.Requests
		d.nontrivReq += r.Nontrivial
		d.baselineBad += len(r.BaselineBad)
		for i, b := range r.BaselineBad {
			if i < 2 {
				e.Inconclusive("not compared: " + clip(b, 400))
			}
		}
		var k int
		for _, rd := range j.Rounds {
			if rd.ID == r.ID {
				k = len(rd.Reqs)
			}
		}
		if k > d.maxInFlight {
			d.maxInFlight = k
		}
		if r.Nontrivial > 0 && k >= 2 {
			d.distinct.Add(lib.Hash("round", bin, l.Case))
			if d.cellSamples["load/"+bin] < 3 && r.Sample != "" {
				d.cellSamples["load/"+bin]++
				d.samples = append(d.samples, bin+" "+l.Case+": "+r.Sample)
			}
		}
		for _, m := range r.Mism {
			e.Violation(m.Key, m.What+" ["+bin+" build, "+l.Case+"]", "json", j.replayOf(l.Case))
		}
	case l.Cell != nil:
		c := l.Cell
		if c.Fatal != "" {
			e.Inconclusive("cell " + l.Case + " could not be set up: " + c.Fatal)
			return
		}
		d.evals++
		if j.Kind == "gate" || j.Kind == "lgate" || j.Kind == "deep" {
			switch j.Kind {
			case "lgate":
				d.localCells++
			case "deep":
				d.deepCells++
			default:
				d.gateCells++
			}
			if c.Parked {
				d.gateParked++
			} else if len(c.Mism) == 0 {
				// a request that never reached its gate AND answered like alone: nothing was
				// interleaved (with a mismatch the early end is part of the violation)
				e.Inconclusive("gate cell " + l.Case + ": " + c.Note)
			}
		} else {
			d.seqCells++
		}
		if c.Nontrivial && c.Parked {
			d.distinct.Add(lib.Hash("cell", l.Case))
			if d.cellSamples[j.Kind] < 2 && (d.gateCells+d.seqCells+d.localCells)%7 == 1 {
				d.cellSamples[j.Kind]++
				d.samples = append(d.samples, c.Sample)
			}
		}
		for _, m := range c.Mism {
			e.Violation(m.Key, m.What, "json", j.replayOf(l.Case))
		}
	}
}

func (d *driver) absorbRaceLogs(dir string, j job, bin string) {
	logs, _ := filepath.Glob(filepath.Join(dir, "race.*"))
	for _, lf := range logs {
		b, err := os.ReadFile(lf)
		if err != nil {
			continue
		}
		d.mu.Lock()
		d.raceLogsRead++
		d.mu.Unlock()
		for _, rep := range parseRaceLog(string(b)) {
			sites, sig := classifyRace(rep, d.e.Repo)
			d.mu.Lock()
			d.raceReports++
			if len(sites) == 0 {
				d.raceOther[sig]++
			}
			for _, s := range sites {
				d.raceAttr[s]++
			}
			d.mu.Unlock()
			for _, s := range sites {
				jb, _ := json.Marshal(j)
				d.e.Violation("race@"+s, "the race detector reports unsynchronised conflicting accesses ("+sig+") while requests are served in parallel", "txt",
					[]byte(rep.Text+"\n\nobserved while running this batch with the -race build (.build/c11-race worker <job.json> out.jsonl cases.log):\n"+string(jb)+"\n"))
			}
		}
	}
}
