package main

import (
	"fmt"
	"strings"
)

// A deep cell: Parked requests of kind ParkKind are parked at the innermost frame of a
// recursion ParkDepth deep (each at its own gate); then the probe request recurses
// ProbeDepth deep and is served to completion; then the parked ones are released. Every
// answer must equal the answer of the same request alone: the call depth of other requests
// is not an input of a request.
type deepCell struct {
	ProbeKind  string
	ProbeDepth int
	ParkKind   string
	Parked     int
	ParkDepth  int
}

var recKinds = []string{"fn", "mutual", "method", "static", "closure"}

func countsAsMethod(kind string) bool { return kind == "method" || kind == "static" }

// methodFrames is the number of class-method frames alive when the probe is at its
// innermost frame (a predicate of the cell, not of its outcome).
func (c deepCell) methodFrames() int {
	n := 0
	if countsAsMethod(c.ParkKind) {
		n += c.Parked * (c.ParkDepth + 1)
	}
	if countsAsMethod(c.ProbeKind) {
		n += c.ProbeDepth + 1
	}
	return n
}

func (c deepCell) family() string {
	if c.methodFrames() > 500 {
		return "method-frames-over-500"
	}
	return "within-limits"
}

func (c deepCell) key() string {
	return fmt.Sprintf("deep/%s/probe=%s:%d/parked=%dx%s:%d", c.family(), c.ProbeKind, c.ProbeDepth, c.Parked, c.ParkKind, c.ParkDepth)
}

func recRequest(owner, kind string, depth int, method, gate string) reqSpec {
	q := stdRequest("rec", "s10", "/s10", method, owner, 2, [2]string{"X-Rec", kind}, [2]string{"X-Gate-Name", gate})
	q.Target += fmt.Sprintf("&d=%d", depth)
	return q
}

func runDeepCell(c deepCell, idx int) (res cellResult) {
	res.Key = c.key()
	method := "GET"
	if idx%2 == 1 {
		method = "POST"
	}
	round := 500000 + idx
	probe := recRequest(ownerOf(round, 0), c.ProbeKind, c.ProbeDepth, method, "none")
	var parked []reqSpec
	for i := 0; i < c.Parked; i++ {
		parked = append(parked, recRequest(ownerOf(round, i+1), c.ParkKind, c.ParkDepth, method, fmt.Sprintf("g%d", i)))
	}
	all := append([]reqSpec{probe}, parked...)
	base := make([]observation, len(all))
	res.Nontrivial = true
	var parts []string
	for i, q := range all {
		b, err := baseline(q) // gates not armed: verif_gate is a no-op
		if err != nil {
			res.Fatal = err.Error()
			return
		}
		base[i] = b
		if ownTokenCount(b, q.Owner) < 2 || b.Status != 200 {
			res.Nontrivial = false
		}
		for _, d := range foreignFields(b, q.Owner) {
			parts = append(parts, fmt.Sprintf("%s served ALONE answers %s = %q (belongs to %v)", q.Owner, d.Field, clip(d.Got, 60), d.Foreign))
		}
	}
	w, err := newLoadedWorld()
	if err != nil {
		res.Fatal = err.Error()
		return
	}
	got := make([]observation, len(all))
	type fin struct {
		i int
		o observation
	}
	done := make(chan fin, len(parked))
	var gates []*gate
	for i := range parked {
		gates = append(gates, w.gates.arm(fmt.Sprintf("g%d", i)))
	}
	for i := range parked {
		i := i
		go func() { done <- fin{i + 1, w.serve(parked[i])} }()
	}
	// wait until every parked request sits at its innermost frame (or has finished early)
	finished := map[int]bool{}
	res.Parked = true
	for i, g := range gates {
		for arrived := false; !arrived && !finished[i+1]; {
			select {
			case <-g.arrived:
				arrived = true
			case f := <-done:
				got[f.i] = f.o
				finished[f.i] = true
			}
		}
		if finished[i+1] {
			res.Parked = false
			res.Note += fmt.Sprintf(" parked request %d finished without reaching its gate: %s;", i+1, clip(got[i+1].Escaped+got[i+1].Body, 80))
		}
	}
	got[0] = w.serve(probe)
	for _, g := range gates {
		close(g.release)
	}
	for len(finished) < len(parked) {
		f := <-done
		got[f.i] = f.o
		finished[f.i] = true
	}
	bad := 0
	for i, q := range all {
		ds := diffObservation(got[i], base[i], q.Owner)
		if len(ds) == 0 {
			continue
		}
		bad++
		if bad <= 3 {
			who := "probe"
			if i > 0 {
				who = fmt.Sprintf("parked request %d", i)
			}
			for _, d := range ds {
				parts = append(parts, fmt.Sprintf("%s: %s is %q, alone it is %q", who, d.Field, clip(d.Got, 90), clip(d.Want, 60)))
			}
		}
	}
	if len(parts) > 0 {
		res.Mism = append(res.Mism, mismatch{Key: res.Key, What: fmt.Sprintf("%d requests (%s recursion, depth %d) parked at their innermost frame while the probe %s recurses %d deep (%s): %d of %d answers differ from the solitary ones: %s",
			c.Parked, c.ParkKind, c.ParkDepth, probe, c.ProbeDepth, c.ProbeKind, bad, len(all), strings.Join(parts, "; "))})
	}
	res.Sample = fmt.Sprintf("%s: probe alone %d %q", res.Key, base[0].Status, clip(base[0].Body, 60))
	return res
}

// allDeepCells: every probe kind x parked kind for three shapes of load whose frame totals
// are well away from 500 on either side (class-method frames in flight: 0..448 or 525..791):
// many shallow, some medium, few deep parked requests.
func allDeepCells() []deepCell {
	var out []deepCell
	for _, cfg := range [][3]int{{25, 20, 40}, {8, 55, 100}, {60, 8, 250}} {
		for _, pk := range recKinds {
			for _, qk := range recKinds {
				out = append(out, deepCell{ProbeKind: qk, ProbeDepth: cfg[2], ParkKind: pk, Parked: cfg[0], ParkDepth: cfg[1]})
			}
		}
	}
	return out
}
