package main

import "strings"

// source is one way a handler can read request data. Superglobal reads must stand in the
// frame of the handler / middleware itself (the interpreter finds the request through
// slot 0 of the current frame), request-object reads go through c11_read().
type source struct {
	Name string // key used in violation keys
	Code string // selector sent in X-Src
	Expr string // script expression for superglobals ("" = accessor, read by c11_read)
	SG   bool
}

var sources = []source{
	{"$_GET[t]", "G", "$_GET['t']", true},
	{"$_POST[f]", "P", "$_POST['f']", true},
	{"$_COOKIE[ck]", "C", "$_COOKIE['ck']", true},
	{"$_SERVER[HTTP_X_TOK]", "S", "$_SERVER['HTTP_X_TOK']", true},
	{"$_SERVER[QUERY_STRING]", "Sq", "$_SERVER['QUERY_STRING']", true},
	{"$_REQUEST[t]", "R", "$_REQUEST['t']", true},
	{"$_REQUEST[f]", "Rf", "$_REQUEST['f']", true},
	{"$_REQUEST[ck]", "Rc", "$_REQUEST['ck']", true},
	{"query()->t", "q", "", false},
	{"input(t)", "in", "", false},
	{"all()->t", "all", "", false},
	{"formValue(f)", "fv", "", false},
	{"postFormValue(f)", "pfv", "", false},
	{"cookie(ck)", "ck", "", false},
	{"header(X-Tok)", "hd", "", false},
	{"userAgent()", "ua", "", false},
	{"referer()", "ref", "", false},
	{"url()", "url", "", false},
	{"path()", "path", "", false},
	{"pathValue(id)", "pv", "", false},
}

func sourceByCode(c string) *source {
	for i := range sources {
		if sources[i].Code == c {
			return &sources[i]
		}
	}
	return nil
}

// readChain renders "read the source selected by $src into $dst" for the current frame;
// req is the name of the frame's request variable (which must be the frame's first
// parameter).
func readChain(dst, req string) string {
	var b strings.Builder
	b.WriteString(dst + " = '?';\n")
	first := true
	for _, s := range sources {
		if !s.SG {
			continue
		}
		kw := "elseif"
		if first {
			kw = "if"
			first = false
		}
		b.WriteString("    " + kw + " ($src == '" + s.Code + "') { " + dst + " = '' . " + s.Expr + "; }\n")
	}
	b.WriteString("    else { " + dst + " = c11_read(" + req + ", $src); }\n")
	return b.String()
}

// handlerScript is the registration script: six load shapes (servers plain, mw, err),
// the gate route and the sequential-scenario routes.
func handlerScript() string {
	s := scriptText
	s = strings.ReplaceAll(s, "/*READ_A_R*/", readChain("$a", "$r"))
	s = strings.ReplaceAll(s, "/*READ_B_R*/", readChain("$b", "$r"))
	s = strings.ReplaceAll(s, "/*READ_A_REQ*/", readChain("$a", "$request"))
	s = strings.ReplaceAll(s, "/*READ_B_REQ*/", readChain("$b", "$request"))
	return s
}

const scriptText = `<?php
use Net\Http\Server;

class C11Item {
    public $k;
    public $v;
    public function __construct($k, $v) { $this->k = $k; $this->v = $v; }
    public function render() { return $this->k . ':' . $this->v; }
}
class C11Bag {
    public $items = [];
    public $owner;
    public function __construct($owner) { $this->owner = $owner; }
    public function put($k, $v) { $this->items[] = new C11Item($k, $v); return $this; }
    public function size() { return count($this->items); }
    public function render() {
        $p = [];
        foreach ($this->items as $it) { $p[] = $it->render(); }
        return $this->owner . '{' . implode(',', $p) . '}';
    }
}
function c11_rep($s, $n) {
    $o = '';
    for ($i = 0; $i < $n; $i++) { $o = $o . $s . $i; verif_yield(); }
    return $o;
}
function c11_rec($s, $n) {
    if ($n <= 0) { return $s; }
    verif_yield();
    return '(' . c11_rec($s, $n - 1) . ')';
}
function c11_mk($tok) {
    return function ($x) use ($tok) { return $tok . '/' . $x; };
}
function c11_fold($arr, $f) {
    $acc = '';
    foreach ($arr as $x) { $acc = $f($acc, $x); verif_yield(); }
    return $acc;
}
function c11_cookie($r) {
    $c = $r->cookie('ck');
    return '' . $c[0];
}

$plain = new Server('127.0.0.1', 0);

// shape 1: locals and loops
$h1 = function ($r, $w) {
    $r->parseForm();
    $out = [];
    $sg = $r->header('X-Sg');
    $n = (int)$r->input('n');
    $q = $r->query();
    $t = $q->t;
    $out[] = 'q=' . $t;
    if ($sg == '1') { $out[] = 'G1=' . $_GET['t']; $out[] = 'S1=' . $_SERVER['HTTP_X_TOK']; }
    $hd = $r->header('X-Tok');
    $acc = '';
    $i = 0;
    while ($i < $n) {
        $acc = $acc . $hd . '#' . $i . ';';
        $i = $i + 1;
        verif_yield();
    }
    $out[] = 'while=' . $acc;
    verif_sync($r->header('X-Tok'));
    $out[] = 'rep=' . c11_rep($r->pathValue('id'), $n);
    $out[] = 'ua=' . $r->userAgent();
    $out[] = 'ck=' . c11_cookie($r);
    $out[] = 'fv=' . $r->formValue('f');
    $sum = 0;
    for ($j = 1; $j <= $n; $j++) { $sum += $j * strlen($t); }
    $out[] = 'sum=' . $sum;
    if ($sg == '1') { $out[] = 'G2=' . $_GET['t']; $out[] = 'C2=' . $_COOKIE['ck']; $out[] = 'R2=' . $_REQUEST['t']; }
    $out[] = 'q2=' . $r->query()->t;
    $w->status(200 + $n);
    $w->header('X-Echo', $hd);
    $w->header('X-Path', $r->path());
    $w->write(implode("\n", $out));
};
$plain->get('/s1/{id}', $h1);
$plain->post('/s1/{id}', $h1);

// shape 2: arrays
$h2 = function ($r, $w) {
    $r->parseForm();
    $sg = $r->header('X-Sg');
    $n = (int)$r->input('n');
    $vals = [];
    $vals[] = $r->input('t');
    $vals[] = $r->header('X-Tok');
    $vals[] = $r->userAgent();
    $vals[] = $r->pathValue('id');
    $vals[] = $r->formValue('f');
    if ($sg == '1') { $vals[] = $_GET['t']; $vals[] = $_POST['f']; $vals[] = $_COOKIE['ck']; }
    $map = ['t' => $vals[0], 'h' => $vals[1]];
    $map['u'] = $vals[2];
    $grid = [];
    for ($i = 0; $i < $n; $i++) {
        $row = [];
        foreach ($vals as $k => $v) { $row[] = $v . '.' . $i . '.' . $k; }
        $grid[] = $row;
        verif_yield();
    }
    verif_sync($r->header('X-Tok'));
    $copy = $vals;
    $copy[0] = 'changed';
    $lines = [];
    foreach ($grid as $row) { $lines[] = implode('|', $row); }
    $rev = array_reverse($vals);
    if ($sg == '1') { $rev[] = $_SERVER['QUERY_STRING']; $rev[] = $_REQUEST['t']; $rev[] = $_GET['t']; }
    $w->header('X-Echo', $map['h']);
    $w->header('X-Count', '' . count($grid));
    $w->json(['first' => $vals[0], 'copy0' => $copy[0], 'map' => $map, 'lines' => $lines, 'rev' => $rev, 'all_t' => $r->all()->t]);
};
$plain->get('/s2/{id}', $h2);
$plain->post('/s2/{id}', $h2);

// shape 3: objects and nested calls
$h3 = function ($r, $w) {
    $r->parseForm();
    $sg = $r->header('X-Sg');
    $n = (int)$r->input('n');
    $bag = new C11Bag($r->header('X-Tok'));
    $bag->put('t', $r->input('t'))->put('id', $r->pathValue('id'));
    if ($sg == '1') { $bag->put('G', $_GET['t'])->put('S', $_SERVER['REQUEST_URI']); }
    for ($i = 0; $i < $n; $i++) {
        $bag->put('i' . $i, c11_rec($r->userAgent(), $i));
    }
    verif_sync($r->header('X-Tok'));
    $other = new C11Bag('o');
    $other->put('f', $r->formValue('f'));
    if ($sg == '1') { $other->put('P', $_POST['f'])->put('C', $_COOKIE['ck'])->put('G', $_GET['t']); }
    $other->put('ck', c11_cookie($r));
    $w->status(210 + $bag->size());
    $w->header('X-Echo', $bag->owner);
    $w->write($bag->render() . "\n" . $other->render() . "\n" . c11_rec($r->referer(), $n));
};
$plain->get('/s3/{id}', $h3);
$plain->post('/s3/{id}', $h3);

// shape 4: closures
$h4 = function ($r, $w) {
    $r->parseForm();
    $sg = $r->header('X-Sg');
    $n = (int)$r->input('n');
    $tok = $r->header('X-Tok');
    $t = $r->input('t');
    $sgv = '';
    if ($sg == '1') { $sgv = $_GET['t'] . '~' . $_REQUEST['t']; }
    $join = function ($acc, $x) use ($tok) { return $acc . '[' . $x . '@' . $tok . ']'; };
    $arrow = fn($x) => $x . '^' . $t;
    $made = c11_mk($r->pathValue('id'));
    $parts = [];
    for ($i = 0; $i < $n; $i++) { $parts[] = $arrow('a' . $i); }
    $out = [];
    $out[] = 'fold=' . c11_fold($parts, $join);
    verif_sync($r->header('X-Tok'));
    $out[] = 'made=' . $made($r->userAgent());
    $counter = 0;
    $inc = function () use (&$counter, $tok) { $counter = $counter + 1; return $tok . $counter; };
    $seq = '';
    for ($i = 0; $i < $n; $i++) { $seq = $seq . $inc() . ','; }
    $out[] = 'seq=' . $seq;
    $out[] = 'counter=' . $counter;
    if ($sg == '1') { $out[] = 'sgv=' . $sgv . '~' . $_GET['t'] . '~' . $_SERVER['HTTP_X_TOK']; }
    $out[] = 'fv=' . $r->formValue('f');
    $w->header('X-Echo', $made('e'));
    $w->write(implode("\n", $out));
};
$plain->get('/s4/{id}', $h4);
$plain->post('/s4/{id}', $h4);
verif_server('plain', $plain);

// shape 5: middlewares around a handler
class C11Mw {
    public function handle($request, $response, $next) {
        $tok = $request->header('X-Tok');
        $response->header('X-Mw-Class', $tok);
        verif_yield();
        $next($request, $response);
        $response->write("\nclass-after=" . $tok . '/' . $request->userAgent());
    }
}
$mw = new Server('127.0.0.1', 0);
$mw->middleware(function ($request, $response, $next) {
    $id = $request->pathValue('id');
    $response->header('X-Mw-Closure', $id);
    verif_yield();
    $next($request, $response);
    $response->write("\nclosure-after=" . $id . '/' . $request->input('t'));
}, 1);
$mw->middleware(new C11Mw(), 2);
$h5 = function ($r, $w) {
    $r->parseForm();
    $sg = $r->header('X-Sg');
    $n = (int)$r->input('n');
    $out = [];
    $out[] = 'f=' . $r->postFormValue('f');
    $out[] = 'g=' . $r->input('g');
    if ($sg == '1') { $out[] = 'P1=' . $_POST['f']; $out[] = 'G1=' . $_GET['t']; }
    verif_sync($r->header('X-Tok'));
    $out[] = 'rep=' . c11_rep($r->header('X-Tok'), $n);
    if ($sg == '1') { $out[] = 'P2=' . $_POST['f']; $out[] = 'R2=' . $_REQUEST['f']; $out[] = 'S2=' . $_SERVER['HTTP_X_TOK']; }
    $w->status(220 + $n);
    $w->write(implode("\n", $out));
};
$mw->post('/s5/{id}', $h5);
$mw->get('/s5/{id}', $h5);
verif_server('mw', $mw);

// shape 6: a handler that throws; onError answers
$err = new Server('127.0.0.1', 0);
$err->onError(function ($request, $response, $error) {
    $response->status(500);
    $response->header('X-Err', $request->header('X-Tok'));
    $response->write('error=' . $error . ' for ' . $request->input('t'));
});
$h6 = function ($r, $w) {
    $r->parseForm();
    $sg = $r->header('X-Sg');
    $n = (int)$r->input('n');
    $pre = 'pre=' . $r->input('t');
    if ($sg == '1') { $pre = $pre . '/' . $_GET['t'] . '/' . $_COOKIE['ck']; }
    verif_sync($r->header('X-Tok'));
    if ($n % 2 == 1) {
        throw new Exception('boom-' . $r->header('X-Tok') . '-' . c11_rep($r->pathValue('id'), $n));
    }
    if ($sg == '1') { $pre = $pre . '/' . $_GET['t']; }
    $w->header('X-Echo', $r->header('X-Tok'));
    $w->write($pre . "\nok=" . $r->userAgent());
};
$err->get('/s6/{id}', $h6);
$err->post('/s6/{id}', $h6);
verif_server('err', $err);

function c11_read($r, $src) {
    if ($src == 'q') { return '' . $r->query()->t; }
    if ($src == 'in') { return '' . $r->input('t'); }
    if ($src == 'all') { return '' . $r->all()->t; }
    if ($src == 'fv') { return '' . $r->formValue('f'); }
    if ($src == 'pfv') { return '' . $r->postFormValue('f'); }
    if ($src == 'ck') { return c11_cookie($r); }
    if ($src == 'hd') { return '' . $r->header('X-Tok'); }
    if ($src == 'ua') { return '' . $r->userAgent(); }
    if ($src == 'ref') { return '' . $r->referer(); }
    if ($src == 'url') { return '' . $r->url(); }
    if ($src == 'path') { return '' . $r->path(); }
    if ($src == 'pv') { return '' . $r->pathValue('id'); }
    verif_note('unknown source ' . $src);
    return '?';
}

// gate route: two reads of the selected source with a gate before the first (early) or
// between them (mid)
$gs = new Server('127.0.0.1', 0);
$gate = function ($r, $w) {
    $r->parseForm();
    $src = $r->header('X-Src');
    $pos = $r->header('X-Gate');
    if ($pos == 'early') { verif_gate($r->header('X-Gate-Name')); }
    /*READ_A_R*/
    if ($pos == 'mid') { verif_gate($r->header('X-Gate-Name')); }
    /*READ_B_R*/
    $w->header('X-First', $a);
    $w->write('first=' . $a . "\nsecond=" . $b);
};
$gs->post('/gate/{id}', $gate);
$gs->get('/gate/{id}', $gate);
verif_server('gate', $gs);

// sequential scenarios: the selected source read in the handler, in a closure middleware
// and in a class middleware (before and after $next), and in onError
class C11SrcMw {
    public function handle($request, $response, $next) {
        $src = $request->header('X-Src');
        /*READ_A_REQ*/
        $response->header('X-Class-Before', $a);
        $next($request, $response);
        /*READ_B_REQ*/
        $response->write("\nclass-after=" . $b);
    }
}
$ss = new Server('127.0.0.1', 0);
$ss->middleware(function ($request, $response, $next) {
    $src = $request->header('X-Src');
    /*READ_A_REQ*/
    $response->header('X-Closure-Before', $a);
    $next($request, $response);
    /*READ_B_REQ*/
    $response->write("\nclosure-after=" . $b);
}, 1);
$ss->middleware(new C11SrcMw(), 2);
$seq = function ($r, $w) {
    $r->parseForm();
    $src = $r->header('X-Src');
    /*READ_A_R*/
    $w->header('X-Handler', $a);
    $w->write('handler=' . $a);
    if ($r->header('X-Throw') == '1') { throw new Exception('seq-' . $a); }
};
$ss->post('/seq/{id}', $seq);
$ss->get('/seq/{id}', $seq);
verif_server('seq', $ss);

// the same handler throwing, behind a class middleware only (a closure middleware swallows
// the throw), answered by onError
$se = new Server('127.0.0.1', 0);
$se->onError(function ($request, $response, $error) {
    $src = $request->header('X-Src');
    /*READ_A_REQ*/
    $response->status(500);
    $response->write("\nonerror=" . $a . ' error=' . $error);
});
$se->middleware(new C11SrcMw(), 2);
$se->post('/seq/{id}', $seq);
$se->get('/seq/{id}', $seq);
verif_server('seqerr', $se);

// local-state gate route: the handler builds request-local state of the selected kind,
// parks at the gate, then answers from that state
class C11Ex extends Exception {}
class C11Gated {
    public $tok;
    public function __construct($tok) { $this->tok = $tok; }
    public function run($name, $n) {
        $acc = [];
        for ($i = 0; $i < $n; $i++) {
            $acc[] = $this->tok . $i;
            if ($i == 1) { verif_gate($name); }
        }
        return implode('+', $acc);
    }
}
function c11_gated($tok, $name, $depth) {
    $mine = 'L' . $depth . $tok;
    if ($depth <= 0) { verif_gate($name); return $mine; }
    $below = c11_gated($tok, $name, $depth - 1);
    return $mine . '<' . $below;
}
function c11_thrower($tok, $name) {
    $e = new RuntimeException('inner-' . $tok);
    verif_gate($name);
    throw $e;
}
$ls = new Server('127.0.0.1', 0);
$ls->onError(function ($request, $response, $error) {
    $response->status(500);
    $response->write('error=' . $error);
});
$c11defaults = ['limit' => 10, 'tags' => ['base'], 'seen' => [], 'nest' => ['a' => ['x']]];
$c11flat = ['f0'];
$c11label = 'L';
$c11count = 5;
$lg = function ($r, $w) use ($c11defaults, $c11flat, $c11label, $c11count) {
    $kind = $r->header('X-Kind');
    $tok = $r->header('X-Tok');
    $name = $r->header('X-Gate-Name');
    if ($kind == 'exc') { $e = new Exception('m-' . $tok); verif_gate($name); throw $e; }
    if ($kind == 'rexc') { $e = new RuntimeException('m-' . $tok); verif_gate($name); throw $e; }
    if ($kind == 'iexc') { $e = new InvalidArgumentException('m-' . $tok); verif_gate($name); throw $e; }
    if ($kind == 'uexc') { $e = new C11Ex('m-' . $tok); verif_gate($name); throw $e; }
    if ($kind == 'excmsg') { $e = new Exception('m-' . $tok); verif_gate($name); $w->write('msg=' . $e->getMessage()); return; }
    if ($kind == 'catch') {
        try { c11_thrower($tok, $name); } catch (RuntimeException $x) { $w->write('caught=' . $x->getMessage()); }
        return;
    }
    if ($kind == 'obj') {
        $o = new C11Bag($tok);
        $o->put('k', $tok);
        verif_gate($name);
        $o->put('l', $r->userAgent());
        $w->write('obj=' . $o->render());
        return;
    }
    if ($kind == 'arr') {
        $a = [$tok, 'x'];
        $m = ['k' => $tok];
        verif_gate($name);
        $a[] = $r->userAgent();
        $m['u'] = $a[0];
        $w->write('arr=' . implode(',', $a) . ';' . $m['k'] . ';' . $m['u']);
        return;
    }
    if ($kind == 'clo') {
        $f = c11_mk($tok);
        $n = 0;
        $g = function () use (&$n, $tok) { $n = $n + 1; return $tok . $n; };
        $g();
        verif_gate($name);
        $w->write('clo=' . $f('x') . ';' . $g() . ';' . $n);
        return;
    }
    if ($kind == 'loop') {
        $acc = '';
        for ($i = 0; $i < 4; $i++) {
            $acc = $acc . $tok . $i . ',';
            if ($i == 1) { verif_gate($name); }
        }
        $w->write('loop=' . $acc);
        return;
    }
    if ($kind == 'func') { $w->write('func=' . c11_gated($tok, $name, 3)); return; }
    if ($kind == 'method') { $o = new C11Gated($tok); $w->write('method=' . $o->run($name, 4)); return; }
    if ($kind == 'resp') {
        $w->status(203);
        $w->header('X-Mine', $tok);
        $w->write('before=' . $tok);
        verif_gate($name);
        $w->header('X-Late', $tok);
        $w->write(';after=' . $tok);
        return;
    }
    if ($kind == 'capl') {
        // by-value captures of the handler closure are locals of this call
        $c11defaults['tags'][] = $tok;
        $c11defaults['nest']['a'][] = $tok;
        $c11defaults['limit'] = $tok;
        $c11flat[] = $tok;
        $c11flat[0] = 'h' . $tok;
        $c11label .= '-' . $tok;
        $c11count++;
        verif_gate($name);
        $c11defaults['seen'][] = $r->userAgent();
        $c11flat[] = 'z';
        $c11count++;
        $w->write('capl=' . implode(',', $c11defaults['tags']) . ';' . implode(',', $c11defaults['nest']['a']) . ';' . $c11defaults['limit'] . ';' . implode(',', $c11defaults['seen']) . ';' . implode(',', $c11flat) . ';' . $c11label . ';' . $c11count);
        return;
    }
    verif_note('unknown kind ' . $kind);
};
$ls->get('/lgate/{id}', $lg);
$ls->post('/lgate/{id}', $lg);
verif_server('lgate', $ls);

// the same handler behind the two echoing middlewares of shape 5 (their frames are
// request-local state too)
$lm = new Server('127.0.0.1', 0);
$lm->middleware(function ($request, $response, $next) {
    $id = $request->pathValue('id');
    $response->header('X-Mw-Closure', $id);
    $next($request, $response);
    $response->write(";closure-after=" . $id . '/' . $request->input('t'));
}, 1);
$lm->middleware(new C11Mw(), 2);
$lm->get('/lgate/{id}', $lg);
$lm->post('/lgate/{id}', $lg);
verif_server('lgatemw', $lm);

// shape 7: handler, closure middleware and a start-up helper closure that capture arrays
// (flat, nested, keyed) and scalars BY VALUE and write to them: every call works on its own
// copies
$c11helper = function ($tok, $n) use ($c11flat, $c11count) {
    for ($i = 0; $i < $n; $i++) { $c11flat[] = $tok . $i; $c11count++; }
    $c11flat[0] = 'q' . $tok;
    return implode(',', $c11flat) . '#' . $c11count;
};
$cs = new Server('127.0.0.1', 0);
$cs->middleware(function ($request, $response, $next) use ($c11flat, $c11label, $c11count, $c11defaults) {
    $tok = $request->header('X-Tok');
    $c11flat[] = $tok;
    $c11flat[0] = 'm' . $tok;
    $c11label .= '+' . $tok;
    $c11count++;
    $c11defaults['nest']['m'] = [$tok];
    $c11defaults['tags'][] = 'mw' . $tok;
    $response->header('X-Mw-Cap', implode(',', $c11flat) . '|' . $c11label . '|' . $c11count . '|' . implode(',', $c11defaults['tags']));
    verif_yield();
    $next($request, $response);
    $c11flat[] = 'after';
    $c11count += 2;
    $response->write("\nmw-after=" . implode(',', $c11flat) . '|' . $c11label . '|' . $c11count . '|' . implode(',', $c11defaults['nest']['m']));
}, 1);
$h7 = function ($r, $w) use ($c11defaults, $c11flat, $c11label, $c11count, $c11helper) {
    $tok = $r->header('X-Tok');
    $n = (int)$r->input('n');
    $c11defaults['limit'] = $n;
    $c11defaults['tags'][] = $tok;
    $c11defaults['nest']['a'][] = $r->pathValue('id');
    $c11defaults['nest']['b'] = [$r->input('t')];
    for ($i = 0; $i < $n; $i++) { $c11defaults['seen'][] = $tok . $i; verif_yield(); }
    $c11flat[] = $tok;
    $c11flat[0] = 'h' . $tok;
    $c11label .= '-' . $tok;
    $c11count++;
    verif_sync($tok);
    verif_gate($r->header('X-Gate-Name'));
    $c11defaults['tags'][] = $r->userAgent();
    $c11flat[] = 'late';
    $c11label = $c11label . '!';
    $c11count = $c11count + $n;
    $out = [];
    $out[] = 'limit=' . $c11defaults['limit'];
    $out[] = 'tags=' . implode(',', $c11defaults['tags']);
    $out[] = 'nest=' . implode(',', $c11defaults['nest']['a']) . '/' . implode(',', $c11defaults['nest']['b']);
    $out[] = 'seen=' . count($c11defaults['seen']) . ':' . implode(',', $c11defaults['seen']);
    $out[] = 'flat=' . implode(',', $c11flat);
    $out[] = 'label=' . $c11label;
    $out[] = 'count=' . $c11count;
    $out[] = 'helper=' . $c11helper($tok, $n);
    $w->header('X-Tags', implode(',', $c11defaults['tags']));
    $w->status(230 + count($c11defaults['tags']) + count($c11flat));
    $w->write(implode("\n", $out));
};
$cs->get('/s7/{id}', $h7);
$cs->post('/s7/{id}', $h7);
verif_server('cap', $cs);

// shape 8: one object per request, built from request data; its methods run capture-less
// closures / arrow fns / callbacks that use $this
class C11Calc {
    public $tok;
    public $dir;
    public $items = [];
    public function __construct($tok, $dir) { $this->tok = $tok; $this->dir = $dir; }
    public function add($x) { $this->items[] = $x; return $this; }
    public function lines() { return array_map(fn($x) => $x . '@' . $this->tok, $this->items); }
    public function sorted() {
        $c = $this->items;
        usort($c, function ($a, $b) { return ($a <=> $b) * $this->dir; });
        return $c;
    }
    public function getter() { return function () { return 'g:' . $this->tok . ':' . count($this->items); }; }
    public function each2() {
        $out = [];
        foreach ($this->items as $it) {
            $f = fn($y) => $this->tok . '/' . $y;
            $out[] = $f($it);
            verif_yield();
        }
        return $out;
    }
    public function kept() {
        $r = array_filter($this->items, function ($x) { return $x === ($this->tok . 'i1'); });
        $o = [];
        foreach ($r as $k => $v) { $o[] = $k . '>' . $v; }
        $o[] = 'n' . count($r);
        return $o;
    }
    public function folded() { return array_reduce($this->items, function ($acc, $x) { return $acc . $this->tok . ':' . $x . ';'; }, ''); }
    public function nested() {
        $outer = function () { $inner = fn($z) => $z . '~' . $this->tok; return $inner('n'); };
        return $outer();
    }
}
$os = new Server('127.0.0.1', 0);
$h8 = function ($r, $w) {
    $tok = $r->header('X-Tok');
    $n = (int)$r->input('n');
    $c = new C11Calc($tok, $n % 2 == 0 ? 1 : -1);
    $c->add($r->input('t') . 'i2')->add($tok . 'i1')->add($r->pathValue('id') . 'i3');
    for ($i = 0; $i < $n; $i++) { $c->add($r->userAgent() . 'x' . $i); }
    $g = $c->getter();
    $out = [];
    $out[] = 'lines=' . implode(',', $c->lines());
    verif_sync($tok);
    verif_gate($r->header('X-Gate-Name'));
    $out[] = 'sorted=' . implode(',', $c->sorted());
    $out[] = 'getter=' . $g();
    $out[] = 'each=' . implode(',', $c->each2());
    $out[] = 'kept=' . implode(',', $c->kept());
    $out[] = 'folded=' . $c->folded();
    $out[] = 'nested=' . $c->nested();
    $out[] = 'lines2=' . implode(',', $c->lines());
    $w->header('X-Getter', $g());
    $w->status(240 + count($c->items));
    $w->write(implode("\n", $out));
};
$os->get('/s8/{id}', $h8);
$os->post('/s8/{id}', $h8);
verif_server('obj', $os);

// shape 9: boot-time state (properties of a service object, a static property, globals
// captured by value) whose arrays were normalised at boot with foreach-by-reference; every
// request takes by-value copies and writes to them, the originals must stay untouched
class C11Catalog {
    public $rows = [];
    public $prices = [];
    public $plain = [];
    public static $table = ['a' => 1, 'b' => 2, 'c' => 3];
    public static $codes = [7, 8, 9];
    public function __construct() {
        $this->rows = [['sku' => 'pen', 'v' => 1], ['sku' => 'ink', 'v' => 5], ['sku' => 'pad', 'v' => 9]];
        $this->prices = ['pen' => 1, 'ink' => 5, 'pad' => 9];
        $this->plain = [3, 4, 5];
        foreach ($this->rows as &$row) { $row['v'] = $row['v'] * 100; }
        unset($row);
        foreach ($this->prices as &$p) { $p = $p * 100; }
        unset($p);
        foreach ($this->plain as &$q) { $q = $q * 2; }
        unset($q);
    }
    public static function boot() {
        foreach (self::$table as &$t) { $t = $t * 10; }
        unset($t);
        foreach (self::$codes as &$c) { $c = $c + 1; }
        unset($c);
    }
    // works on a by-value copy of the shared rows
    public function quote($tok, $name) {
        $rows = $this->rows;
        for ($i = 0; $i < count($rows); $i++) { $rows[$i]['v'] = $rows[$i]['v'] . $tok; }
        $rows[0]['sku'] = 'pen' . $tok;
        verif_gate($name);
        $o = [];
        foreach ($rows as $row) { $o[] = $row['sku'] . '=' . $row['v']; }
        return implode(' ', $o);
    }
    public function origRows() {
        $o = [];
        foreach ($this->rows as $row) { $o[] = $row['sku'] . '=' . $row['v']; }
        return implode(' ', $o);
    }
}
C11Catalog::boot();
$c11cat = new C11Catalog();
$c11boot = ['x' => 'bx', 'y' => 'by', 'z' => 'bz'];
foreach ($c11boot as &$c11bv) { $c11bv = strtoupper($c11bv); }
unset($c11bv);
$c11list = [1, 2, 3];
foreach ($c11list as &$c11lv) { $c11lv = $c11lv * 2; }
unset($c11lv);
$c11grid = [[1, 2], [3, 4], [5, 6]];
foreach ($c11grid as &$c11gr) { $c11gr[0] = $c11gr[0] * 10; }
unset($c11gr);
function c11_kv($a) {
    $o = [];
    foreach ($a as $k => $v) { $o[] = $k . ':' . $v; }
    return implode(',', $o);
}
$bs = new Server('127.0.0.1', 0);
$bs->middleware(function ($request, $response, $next) use ($c11cat, $c11list) {
    $tok = $request->header('X-Tok');
    $mine = $c11cat->plain;
    $mine[0] = $tok;
    $mine[1] = $mine[1] . $tok;
    $c11list[0] = 'm' . $tok;
    $response->header('X-Mw-Boot', implode(',', $mine) . '|' . implode(',', $c11list));
    $next($request, $response);
    $response->write("\nmw-after=" . implode(',', $mine) . '|' . implode(',', $c11list) . '|' . implode(',', $c11cat->plain));
}, 1);
$h9 = function ($r, $w) use ($c11cat, $c11boot, $c11list, $c11grid) {
    $tok = $r->header('X-Tok');
    $n = (int)$r->input('n');
    $prices = $c11cat->prices;
    $prices['pen'] = $prices['pen'] . $tok;
    $prices['ink'] = $r->input('t');
    $t = C11Catalog::$table;
    $t['a'] = $tok;
    $t['b'] = $t['b'] . $r->pathValue('id');
    $codes = C11Catalog::$codes;
    $codes[0] = $tok;
    $codes[1] = $codes[1] . $tok;
    $c11boot['x'] = $tok;
    $c11boot['y'] .= $r->userAgent();
    $c11list[0] = $tok;
    $c11list[1] = $c11list[1] . $tok;
    $c11grid[0][1] = $tok;
    $c11grid[1][0] = $c11grid[1][0] . $tok;
    for ($i = 0; $i < $n; $i++) { $c11list[] = $tok . $i; }
    verif_sync($tok);
    $out = [];
    $out[] = 'rows=' . $c11cat->quote($tok, $r->header('X-Gate-Name'));
    $out[] = 'orig=' . $c11cat->origRows();
    $out[] = 'prices=' . c11_kv($prices);
    $out[] = 'origp=' . c11_kv($c11cat->prices);
    $out[] = 'table=' . c11_kv($t);
    $out[] = 'origt=' . c11_kv(C11Catalog::$table);
    $out[] = 'codes=' . implode(',', $codes);
    $out[] = 'origc=' . implode(',', C11Catalog::$codes);
    $out[] = 'boot=' . c11_kv($c11boot);
    $out[] = 'list=' . implode(',', $c11list);
    $out[] = 'grid=' . implode(',', $c11grid[0]) . '/' . implode(',', $c11grid[1]) . '/' . implode(',', $c11grid[2]);
    $w->header('X-Pen', $prices['pen']);
    $w->write(implode("\n", $out));
};
$bs->get('/s9/{id}', $h9);
$bs->post('/s9/{id}', $h9);
verif_server('boot', $bs);

// shape 10: recursion depth is a request parameter; the innermost frame is the rendezvous /
// gate point, so requests can be parked deep inside their recursion
function c11_down($tok, $d, $name) {
    if ($d <= 0) { verif_sync($tok); verif_gate($name); return 'B' . $tok; }
    $below = c11_down($tok, $d - 1, $name);
    return $below . '.';
}
function c11_even($tok, $d, $name) {
    if ($d <= 0) { verif_sync($tok); verif_gate($name); return 'E' . $tok; }
    return c11_odd($tok, $d - 1, $name) . 'e';
}
function c11_odd($tok, $d, $name) {
    if ($d <= 0) { verif_sync($tok); verif_gate($name); return 'O' . $tok; }
    return c11_even($tok, $d - 1, $name) . 'o';
}
class C11Rec {
    public $tok;
    public $name;
    public function __construct($tok, $name) { $this->tok = $tok; $this->name = $name; }
    public function down($d) {
        if ($d <= 0) { verif_sync($this->tok); verif_gate($this->name); return 'M' . $this->tok; }
        $below = $this->down($d - 1);
        return $below . ':';
    }
    public static function sdown($tok, $d, $name) {
        if ($d <= 0) { verif_sync($tok); verif_gate($name); return 'S' . $tok; }
        return C11Rec::sdown($tok, $d - 1, $name) . ';';
    }
}
$rs = new Server('127.0.0.1', 0);
$rs->onError(function ($request, $response, $error) {
    $response->status(500);
    $response->write('error=' . $error);
});
$h10 = function ($r, $w) {
    $tok = $r->header('X-Tok');
    $kind = $r->header('X-Rec');
    $name = $r->header('X-Gate-Name');
    $d = (int)$r->input('d');
    $res = '?';
    if ($kind == 'fn') { $res = c11_down($tok, $d, $name); }
    elseif ($kind == 'mutual') { $res = c11_even($tok, $d, $name); }
    elseif ($kind == 'method') { $o = new C11Rec($tok, $name); $res = $o->down($d); }
    elseif ($kind == 'static') { $res = C11Rec::sdown($tok, $d, $name); }
    elseif ($kind == 'closure') {
        $f = null;
        $f = function ($k) use (&$f, $tok, $name) {
            if ($k <= 0) { verif_sync($tok); verif_gate($name); return 'C' . $tok; }
            return $f($k - 1) . ',';
        };
        $res = $f($d);
    }
    else { verif_note('unknown recursion kind ' . $kind); }
    $w->header('X-Depth', $tok . '/' . (strlen($res) - strlen($tok) - 1));
    $w->write('rec=' . $res . "\nlen=" . strlen($res) . "\nua=" . $r->userAgent());
};
$rs->get('/s10/{id}', $h10);
$rs->post('/s10/{id}', $h10);
verif_server('rec', $rs);
`
