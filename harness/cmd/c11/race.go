package main

import (
	"bytes"
	"io"
	"sort"
	"strings"
)

func bytesReader(b []byte) io.Reader { return bytes.NewReader(b) }

type raceFrame struct{ fn, file string }

type raceReport struct {
	Text string
	Acc  [2][]raceFrame
}

// parseRaceLog returns, per report of a GORACE log, the frames of the two conflicting
// accesses.
func parseRaceLog(text string) []raceReport {
	var out []raceReport
	for _, block := range strings.Split(text, "==================") {
		if !strings.Contains(block, "WARNING: DATA RACE") {
			continue
		}
		var acc [][]raceFrame
		for _, sec := range strings.Split(block, "\n\n") {
			lines := strings.Split(strings.Trim(sec, "\n"), "\n")
			for len(lines) > 0 && (strings.HasPrefix(lines[0], "WARNING") || strings.TrimSpace(lines[0]) == "") {
				lines = lines[1:]
			}
			if len(lines) == 0 {
				continue
			}
			h := lines[0]
			if !(strings.HasPrefix(h, "Read at") || strings.HasPrefix(h, "Write at") || strings.HasPrefix(h, "Previous read at") ||
				strings.HasPrefix(h, "Previous write at") || strings.HasPrefix(h, "Atomic") || strings.HasPrefix(h, "Previous atomic")) {
				continue
			}
			var fr []raceFrame
			for i := 1; i+1 < len(lines); i += 2 {
				fn := strings.TrimSpace(lines[i])
				file := strings.TrimSpace(lines[i+1])
				if j := strings.Index(file, " "); j >= 0 {
					file = file[:j]
				}
				if j := strings.LastIndex(file, ":"); j >= 0 {
					file = file[:j]
				}
				fr = append(fr, raceFrame{fn: strings.TrimSuffix(fn, "()"), file: file})
			}
			acc = append(acc, fr)
		}
		if len(acc) >= 2 {
			out = append(out, raceReport{Text: strings.TrimSpace(block), Acc: [2][]raceFrame{acc[0], acc[1]}})
		}
	}
	return out
}

const origamiPkg = "github.com/php-any/origami/"

func shortFn(fn string) string {
	if i := strings.LastIndex(fn, "/"); i >= 0 {
		fn = fn[i+1:]
	}
	if i := strings.Index(fn, "."); i >= 0 {
		fn = fn[i+1:]
	}
	return fn
}

// innermostRepoFrame is the first frame of an access that belongs to the interpreter
// (Go runtime frames such as mapassign/memmove sit above it): "rel/file.go:func".
func innermostRepoFrame(fr []raceFrame, repo string) string {
	for _, f := range fr {
		if !strings.HasPrefix(f.fn, origamiPkg) {
			continue
		}
		rel := f.file
		if strings.HasPrefix(rel, repo+"/") {
			rel = rel[len(repo)+1:]
		} else if i := strings.Index(rel, "/origami/"); i >= 0 {
			rel = rel[i+9:]
		}
		return rel + ":" + shortFn(f.fn)
	}
	return ""
}

// attributed: the site lies in the property's anchor files (DESIGN.md §2.3).
func attributed(site string) bool {
	return strings.HasPrefix(site, "std/net/http/") || strings.HasPrefix(site, "node/globals_")
}

// classifyRace returns the attributed sites of a report (0..2) and a signature of the pair.
func classifyRace(rep raceReport, repo string) (sites []string, sig string) {
	var pair []string
	for _, fr := range rep.Acc {
		s := innermostRepoFrame(fr, repo)
		if s == "" {
			s = "<outside the interpreter>"
			if len(fr) > 0 {
				s = "<" + shortFn(fr[0].fn) + ">"
			}
		}
		pair = append(pair, s)
		if attributed(s) {
			dup := false
			for _, x := range sites {
				dup = dup || x == s
			}
			if !dup {
				sites = append(sites, s)
			}
		}
	}
	sort.Strings(pair)
	return sites, strings.Join(pair, " <-> ")
}
