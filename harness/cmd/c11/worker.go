package main

import (
	"bufio"
	"encoding/json"
	"fmt"
	"os"
)

// A job is one batch of cases executed by a child process: in-process origami work never
// runs in the driver (a fatal "concurrent map writes" or a race-detector abort must not
// take the verdict with it). The worker appends "BEGIN <case>" / "END <case>" to the case
// log and one JSON line per finished case to the output file, so that a death is
// attributed to the case that began and did not end and everything before it is kept.
type job struct {
	Kind   string      `json:"kind"` // load | gate | seq | lgate | deep
	Rounds []round     `json:"rounds,omitempty"`
	Gates  []gateCell  `json:"gates,omitempty"`
	Seqs   []seqCell   `json:"seqs,omitempty"`
	Locals []localCell `json:"locals,omitempty"`
	Deeps  []deepCell  `json:"deeps,omitempty"`
	Base   int         `json:"base"` // index of the first cell (fixes the request method of a cell)
}

type outLine struct {
	Case  string       `json:"case"`
	Round *roundResult `json:"round,omitempty"`
	Cell  *cellResult  `json:"cell,omitempty"`
	Done  bool         `json:"done,omitempty"` // last line: the batch ran to its end
}

func (j job) caseNames() []string {
	var out []string
	switch j.Kind {
	case "load":
		for _, r := range j.Rounds {
			out = append(out, fmt.Sprintf("round%d", r.ID))
		}
	case "gate":
		for _, c := range j.Gates {
			out = append(out, c.key())
		}
	case "seq":
		for _, c := range j.Seqs {
			out = append(out, c.key())
		}
	case "lgate":
		for _, c := range j.Locals {
			out = append(out, c.key())
		}
	case "deep":
		for _, c := range j.Deeps {
			out = append(out, c.key())
		}
	}
	return out
}

func workerMain(jobPath, outPath, logPath string) {
	var j job
	b, err := os.ReadFile(jobPath)
	if err == nil {
		err = json.Unmarshal(b, &j)
	}
	if err != nil {
		fmt.Fprintln(os.Stderr, "cannot read job:", err)
		os.Exit(3)
	}
	of, err := os.OpenFile(outPath, os.O_CREATE|os.O_WRONLY|os.O_APPEND, 0o644)
	if err != nil {
		fmt.Fprintln(os.Stderr, err)
		os.Exit(3)
	}
	lf, err := os.OpenFile(logPath, os.O_CREATE|os.O_WRONLY|os.O_APPEND, 0o644)
	if err != nil {
		fmt.Fprintln(os.Stderr, err)
		os.Exit(3)
	}
	emit := func(l outLine) {
		ob, _ := json.Marshal(l)
		of.Write(append(ob, '\n'))
	}
	names := j.caseNames()
	for i, name := range names {
		lf.WriteString("BEGIN " + name + "\n")
		l := outLine{Case: name}
		switch j.Kind {
		case "load":
			r := runRound(j.Rounds[i])
			l.Round = &r
		case "gate":
			r := runGateCell(j.Gates[i], j.Base+i)
			l.Cell = &r
		case "seq":
			r := runSeqCell(j.Seqs[i], j.Base+i)
			l.Cell = &r
		case "lgate":
			r := runLocalCell(j.Locals[i], j.Base+i)
			l.Cell = &r
		case "deep":
			r := runDeepCell(j.Deeps[i], j.Base+i)
			l.Cell = &r
		}
		emit(l)
		lf.WriteString("END " + name + "\n")
	}
	emit(outLine{Done: true})
}

// readOut parses the worker's output file.
func readOut(path string) (lines []outLine, done bool) {
	f, err := os.Open(path)
	if err != nil {
		return nil, false
	}
	defer f.Close()
	sc := bufio.NewScanner(f)
	sc.Buffer(make([]byte, 1<<20), 64<<20)
	for sc.Scan() {
		var l outLine
		if json.Unmarshal(sc.Bytes(), &l) != nil {
			continue
		}
		if l.Done {
			done = true
			continue
		}
		lines = append(lines, l)
	}
	return lines, done
}

// unfinishedCase returns the case that began and did not end according to the case log.
func unfinishedCase(logPath string) string {
	b, err := os.ReadFile(logPath)
	if err != nil {
		return ""
	}
	open := ""
	sc := bufio.NewScanner(bytesReader(b))
	for sc.Scan() {
		t := sc.Text()
		if len(t) > 6 && t[:6] == "BEGIN " {
			open = t[6:]
		} else if len(t) > 4 && t[:4] == "END " && t[4:] == open {
			open = ""
		}
	}
	return open
}
