package main

import (
	"fmt"
	"strings"
)

// A gate cell: handler A reads source SrcA twice; it is parked before the first read
// (early) or between the two reads (mid) while request B, which reads SrcB twice, is
// served to completion. Everything A and B answer must equal what they answer alone.
type gateCell struct {
	SrcA, SrcB string // source codes
	Pos        string // early | mid
}

// family is a predicate of the cell itself (never of its outcome): do A and B read through
// the same superglobal array? $_REQUEST is assembled from $_GET, $_POST and $_COOKIE, so it
// counts as each of them.
func (c gateCell) family() string {
	a, b := sourceByCode(c.SrcA), sourceByCode(c.SrcB)
	if !a.SG || !b.SG {
		return "independent"
	}
	for _, x := range superglobalArrays(a.Expr) {
		for _, y := range superglobalArrays(b.Expr) {
			if x == y {
				return "same-superglobal"
			}
		}
	}
	return "independent"
}

func superglobalArrays(expr string) []string {
	name, _, _ := strings.Cut(expr, "[")
	if name == "$_REQUEST" {
		return []string{"$_REQUEST", "$_GET", "$_POST", "$_COOKIE"}
	}
	return []string{name}
}

func (c gateCell) key() string {
	return fmt.Sprintf("gate/%s/A=%s/B=%s/%s", c.family(), sourceByCode(c.SrcA).Name, sourceByCode(c.SrcB).Name, c.Pos)
}

func gateRequest(owner, src, method string, extra ...[2]string) reqSpec {
	x := append([][2]string{{"X-Src", src}}, extra...)
	return stdRequest("gate", "gate", "/gate", method, owner, 2, x...)
}

type cellResult struct {
	Key        string     `json:"key"`
	Nontrivial bool       `json:"nontrivial"` // both baselines echo their own token
	Parked     bool       `json:"parked"`     // A really waited at the gate while B ran
	Mism       []mismatch `json:"mism"`
	Note       string     `json:"note,omitempty"`
	Sample     string     `json:"sample,omitempty"`
	Fatal      string     `json:"fatal,omitempty"`
}

func runGateCell(c gateCell, idx int) (res cellResult) {
	method := "POST"
	if idx%2 == 1 {
		method = "GET"
	}
	if c.SrcA == "pfv" || c.SrcB == "pfv" {
		method = "POST" // postFormValue only sees a request body
	}
	ownA, ownB := ownerOf(200000+idx, 1), ownerOf(200000+idx, 2) // unique per cell: a value left over from another cell is recognisable
	qa := gateRequest(ownA, c.SrcA, method, [2]string{"X-Gate", c.Pos}, [2]string{"X-Gate-Name", "ga"})
	qb := gateRequest(ownB, c.SrcB, method)
	where := map[string]string{"early": "before its first read", "mid": "between its two reads"}[c.Pos]
	return runGated(c.key(), qa, qb, ownA, ownB, where)
}

// runGated serves A until it parks at gate "ga", serves B to completion, releases A, and
// compares both answers with the answers of the same requests alone (gate not armed).
func runGated(key string, qa, qb reqSpec, ownA, ownB, where string) (res cellResult) {
	res.Key = key
	ba, err := baseline(qa)
	if err != nil {
		res.Fatal = err.Error()
		return
	}
	bb, err := baseline(qb)
	if err != nil {
		res.Fatal = err.Error()
		return
	}
	res.Nontrivial = ownTokenCount(ba, ownA) >= 1 && ownTokenCount(bb, ownB) >= 1

	w, err := newLoadedWorld()
	if err != nil {
		res.Fatal = err.Error()
		return
	}
	g := w.gates.arm("ga")
	doneA := make(chan observation, 1)
	go func() { doneA <- w.serve(qa) }()
	var oa, ob observation
	select {
	case <-g.arrived:
		res.Parked = true
		ob = w.serve(qb) // B runs to completion while A is parked
		close(g.release)
		oa = <-doneA
	case oa = <-doneA:
		// A never reached the gate (escaped before it): nothing was interleaved
		close(g.release)
		ob = w.serve(qb)
		res.Note = "A finished without reaching the gate: " + oa.Escaped
	}
	w.gates.disarm("ga")
	var parts []string
	for _, x := range []struct {
		who string
		got observation
		own string
	}{{"A", ba, ownA}, {"B", bb, ownB}} {
		for _, d := range foreignFields(x.got, x.own) {
			parts = append(parts, fmt.Sprintf("%s served ALONE on a fresh server answers %s = %q, which belongs to an earlier request %v", x.who, d.Field, clip(d.Got, 100), d.Foreign))
		}
	}
	for _, x := range []struct {
		who       string
		got, want observation
		own       string
	}{{"A", oa, ba, ownA}, {"B", ob, bb, ownB}} {
		for _, d := range diffObservation(x.got, x.want, x.own) {
			p := fmt.Sprintf("%s's %s is %q, alone it is %q", x.who, d.Field, clip(d.Got, 100), clip(d.Want, 100))
			if len(d.Foreign) > 0 {
				p += " (the value belongs to the other request)"
			}
			parts = append(parts, p)
		}
	}
	if len(parts) > 0 {
		res.Mism = append(res.Mism, mismatch{Key: key, What: fmt.Sprintf("A = %s parked %s; B = %s served to completion meanwhile: %s", qa, where, qb, strings.Join(parts, "; "))})
	}
	w.mu.Lock()
	if len(w.notes) > 0 {
		res.Note += " script notes: " + fmt.Sprint(w.notes)
	}
	w.mu.Unlock()
	res.Sample = fmt.Sprintf("%s: A alone %d %q, B alone %d %q", key, ba.Status, ba.Body, bb.Status, bb.Body)
	return res
}

// ---------------------------------------------------------------------------------
// local-state gate cells: A builds request-local state of kind KindA (an exception object,
// an object, arrays, closures, loop variables, frames of nested calls / a method, a
// half-written response), parks, B (kind KindB) is served to completion, A answers from
// its state.

var localKinds = []string{"exc", "rexc", "iexc", "uexc", "excmsg", "catch", "obj", "arr", "clo", "loop", "func", "method", "resp", "mw-obj", "mw-loop", "mw-resp", "capl", "cap", "obj", "boot"}

type localCell struct{ KindA, KindB string }

// exceptionBase: the built-in exception class an object built by the kind is (a subclass)
// of; "" when the kind builds none.
var exceptionBase = map[string]string{"exc": "Exception", "uexc": "Exception", "excmsg": "Exception", "rexc": "RuntimeException", "catch": "RuntimeException", "iexc": "InvalidArgumentException"}

// family is a predicate of the cell itself: do A and B both construct an exception whose
// message is kept by the same built-in exception class?
func (c localCell) family() string {
	if a := exceptionBase[c.KindA]; a != "" && a == exceptionBase[c.KindB] {
		return "same-exception-class"
	}
	return "independent"
}

func (c localCell) key() string { return "lgate/" + c.family() + "/A=" + c.KindA + "/B=" + c.KindB }

func runLocalCell(c localCell, idx int) cellResult {
	method := "POST"
	if idx%2 == 1 {
		method = "GET"
	}
	ownA, ownB := ownerOf(400000+idx, 1), ownerOf(400000+idx, 2)
	mk := func(own, kind, gate string) reqSpec {
		server := "lgate"
		if k, ok := strings.CutPrefix(kind, "mw-"); ok {
			server, kind = "lgatemw", k // behind a closure and a class middleware
		}
		// load shapes 7..9 have a gate point of their own (between their writes / inside the
		// method that works on the copy): by-value captures, per-request object with
		// $this-closures, copies of boot-time arrays
		if sh, ok := map[string][3]string{"cap": {"cap", "s7", "/s7"}, "obj": {"obj", "s8", "/s8"}, "boot": {"boot", "s9", "/s9"}}[kind]; ok {
			return stdRequest(sh[0], sh[1], sh[2], method, own, 3, [2]string{"X-Gate-Name", gate})
		}
		return stdRequest(server, "lgate", "/lgate", method, own, 2, [2]string{"X-Kind", kind}, [2]string{"X-Gate-Name", gate})
	}
	qa, qb := mk(ownA, c.KindA, "ga"), mk(ownB, c.KindB, "gb")
	return runGated(c.key(), qa, qb, ownA, ownB, "after building its local state ("+c.KindA+")")
}

func allLocalCells() []localCell {
	var out []localCell
	for _, a := range localKinds {
		for _, b := range localKinds {
			out = append(out, localCell{a, b})
		}
	}
	return out
}

func allGateCells() []gateCell {
	var out []gateCell
	for _, pos := range []string{"early", "mid"} {
		for _, a := range sources {
			for _, b := range sources {
				out = append(out, gateCell{a.Code, b.Code, pos})
			}
		}
	}
	return out
}

// ---------------------------------------------------------------------------------
// sequential scenarios: request 1, then request 2, then request 1 again on one server,
// nothing overlapping; the selected source is read in the handler, in a closure
// middleware and a class middleware (before and after $next) and, for the throwing
// variant, in onError. Every answer must equal the answer of the same request alone.

type seqCell struct {
	Src   string
	Throw bool
	Cap   int    // > 0: a load shape with n = Cap-1 instead of a source read
	Shape string // which one ("" = s7)
}

var seqShapes = map[string][4]string{
	"":   {"cap", "s7", "/s7", "by-value-capture"},
	"s8": {"obj", "s8", "/s8", "per-request-object"},
	"s9": {"boot", "s9", "/s9", "boot-state-copy"},
}

func (c seqCell) key() string {
	if c.Cap > 0 {
		return fmt.Sprintf("seq/%s/n=%d", seqShapes[c.Shape][3], c.Cap-1)
	}
	k := "seq/src=" + sourceByCode(c.Src).Name
	if c.Throw {
		k += "/throw"
	}
	return k
}

func runSeqCell(c seqCell, idx int) (res cellResult) {
	res.Key = c.key()
	method := "POST"
	if idx%2 == 1 {
		method = "GET"
	}
	if c.Cap == 0 && c.Src == "pfv" {
		method = "POST"
	}
	mk := func(owner string) reqSpec {
		if c.Cap > 0 {
			sh := seqShapes[c.Shape]
			return stdRequest(sh[0], sh[1], sh[2], method, owner, c.Cap-1)
		}
		x := [][2]string{{"X-Src", c.Src}}
		if c.Throw {
			x = append(x, [2]string{"X-Throw", "1"})
		}
		if c.Throw {
			return stdRequest("seqerr", "seqerr", "/seq", method, owner, 2, x...)
		}
		return stdRequest("seq", "seq", "/seq", method, owner, 2, x...)
	}
	own := []string{ownerOf(300000+idx, 1), ownerOf(300000+idx, 2)}
	qs := []reqSpec{mk(own[0]), mk(own[1])}
	var base []observation
	res.Nontrivial = true
	for i, q := range qs {
		b, err := baseline(q)
		if err != nil {
			res.Fatal = err.Error()
			return
		}
		base = append(base, b)
		if ownTokenCount(b, own[i]) < 2 {
			res.Nontrivial = false
		}
		for _, d := range foreignFields(b, own[i]) {
			key := "seq/" + seqLayer(d.Field) + strings.TrimPrefix(res.Key, "seq") + "/foreign-when-alone"
			if c.Cap > 0 {
				key = res.Key + "/" + d.Field + "/foreign-when-alone"
			}
			res.Mism = append(res.Mism, mismatch{Key: key, What: fmt.Sprintf("%s served ALONE on a fresh server answers %s = %q, which belongs to an earlier request %v of this process", q, d.Field, clip(d.Got, 120), d.Foreign)})
		}
	}
	w, err := newLoadedWorld()
	if err != nil {
		res.Fatal = err.Error()
		return
	}
	res.Parked = true
	seen := map[string]bool{}
	for step, i := range []int{0, 1, 0} {
		got := w.serve(qs[i])
		for _, d := range diffObservation(got, base[i], own[i]) {
			key := "seq/" + seqLayer(d.Field) + strings.TrimPrefix(res.Key, "seq") + "/" + d.Kind
			if c.Cap > 0 {
				key = res.Key + "/" + d.Field + "/" + d.Kind
			}
			if seen[key] {
				continue
			}
			seen[key] = true
			what := fmt.Sprintf("requests served one after the other on one server (no overlap); request %d of the sequence, %s: %s is %q, alone on a fresh server it is %q", step+1, qs[i], d.Field, clip(d.Got, 120), clip(d.Want, 120))
			if len(d.Foreign) > 0 {
				what += " (the value belongs to the previous request)"
			}
			res.Mism = append(res.Mism, mismatch{Key: key, What: what})
		}
	}
	res.Sample = fmt.Sprintf("%s: alone %d %q %q", res.Key, base[0].Status, base[0].Headers, base[0].Body)
	return res
}

// seqLayer names the layer whose read a field of the /seq answer shows.
func seqLayer(field string) string {
	switch field {
	case "header:X-Closure-Before":
		return "closure-mw-before-next"
	case "header:X-Class-Before":
		return "class-mw-before-next"
	case "header:X-Handler", "body:handler":
		return "handler"
	case "body:class-after":
		return "class-mw-after-next"
	case "body:closure-after":
		return "closure-mw-after-next"
	case "body:onerror":
		return "onerror"
	}
	return "other:" + field
}

func allSeqCells() []seqCell {
	var out []seqCell
	for _, s := range sources {
		out = append(out, seqCell{Src: s.Code}, seqCell{Src: s.Code, Throw: true})
	}
	for _, shape := range []string{"", "s8", "s9"} {
		for n := 0; n <= 5; n++ {
			out = append(out, seqCell{Cap: n + 1, Shape: shape})
		}
	}
	return out
}
