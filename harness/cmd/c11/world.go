package main

import (
	"fmt"
	"net/http"
	goruntime "runtime"
	"strings"
	"sync"

	"github.com/php-any/origami/data"
	"github.com/php-any/origami/node"
	"github.com/php-any/origami/parser"
	"github.com/php-any/origami/runtime"

	"verif/ori"
)

// goFunc is a script-callable function implemented by the harness (only exported
// interfaces of origami are used: data.FuncStmt + vm.AddFunc).
type goFunc struct {
	name  string
	nargs int
	fn    func(args []data.Value) data.GetValue
}

func (g *goFunc) Call(ctx data.Context) (data.GetValue, data.Control) {
	args := make([]data.Value, 0, g.nargs)
	for i := 0; i < g.nargs; i++ {
		v, ok := ctx.GetIndexValue(i)
		if !ok {
			break
		}
		args = append(args, v)
	}
	return g.fn(args), nil
}
func (g *goFunc) GetName() string { return g.name }
func (g *goFunc) GetParams() []data.GetValue {
	ps := make([]data.GetValue, g.nargs)
	for i := range ps {
		ps[i] = node.NewParameter(nil, fmt.Sprintf("p%d", i), i, nil, nil)
	}
	return ps
}
func (g *goFunc) GetVariables() []data.Variable {
	vs := make([]data.Variable, g.nargs)
	for i := range vs {
		vs[i] = node.NewVariable(nil, fmt.Sprintf("p%d", i), i, nil)
	}
	return vs
}

// gateHub implements verif_gate(name): a handler that calls verif_gate("x") announces its
// arrival and parks until the harness releases gate "x". Gates that were not armed are
// no-ops, so the same handler script serves gated and ungated requests.
type gateHub struct {
	mu    sync.Mutex
	gates map[string]*gate
}

type gate struct {
	arrived chan struct{} // closed when the handler reached the gate
	release chan struct{} // closed by the harness to let it continue
	once    sync.Once
}

func (h *gateHub) arm(name string) *gate {
	g := &gate{arrived: make(chan struct{}), release: make(chan struct{})}
	h.mu.Lock()
	if h.gates == nil {
		h.gates = map[string]*gate{}
	}
	h.gates[name] = g
	h.mu.Unlock()
	return g
}

func (h *gateHub) disarm(name string) {
	h.mu.Lock()
	delete(h.gates, name)
	h.mu.Unlock()
}

func (h *gateHub) pass(name string) {
	h.mu.Lock()
	g := h.gates[name]
	h.mu.Unlock()
	if g == nil {
		return
	}
	g.once.Do(func() { close(g.arrived) })
	<-g.release
}

// world is one VM with the script-side servers the harness drives.
type world struct {
	vm      *runtime.VM
	p       *parser.Parser
	mu      sync.Mutex
	servers map[string]http.Handler // name -> ServeMux captured through verif_server(name, $server)
	notes   []string                // verif_note() calls (diagnostics from the script)
	gates   gateHub
	barrier barrier
	thrown  []string // controls handed to the VM's uncaught handler while serving
}

// barrier implements verif_sync(): when armed for n requests, a handler parks there until
// every request of the wave has either arrived or finished (a request that throws before
// the sync point must not block the others). Requests are counted, not identified: what a
// handler passes in is request-derived and may be exactly what a defect corrupts. Not
// armed: a no-op.
type barrier struct {
	mu       sync.Mutex
	cond     *sync.Cond
	expect   int
	arrivals int
	finished int
	open     bool
}

func (b *barrier) arm(n int) {
	b.mu.Lock()
	if b.cond == nil {
		b.cond = sync.NewCond(&b.mu)
	}
	b.expect, b.arrivals, b.finished, b.open = n, 0, 0, false
	b.mu.Unlock()
}

func (b *barrier) disarm() {
	b.mu.Lock()
	b.expect, b.open = 0, true
	if b.cond != nil {
		b.cond.Broadcast()
	}
	b.mu.Unlock()
}

func (b *barrier) check() {
	if b.expect > 0 && !b.open && b.arrivals+b.finished >= b.expect {
		b.open = true
		b.cond.Broadcast()
	}
}

// done is called by the harness when a request has been served.
func (b *barrier) done() {
	b.mu.Lock()
	if b.expect > 0 {
		b.finished++
		b.check()
	}
	b.mu.Unlock()
}

func (b *barrier) arrive() {
	b.mu.Lock()
	defer b.mu.Unlock()
	if b.expect == 0 {
		return
	}
	b.arrivals++
	b.check()
	for b.expect > 0 && !b.open {
		b.cond.Wait()
	}
}

func newWorld() (*world, error) {
	w := &world{servers: map[string]http.Handler{}}
	w.vm, w.p = ori.NewVM()
	if c := w.vm.AddFunc(&goFunc{name: "verif_server", nargs: 2, fn: func(a []data.Value) data.GetValue {
		if len(a) == 2 {
			if src, ok := a[1].(interface{ GetSource() any }); ok {
				if h, ok := src.GetSource().(http.Handler); ok {
					w.mu.Lock()
					w.servers[a[0].AsString()] = h
					w.mu.Unlock()
				}
			}
		}
		return data.NewNullValue()
	}}); c != nil {
		return nil, fmt.Errorf("AddFunc: %s", c.AsString())
	}
	w.vm.AddFunc(&goFunc{name: "verif_gate", nargs: 1, fn: func(a []data.Value) data.GetValue {
		if len(a) == 1 {
			w.gates.pass(a[0].AsString())
		}
		return data.NewNullValue()
	}})
	w.vm.AddFunc(&goFunc{name: "verif_yield", nargs: 0, fn: func(a []data.Value) data.GetValue {
		goruntime.Gosched()
		return data.NewNullValue()
	}})
	w.vm.AddFunc(&goFunc{name: "verif_sync", nargs: 1, fn: func(a []data.Value) data.GetValue {
		w.barrier.arrive()
		return data.NewNullValue()
	}})
	w.vm.AddFunc(&goFunc{name: "verif_note", nargs: 1, fn: func(a []data.Value) data.GetValue {
		if len(a) == 1 {
			w.mu.Lock()
			w.notes = append(w.notes, a[0].AsString())
			w.mu.Unlock()
		}
		return data.NewNullValue()
	}})
	return w, nil
}

// newLoadedWorld creates a world and runs the registration script on it.
func newLoadedWorld() (*world, error) {
	w, err := newWorld()
	if err != nil {
		return nil, err
	}
	if err := w.load(handlerScript(), "/verif-inproc/c11.php"); err != nil {
		return nil, fmt.Errorf("registration script: %v", err)
	}
	for _, name := range []string{"plain", "mw", "err", "gate", "seq", "seqerr", "lgate", "lgatemw", "cap", "obj", "boot", "rec"} {
		if w.servers[name] == nil {
			return nil, fmt.Errorf("registration script did not hand over server %q", name)
		}
	}
	// ori.Run leaves its own closure installed; replace it by one that is safe to call from
	// concurrent requests
	w.vm.SetThrowControl(func(acl data.Control) {
		w.mu.Lock()
		w.thrown = append(w.thrown, ori.CtlString(acl))
		w.mu.Unlock()
	})
	return w, nil
}

// load runs a registration script on the world's VM.
func (w *world) load(src, path string) error {
	r := ori.Run(w.vm, w.p, src, path)
	var errs []string
	if r.ParseErr != nil {
		errs = append(errs, "parse: "+r.ParseErr.AsString())
	}
	if r.Ctl != nil {
		errs = append(errs, "ctl: "+ori.CtlString(r.Ctl))
	}
	if r.Uncaught != nil {
		errs = append(errs, "uncaught: "+ori.CtlString(r.Uncaught))
	}
	if r.Panic != nil {
		errs = append(errs, fmt.Sprintf("panic: %v\n%s", r.Panic, r.PanicStack))
	}
	if len(errs) > 0 {
		return fmt.Errorf("%s (out=%q)", strings.Join(errs, "; "), r.Out)
	}
	return nil
}
