// Command c11 decides property C11 (concurrent HTTP requests do not interfere) on the real
// std/net/http code: a script registers handlers and middlewares on script-created
// Net\Http\Server objects, the harness takes their ServeMux and serves httptest requests
// in-process — many at once (seeded load, plain and -race builds), in scripted two-request
// interleavings (a handler parked at a gate while another request runs to completion) and
// one after the other — and compares every answer with the answer the same request gets
// alone on a fresh server.
package main

import (
	"encoding/json"
	"fmt"
	"io"
	"math/rand"
	"net/http/httptest"
	"os"
	"strings"
)

func main() {
	switch {
	case len(os.Args) > 4 && os.Args[1] == "worker":
		workerMain(os.Args[2], os.Args[3], os.Args[4])
	case len(os.Args) > 2 && os.Args[1] == "replay":
		replay(os.Args[2])
	case len(os.Args) > 5 && os.Args[1] == "script":
		probeScript(os.Args[2:])
	case len(os.Args) > 2 && os.Args[1] == "cells":
		devCells(os.Args[2])
	case len(os.Args) > 1 && os.Args[1] == "dump-script":
		fmt.Print(handlerScript())
	default:
		drive()
	}
}

// replay re-runs the case of a replay file in this process and prints what it finds.
func replay(path string) {
	b, err := os.ReadFile(path)
	if err != nil {
		fmt.Println(err)
		os.Exit(2)
	}
	var f struct {
		Job job `json:"job"`
	}
	if i := strings.Index(string(b), "{\"kind\""); i > 0 && json.Unmarshal(b, &f) != nil {
		_ = json.Unmarshal(b[i:], &f.Job) // race replay: the job follows the report text
	} else {
		_ = json.Unmarshal(b, &f)
	}
	j := f.Job
	n := 0
	for i, name := range j.caseNames() {
		var mism []mismatch
		switch j.Kind {
		case "load":
			r := runRound(j.Rounds[i])
			mism = r.Mism
			fmt.Printf("%s: %d requests in flight, %d compared, fatal=%q not-compared=%v\n", name, len(j.Rounds[i].Reqs), r.Requests, r.Fatal, r.BaselineBad)
		case "gate":
			r := runGateCell(j.Gates[i], j.Base+i)
			mism = r.Mism
			fmt.Printf("%s: parked=%v nontrivial=%v %s %s\n", name, r.Parked, r.Nontrivial, r.Note, r.Fatal)
		case "seq":
			r := runSeqCell(j.Seqs[i], j.Base+i)
			mism = r.Mism
			fmt.Printf("%s: nontrivial=%v %s\n", name, r.Nontrivial, r.Fatal)
		case "lgate":
			r := runLocalCell(j.Locals[i], j.Base+i)
			mism = r.Mism
			fmt.Printf("%s: parked=%v nontrivial=%v %s %s\n", name, r.Parked, r.Nontrivial, r.Note, r.Fatal)
		case "deep":
			r := runDeepCell(j.Deeps[i], j.Base+i)
			mism = r.Mism
			fmt.Printf("%s: parked=%v nontrivial=%v %s %s\n", name, r.Parked, r.Nontrivial, r.Note, r.Fatal)
		}
		for _, m := range mism {
			n++
			fmt.Printf("  MISMATCH %s :: %s\n", m.Key, m.What)
		}
	}
	fmt.Printf("%d mismatches (a load round depends on the schedule: repeat it, or use .build/c11-race)\n", n)
}

// probeScript is a development aid: c11 script file.php server METHOD url [body] [Header: v]...
func probeScript(args []string) {
	w, err := newWorld()
	if err != nil {
		fmt.Println(err)
		os.Exit(2)
	}
	src, _ := os.ReadFile(args[0])
	if err := w.load(string(src), args[0]); err != nil {
		fmt.Println("load:", err)
		os.Exit(2)
	}
	h := w.servers[args[1]]
	if h == nil {
		fmt.Println("no server", args[1])
		os.Exit(2)
	}
	var body io.Reader
	rest := args[4:]
	if len(rest) > 0 && !strings.Contains(rest[0], ": ") {
		body = strings.NewReader(rest[0])
		rest = rest[1:]
	}
	req := httptest.NewRequest(args[2], args[3], body)
	if body != nil {
		req.Header.Set("Content-Type", "application/x-www-form-urlencoded")
	}
	for _, hv := range rest {
		k, v, _ := strings.Cut(hv, ": ")
		req.Header.Add(k, v)
	}
	rec := httptest.NewRecorder()
	func() {
		defer func() {
			if r := recover(); r != nil {
				fmt.Printf("ESCAPED: %s\n", describeEscape(r))
			}
		}()
		h.ServeHTTP(rec, req)
	}()
	fmt.Printf("status=%d\nheaders=%v\nbody=%s\nnotes=%v\n", rec.Code, rec.Header(), rec.Body.String(), w.notes)
}

// devCells is a development aid: c11 cells gate|seq|lgate runs every cell of a family in
// this process and prints the cells that disagree.
func devCells(kind string) {
	if kind == "sgserial" {
		// superglobal sections of the load shapes, one request at a time on a used server:
		// with nothing in flight every answer must equal the solitary one
		r := rand.New(rand.NewSource(1))
		bad, n := 0, 0
		for id := 1; id <= 40; id++ {
			rd := genRound(r, 900000+id, true, true)
			w, err := newLoadedWorld()
			if err != nil {
				fmt.Println(err)
				return
			}
			for _, q := range rd.Reqs {
				b, _ := baseline(q)
				got := w.serve(q)
				n++
				for _, d := range diffObservation(got, b, q.Owner) {
					bad++
					fmt.Printf("MISMATCH %s %s: %q vs alone %q (%s)\n", q.Shape, d.Field, clip(d.Got, 80), clip(d.Want, 80), q)
				}
				for _, d := range foreignFields(b, q.Owner) {
					bad++
					fmt.Printf("FOREIGN-ALONE %s %s: %q\n", q.Shape, d.Field, clip(d.Got, 80))
				}
			}
		}
		fmt.Printf("%d requests, %d mismatches\n", n, bad)
		return
	}
	var j job
	switch kind {
	case "gate":
		j = job{Kind: "gate", Gates: allGateCells()}
	case "seq":
		j = job{Kind: "seq", Seqs: allSeqCells()}
	case "deep":
		j = job{Kind: "deep", Deeps: allDeepCells()}
	default:
		j = job{Kind: "lgate", Locals: allLocalCells()}
	}
	bad := 0
	for i, name := range j.caseNames() {
		var r cellResult
		switch j.Kind {
		case "gate":
			r = runGateCell(j.Gates[i], i)
		case "seq":
			r = runSeqCell(j.Seqs[i], i)
		case "deep":
			r = runDeepCell(j.Deeps[i], i)
		default:
			r = runLocalCell(j.Locals[i], i)
		}
		if r.Fatal != "" || r.Note != "" || !r.Parked || !r.Nontrivial {
			fmt.Printf("%s: parked=%v nontrivial=%v note=%q fatal=%q sample=%s\n", name, r.Parked, r.Nontrivial, r.Note, r.Fatal, r.Sample)
		}
		for _, m := range r.Mism {
			bad++
			fmt.Printf("MISMATCH %s :: %s\n", m.Key, m.What)
		}
	}
	fmt.Printf("%d cells, %d mismatches\n", len(j.caseNames()), bad)
}

func init() {
	if len(os.Args) > 4 && os.Args[1] == "seqprobe" {
		// development aid: c11 seqprobe file.php server url...   (X-Tok = tok<i>)
		w, _ := newWorld()
		src, _ := os.ReadFile(os.Args[2])
		if err := w.load(string(src), os.Args[2]); err != nil {
			fmt.Println(err)
			os.Exit(2)
		}
		for i, u := range os.Args[4:] {
			rec := httptest.NewRecorder()
			rq := httptest.NewRequest("GET", u, nil)
			rq.Header.Set("X-Tok", fmt.Sprintf("tok%d", i))
			w.servers[os.Args[3]].ServeHTTP(rec, rq)
			fmt.Printf("%s -> %d %v\n%s\n", u, rec.Code, rec.Header(), rec.Body.String())
		}
		os.Exit(0)
	}
}
