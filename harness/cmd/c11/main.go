package main

import (
	"fmt"
	"io"
	"net/http/httptest"
	"os"
	"strings"
)

func main() {
	if len(os.Args) > 1 && os.Args[1] == "script" {
		probeScript(os.Args[2:])
		return
	}
}

// c11 script file.php server METHOD url [body] [Header: v]...
func probeScript(args []string) {
	w, err := newWorld()
	if err != nil {
		fmt.Println(err)
		os.Exit(2)
	}
	src, _ := os.ReadFile(args[0])
	if err := w.load(string(src), args[0]); err != nil {
		fmt.Println("load:", err)
		os.Exit(2)
	}
	h := w.servers[args[1]]
	if h == nil {
		fmt.Println("no server", args[1])
		os.Exit(2)
	}
	var body io.Reader
	rest := args[4:]
	if len(rest) > 0 && !strings.Contains(rest[0], ": ") {
		body = strings.NewReader(rest[0])
		rest = rest[1:]
	}
	req := httptest.NewRequest(args[2], args[3], body)
	if body != nil {
		req.Header.Set("Content-Type", "application/x-www-form-urlencoded")
	}
	for _, hv := range rest {
		k, v, _ := strings.Cut(hv, ": ")
		req.Header.Add(k, v)
	}
	rec := httptest.NewRecorder()
	func() {
		defer func() {
			if r := recover(); r != nil {
				fmt.Printf("PANIC: %v\n", r)
			}
		}()
		h.ServeHTTP(rec, req)
	}()
	fmt.Printf("status=%d\nheaders=%v\nbody=%s\nnotes=%v\n", rec.Code, rec.Header(), rec.Body.String(), w.notes)
}
