package main

import (
	"fmt"
	"net/http"
	"net/http/httptest"
	"regexp"
	"runtime/debug"
	"sort"
	"strings"

	"github.com/php-any/origami/data"

	"verif/lib"
)

// reqSpec is one fully materialised request. Every request-derived value embeds the
// owner token ("T<round>x<index>z"), so a value that turns up in another request's
// response names its owner.
type reqSpec struct {
	Server  string      `json:"server"`
	Shape   string      `json:"shape"`
	Method  string      `json:"method"`
	Target  string      `json:"target"`
	Body    string      `json:"body,omitempty"`
	Headers [][2]string `json:"headers"`
	Owner   string      `json:"owner"`
}

func (q reqSpec) String() string {
	var h []string
	for _, kv := range q.Headers {
		h = append(h, kv[0]+": "+kv[1])
	}
	s := q.Method + " " + q.Target
	if q.Body != "" {
		s += " body=" + q.Body
	}
	return s + " [" + strings.Join(h, "; ") + "]"
}

func (q reqSpec) header(name string) string {
	for _, kv := range q.Headers {
		if kv[0] == name {
			return kv[1]
		}
	}
	return ""
}

// ownerOf builds the owner token of request idx of a round.
func ownerOf(round, idx int) string { return fmt.Sprintf("T%dx%dz", round, idx) }

// stdRequest builds the standard parameter set of a request: query t,n; form f,g (in the
// body for POST, in the query for GET); cookie ck; headers X-Tok, User-Agent, Referer;
// path value id.
func stdRequest(server, shape, route, method, owner string, n int, extra ...[2]string) reqSpec {
	q := reqSpec{Server: server, Shape: shape, Method: method, Owner: owner}
	q.Target = fmt.Sprintf("%s/p%s?t=q%s&n=%d", route, owner, owner, n)
	if method == "POST" {
		q.Body = "f=f" + owner + "&g=g" + owner
	} else {
		q.Target += "&f=f" + owner + "&g=g" + owner
	}
	q.Headers = [][2]string{
		{"X-Tok", "h" + owner},
		{"User-Agent", "u" + owner},
		{"Referer", "e" + owner},
		{"Cookie", "ck=c" + owner + "; other=o" + owner},
	}
	q.Headers = append(q.Headers, extra...)
	return q
}

func (q reqSpec) build() *http.Request {
	var r *http.Request
	if q.Body != "" {
		r = httptest.NewRequest(q.Method, q.Target, strings.NewReader(q.Body))
		r.Header.Set("Content-Type", "application/x-www-form-urlencoded")
	} else {
		r = httptest.NewRequest(q.Method, q.Target, nil)
	}
	for _, kv := range q.Headers {
		r.Header.Add(kv[0], kv[1])
	}
	return r
}

// observation is everything the client of one request sees.
type observation struct {
	Status  int    `json:"status"`
	Headers string `json:"headers"` // all response headers, canonical order
	Body    string `json:"body"`
	Escaped string `json:"escaped,omitempty"` // a throw / Go panic that left ServeHTTP
}

func renderHeaders(h http.Header) string {
	var keys []string
	for k := range h {
		keys = append(keys, k)
	}
	sort.Strings(keys)
	var parts []string
	for _, k := range keys {
		parts = append(parts, k+"="+strings.Join(h[k], "|"))
	}
	return strings.Join(parts, "\n")
}

func describeEscape(r any) string {
	if r == nil {
		return ""
	}
	if c, ok := r.(data.Control); ok {
		s := c.AsString()
		if len(s) > 300 {
			s = s[:300]
		}
		return "script-throw: " + s
	}
	return "panic@" + lib.PanicSite(string(debug.Stack())) + ": " + fmt.Sprint(r)
}

// serve sends one request through the script's ServeMux into its own recorder.
func (w *world) serve(q reqSpec) (o observation) {
	h := w.servers[q.Server]
	rec := httptest.NewRecorder()
	req := q.build()
	func() {
		defer func() { o.Escaped = describeEscape(recover()) }()
		h.ServeHTTP(rec, req)
	}()
	o.Status = rec.Code
	o.Headers = renderHeaders(rec.Header())
	o.Body = rec.Body.String()
	return o
}

// ---------------------------------------------------------------------------------
// comparison

var tokenRe = regexp.MustCompile(`T\d+x\d+z`)

// foreignTokens lists the owner tokens in s that are not own.
func foreignTokens(s, own string) []string {
	var out []string
	seen := map[string]bool{}
	for _, t := range tokenRe.FindAllString(s, -1) {
		if t != own && !seen[t] {
			seen[t] = true
			out = append(out, t)
		}
	}
	return out
}

func ownTokenCount(o observation, own string) int {
	return strings.Count(o.Body, own) + strings.Count(o.Headers, own)
}

// fieldMap splits an observation into labelled fields: status, escaped, one per response
// header, one per body line ("label=value" lines keep their label, other lines are
// numbered; a JSON body is one field).
func fieldMap(o observation) map[string]string {
	m := map[string]string{"status": fmt.Sprint(o.Status)}
	if o.Escaped != "" {
		m["escaped"] = o.Escaped
	}
	for _, l := range strings.Split(o.Headers, "\n") {
		if k, v, ok := strings.Cut(l, "="); ok {
			m["header:"+k] = v
		}
	}
	if strings.HasPrefix(o.Body, "{") {
		m["body"] = o.Body
		return m
	}
	for i, l := range strings.Split(o.Body, "\n") {
		k, v, ok := strings.Cut(l, "=")
		if ok && len(k) <= 16 && !strings.ContainsAny(k, " {(:") {
			if _, dup := m["body:"+k]; !dup {
				m["body:"+k] = v
				continue
			}
		}
		m[fmt.Sprintf("body:line%d", i)] = l
	}
	return m
}

type fieldDiff struct {
	Field   string
	Kind    string // foreign | differs
	Want    string
	Got     string
	Foreign []string
}

// diffObservation compares what a request got with what the same request gets alone.
func diffObservation(got, want observation, own string) []fieldDiff {
	if got == want {
		return nil
	}
	g, w := fieldMap(got), fieldMap(want)
	keys := map[string]bool{}
	for k := range g {
		keys[k] = true
	}
	for k := range w {
		keys[k] = true
	}
	var names []string
	for k := range keys {
		names = append(names, k)
	}
	sort.Strings(names)
	var out []fieldDiff
	for _, k := range names {
		if g[k] == w[k] {
			continue
		}
		d := fieldDiff{Field: k, Kind: "differs", Want: w[k], Got: g[k]}
		if f := foreignTokens(g[k], own); len(f) > 0 {
			d.Kind = "foreign"
			d.Foreign = f
		}
		out = append(out, d)
	}
	return out
}

// foreignFields lists the fields of an answer that carry another request's token: data
// that does not belong to the request being served, whatever it is compared with.
func foreignFields(o observation, own string) []fieldDiff {
	m := fieldMap(o)
	var names []string
	for k := range m {
		names = append(names, k)
	}
	sort.Strings(names)
	var out []fieldDiff
	for _, k := range names {
		if f := foreignTokens(m[k], own); len(f) > 0 {
			out = append(out, fieldDiff{Field: k, Kind: "foreign", Got: m[k], Foreign: f})
		}
	}
	return out
}

func clip(s string, n int) string {
	if len(s) > n {
		return s[:n] + "…"
	}
	return s
}
