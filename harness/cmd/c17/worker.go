package main

// In-process execution of one case and the oracle over what the monitors recorded.
// Runs only inside `c17 worker` child processes (see main.go for the supervision).

import (
	"bufio"
	"encoding/json"
	"fmt"
	"os"
	"reflect"
	"regexp"
	"strconv"
	"strings"

	"github.com/php-any/origami/data"
	"github.com/php-any/origami/node"
	"github.com/php-any/origami/parser"
	"github.com/php-any/origami/runtime"
	"github.com/php-any/origami/utils"
	"verif/lib"
	"verif/ori"
)

// The structs registered through RegisterReflectClass (as script class V17) and their
// methods are generated (methods_gen.go), one struct type per leading parameter pair
// (v17Groups). They have no exported fields: the reflected constructor would otherwise
// demand them as constructor arguments, which is outside this property.
func groupOf(ps []string) string {
	switch {
	case len(ps) == 0:
		return "_none"
	case len(ps) == 1:
		return "_" + ps[0]
	}
	return "_" + ps[0] + "_" + ps[1]
}

// monitor state of the case being executed (one case at a time per worker process)
type runState struct {
	args     []data.Value // injected by verif_arg(i)
	prev     []data.Value // injected by verif_prev(i) (hist mode)
	seen     map[int]data.Value
	bodyRan  int
	recorded []any // arguments the Go body received
	convErr  string
	ret      any // preset Go result
	results  []data.Value
	caught   []string
	done     bool
}

var cur *runState

func recM(args ...any) {
	cur.bodyRan++
	cur.recorded = append([]any{}, args...)
}

func retM[T any]() T { return cur.ret.(T) }

// hand-written script functions in the style of docs/go-integration.md: they are the
// trusted observation points and do not go through the machinery under test.
type handFn struct {
	name string
	n    int
	call func(a []data.Value) data.Value
}

func (f *handFn) GetName() string { return f.name }
func (f *handFn) GetParams() []data.GetValue {
	var ps []data.GetValue
	for i := 0; i < f.n; i++ {
		ps = append(ps, node.NewParameter(nil, "p"+strconv.Itoa(i), i, nil, nil))
	}
	return ps
}
func (f *handFn) GetVariables() []data.Variable {
	var vs []data.Variable
	for i := 0; i < f.n; i++ {
		vs = append(vs, node.NewVariable(nil, "p"+strconv.Itoa(i), i, nil))
	}
	return vs
}
func (f *handFn) Call(ctx data.Context) (data.GetValue, data.Control) {
	a := make([]data.Value, f.n)
	for i := range a {
		a[i], _ = ctx.GetIndexValue(i)
	}
	if v := f.call(a); v != nil {
		return v, nil
	}
	return nil, nil
}

func idx(v data.Value) int {
	if x, ok := v.(*data.IntValue); ok {
		return x.Value
	}
	return -1
}

var hands = []*handFn{
	{"verif_arg", 1, func(a []data.Value) data.Value {
		if i := idx(a[0]); i >= 0 && i < len(cur.args) {
			return cur.args[i]
		}
		return data.NewNullValue()
	}},
	{"verif_prev", 1, func(a []data.Value) data.Value {
		if i := idx(a[0]); i >= 0 && i < len(cur.prev) {
			return cur.prev[i]
		}
		return data.NewNullValue()
	}},
	{"verif_seen", 2, func(a []data.Value) data.Value { cur.seen[idx(a[0])] = a[1]; return nil }},
	{"verif_res", 1, func(a []data.Value) data.Value { cur.results = append(cur.results, a[0]); return nil }},
	{"verif_caught", 1, func(a []data.Value) data.Value {
		if a[0] != nil {
			cur.caught = append(cur.caught, a[0].AsString())
		} else {
			cur.caught = append(cur.caught, "")
		}
		return nil
	}},
	{"verif_done", 0, func(a []data.Value) data.Value { cur.done = true; return nil }},
}

// convFn is a wrapper shaped like the generated std wrappers (std/net/http/*_method.go):
// one utils.ConvertFromIndex[T] per parameter, a thrown error when it fails.
type convFn struct {
	name  string
	kinds []*goKind
}

func (f *convFn) GetName() string { return f.name }
func (f *convFn) GetParams() []data.GetValue {
	var ps []data.GetValue
	for i := range f.kinds {
		ps = append(ps, node.NewParameter(nil, "param"+strconv.Itoa(i), i, nil, nil))
	}
	return ps
}
func (f *convFn) GetVariables() []data.Variable {
	var vs []data.Variable
	for i := range f.kinds {
		vs = append(vs, node.NewVariable(nil, "param"+strconv.Itoa(i), i, nil))
	}
	return vs
}
func (f *convFn) Call(ctx data.Context) (data.GetValue, data.Control) {
	got := make([]any, len(f.kinds))
	for i, k := range f.kinds {
		v, err := k.Conv(ctx, i)
		if err != nil {
			cur.convErr = err.Error()
			return nil, utils.NewThrowf("参数转换失败: %v", err)
		}
		got[i] = v
	}
	recM(got...)
	return nil, nil
}

// script renders the origami program of a case.
func (c *Case) script() string {
	var b strings.Builder
	b.WriteString("<?php\n")
	call := ""
	args := make([]string, len(c.Args))
	if c.Mode == "hist" {
		for i := range c.Args {
			fmt.Fprintf(&b, "$a%d = verif_prev(%d);\n", i, i)
		}
	}
	for i := range c.Args {
		if c.Mode == "var" {
			fmt.Fprintf(&b, "$a%d = %s;\n", i, c.Args[i].Expr)
			args[i] = fmt.Sprintf("$a%d", i)
		} else if c.Mode == "hist" {
			fmt.Fprintf(&b, "$a%d = verif_arg(%d);\n", i, i)
			args[i] = fmt.Sprintf("$a%d", i)
		} else {
			args[i] = fmt.Sprintf("verif_arg(%d)", i)
		}
	}
	if c.Mode == "var" {
		for i := range c.Args {
			fmt.Fprintf(&b, "verif_seen(%d, $a%d);\n", i, i)
		}
	}
	switch c.Sig.Path {
	case "func":
		call = "f17" + c.Sig.Name() + "(" + strings.Join(args, ", ") + ")"
	case "conv":
		call = "c17" + c.Sig.Name() + "(" + strings.Join(args, ", ") + ")"
	case "method":
		b.WriteString("$o = new V17();\n")
		call = "$o->M" + c.Sig.Name() + "(" + strings.Join(args, ", ") + ")"
	}
	ind := ""
	if c.Try {
		b.WriteString("try {\n")
		ind = "    "
	}
	if c.Mode != "inj" {
		fmt.Fprintf(&b, "%s$r = %s;\n%sverif_res($r);\n", ind, call, ind)
	} else {
		fmt.Fprintf(&b, "%sverif_res(%s);\n", ind, call)
	}
	if c.Try {
		b.WriteString("} catch (Exception $e) {\n    verif_caught($e->getMessage());\n}\n")
	}
	b.WriteString("verif_done();\n")
	return b.String()
}

type viol struct {
	Key  string `json:"key"`
	What string `json:"what"`
}

type caseResult struct {
	Viol       []viol `json:"viol,omitempty"`
	BodyRan    bool   `json:"body,omitempty"`
	Errored    bool   `json:"err,omitempty"`
	Compared   int    `json:"cmp,omitempty"` // argument / result comparisons made
	Inconcl    string `json:"inconcl,omitempty"`
	Nontrivial bool   `json:"nt,omitempty"`
}

var (
	reHex   = regexp.MustCompile(`0x[0-9a-fA-F]+`)
	reSpace = regexp.MustCompile(`\s+`)
)

func keyText(s string) string {
	if i := strings.IndexByte(s, '\n'); i >= 0 {
		s = s[:i]
	}
	s = reHex.ReplaceAllString(s, "0x?")
	s = reSpace.ReplaceAllString(strings.TrimSpace(s), "_")
	if len(s) > 120 {
		s = s[:120]
	}
	return s
}

// panicSite: innermost repository frame below the panic in a Go trace.
func panicSite(trace string) string {
	if i := strings.Index(trace, "\npanic("); i >= 0 {
		trace = trace[i+1:]
	}
	return repoRel(lib.PanicSite(trace))
}

// repoRel makes a site relative to the checked tree when it is not /repo (VERIF_REPO=<worktree>),
// so that the key of a defect is the same on every copy of the repository.
func repoRel(site string) string {
	if root := os.Getenv("VERIF_REPO"); root != "" {
		site = strings.TrimPrefix(site, strings.TrimSuffix(root, "/")+"/")
	}
	return site
}

const tryPanicMark = "go作用域异常退出的 panic("

// sigVM is one VM with one signature registered; every case of the signature runs on it
// (a fresh VM per case costs ~3 ms, which the budget cannot afford).
type sigVM struct {
	sig   Sig
	kinds []*goKind
	rk    *goKind
	vm    *runtime.VM
	p     *parser.Parser
	bad   *caseResult // registration failed: the result every case of the signature gets
}

func newSigVM(sig Sig) *sigVM {
	s := &sigVM{sig: sig}
	s.kinds = make([]*goKind, len(sig.Params))
	for i, p := range sig.Params {
		s.kinds[i] = kindByName[p]
	}
	if sig.Result != "" {
		s.rk = kindByName[sig.Result]
	}
	kinds, rk := s.kinds, s.rk
	vm, p := ori.NewVM()
	s.vm, s.p = vm, p
	for _, h := range hands {
		if ctl := vm.AddFunc(h); ctl != nil {
			s.bad = &caseResult{Inconcl: "cannot register " + h.name + ": " + ctl.AsString()}
			return s
		}
	}
	var regCtl data.Control
	switch sig.Path {
	case "func":
		in := make([]reflect.Type, len(kinds))
		for i, k := range kinds {
			in[i] = k.RT
		}
		var out []reflect.Type
		if rk != nil {
			out = []reflect.Type{rk.RT}
		}
		fn := reflect.MakeFunc(reflect.FuncOf(in, out, false), func(args []reflect.Value) []reflect.Value {
			got := make([]any, len(args))
			for i, a := range args {
				got[i] = a.Interface()
			}
			recM(got...)
			if rk == nil {
				return nil
			}
			return []reflect.Value{reflect.ValueOf(cur.ret)}
		})
		regCtl = vm.RegisterFunction("f17"+sig.Name(), fn.Interface())
	case "method":
		regCtl = vm.RegisterReflectClass("V17", v17Groups[groupOf(sig.Params)]())
	case "conv":
		regCtl = vm.AddFunc(&convFn{name: "c17" + sig.Name(), kinds: kinds})
	}
	if regCtl != nil {
		s.bad = &caseResult{Viol: []viol{{"path=" + sig.Path + ",fail=registration-refused,sig=" + sig.Name(), "registering " + sig.String() + " failed: " + regCtl.AsString()}}}
	}
	return s
}

func (s *sigVM) runCase(c *Case) (res caseResult) {
	if s.bad != nil {
		return *s.bad
	}
	sig, kinds, rk, vm, p := s.sig, s.kinds, s.rk, s.vm, s.p
	st := &runState{seen: map[int]data.Value{}}
	for _, a := range c.Args {
		st.args = append(st.args, a.ToData())
	}
	for _, a := range c.Prev {
		st.prev = append(st.prev, a.ToData())
	}
	if rk != nil {
		st.ret = goValue(rk, *c.Ret)
	}
	cur = st

	src := c.script()
	r := ori.Run(vm, p, src, "/verif-inproc/c17.php")
	if r.ParseErr != nil {
		res.Inconcl = "generated script rejected by the parser: " + ori.CtlString(r.ParseErr)
		return
	}

	// the values the script actually passed
	passed := make([]SVal, len(c.Args))
	copy(passed, c.Args)
	if c.Mode == "var" {
		for i := range passed {
			d, ok := st.seen[i]
			if !ok {
				res.Inconcl = fmt.Sprintf("var mode: argument %d (%s) was never observed: %s %s", i, c.Args[i].Expr, ori.CtlString(r.Ctl), ori.CtlString(r.Uncaught))
				return
			}
			passed[i] = fromData(d)
		}
	}

	// outcome
	outcome, errText := "ok", ""
	switch {
	case r.Panic != nil:
		outcome, errText = "panic", fmt.Sprint(r.Panic)
		res.Viol = append(res.Viol, viol{
			"path=" + sig.Path + ",fail=panic@" + panicSite(r.PanicStack) + ",msg=" + keyText(errText),
			fmt.Sprintf("%s called with (%s) outside try: Go panic %q crashes the interpreter", sig, showArgs(passed), errText)})
	case len(st.caught) > 0 && strings.Contains(st.caught[0], tryPanicMark):
		outcome = "panic"
		msg := st.caught[0]
		inner := msg[strings.Index(msg, tryPanicMark)+len(tryPanicMark):]
		if i := strings.Index(inner, ")\nstack:"); i >= 0 {
			errText = inner[:i]
		} else {
			errText = inner
		}
		res.Viol = append(res.Viol, viol{
			"path=" + sig.Path + ",fail=panic@" + panicSite(msg) + ",msg=" + keyText(errText),
			fmt.Sprintf("%s called with (%s) inside try: Go panic %q (only the enclosing try's recover kept the interpreter alive)", sig, showArgs(passed), errText)})
	case len(st.caught) > 0:
		outcome, errText = "error", st.caught[0]
	case r.Ctl != nil || r.Uncaught != nil:
		outcome = "error"
		if r.Uncaught != nil {
			errText = r.Uncaught.AsString()
		} else {
			errText = r.Ctl.AsString()
		}
		errText = strings.TrimPrefix(errText, "throw ")
		if c.Try {
			// an error that escaped `catch (Exception $e)` is not what the statement calls catchable
			res.Viol = append(res.Viol, viol{
				"path=" + sig.Path + ",fail=error-not-catchable,msg=" + keyText(stripGoTrace(errText)),
				fmt.Sprintf("%s called with (%s): the error escaped catch (Exception $e): %s", sig, showArgs(passed), errText)})
		}
	case !st.done || len(st.results) != 1:
		res.Inconcl = fmt.Sprintf("script neither failed nor completed (done=%v results=%d)", st.done, len(st.results))
		return
	}
	res.BodyRan = st.bodyRan > 0
	res.Errored = outcome == "error"
	if outcome == "panic" {
		res.Nontrivial = true
		return
	}
	if st.bodyRan > 1 {
		res.Viol = append(res.Viol, viol{"path=" + sig.Path + ",fail=called-more-than-once", fmt.Sprintf("%s: one script call ran the Go body %d times", sig, st.bodyRan)})
	}

	// arguments
	nMust, nTolerant := 0, 0
	for i, k := range kinds {
		ex, want := expectFor(sig.Path, k, passed[i])
		cell := func(fail string) string {
			key := fmt.Sprintf("path=%s,dir=arg,fail=%s,from=%s,class=%s,kind=%s", sig.Path, fail, passed[i].K, passed[i].classFor(k), k.Name)
			if c.Mode == "hist" {
				key += ",via=reassigned-variable"
			}
			return key
		}
		hist := ""
		if c.Mode == "hist" {
			hist = fmt.Sprintf(" — passed as $a%d, which held %s before `$a%d = <this value>`", i, c.Prev[i], i)
		}
		switch ex {
		case exMustError:
			nMust++
			if st.bodyRan > 0 {
				got := "<not recorded>"
				if i < len(st.recorded) {
					got = showGo(st.recorded[i])
				}
				res.Viol = append(res.Viol, viol{cell("silently-passed"),
					fmt.Sprintf("%s: argument %d = %s cannot be represented as %s but the call went through; Go received %s", sig, i, passed[i], k.Name, got)})
			}
			res.Compared++
		case exExact, exExactOrError:
			if ex == exExactOrError {
				nTolerant++
			}
			if st.bodyRan > 0 {
				res.Compared++
				if i >= len(st.recorded) || !sameGo(st.recorded[i], want) {
					var got any
					if i < len(st.recorded) {
						got = st.recorded[i]
					}
					res.Viol = append(res.Viol, viol{cell("wrong-value"),
						fmt.Sprintf("%s: argument %d: the script passed %s, Go received %s (wanted %s)%s", sig, i, passed[i], showGo(got), showGo(want), hist)})
				}
			}
		case exOpen:
			nTolerant++
		}
	}
	if outcome == "error" && nMust == 0 && nTolerant == 0 {
		// every argument is kind-matched and representable in a documented kind: no error is due
		res.Viol = append(res.Viol, viol{"path=" + sig.Path + ",fail=error-on-valid-arguments,msg=" + keyText(stripGoTrace(errText)),
			fmt.Sprintf("%s called with (%s): all arguments are representable, yet the call failed: %s", sig, showArgs(passed), firstLine(errText))})
	}
	if outcome == "error" && st.bodyRan > 0 && sig.Path != "conv" {
		// the Go body ran and the call still failed: the result could not be handed back
		res.Viol = append(res.Viol, viol{"path=" + sig.Path + ",dir=ret,fail=error-after-call,kind=" + sig.Result + ",msg=" + keyText(stripGoTrace(errText)),
			fmt.Sprintf("%s: the Go body ran but the script got an error instead of the result: %s", sig, firstLine(errText))})
	}

	// result
	if outcome == "ok" && sig.Path != "conv" {
		if st.bodyRan == 0 {
			res.Viol = append(res.Viol, viol{"path=" + sig.Path + ",fail=body-never-ran",
				fmt.Sprintf("%s: the script call completed without the Go body running", sig)})
		} else if rk != nil {
			res.Compared++
			if ok, why := checkResult(sig.Path, rk, *c.Ret, st.results[0]); !ok {
				res.Viol = append(res.Viol, viol{fmt.Sprintf("path=%s,dir=ret,fail=wrong-value,class=%s,kind=%s", sig.Path, retClass(rk, *c.Ret), rk.Name),
					fmt.Sprintf("%s: %s", sig, why)})
			}
		}
	}
	if outcome == "ok" && sig.Path == "conv" && st.bodyRan == 0 {
		res.Inconcl = "conv wrapper did not run"
		return
	}
	// an error that is merely tolerated (unsupported sized kind on the reflective path, open
	// kind mismatch) shows nothing about the property and does not count as non-trivial
	res.Nontrivial = st.bodyRan > 0 || (outcome == "error" && nMust > 0)
	return
}

func retClass(k *goKind, v SVal) string {
	switch k.Class {
	case "int":
		switch {
		case v.I == 0:
			return "zero"
		case v.I < 0:
			return "negative"
		}
		return "positive"
	case "uint":
		if v.U > 1<<63-1 {
			return "above-maxint64"
		}
		return "positive"
	}
	return v.classFor(k)
}

func firstLine(s string) string {
	if i := strings.IndexByte(s, '\n'); i >= 0 {
		s = s[:i]
	}
	if len(s) > 200 {
		s = s[:200]
	}
	return s
}

var (
	reQuoted = regexp.MustCompile("\"(?:[^\"\\\\]|\\\\.)*\"?|'[^']*'?")
	reNumber = regexp.MustCompile(`\b\d+(\.\d+)?\b`)
)

// stripGoTrace reduces an error message to its shape: first line, quoted text and numbers
// removed, so that the key of a defect does not change with the argument values.
func stripGoTrace(s string) string {
	s = firstLine(s)
	s = reQuoted.ReplaceAllString(s, "\"…\"")
	return reNumber.ReplaceAllString(s, "N")
}

func showArgs(a []SVal) string {
	p := make([]string, len(a))
	for i, v := range a {
		p[i] = v.String()
	}
	return strings.Join(p, ", ")
}

// workerMain executes the cases of signatures [lo,hi) and appends to the log:
//
//	B <case id>                 before a case
//	E <case id> <json result>   after it (with the replay JSON when it refuted something)
func workerMain(argv []string) {
	if len(argv) != 6 {
		fmt.Fprintln(os.Stderr, "usage: c17 worker <seed> <nrand> <tuples> <lo> <hi> <log>")
		os.Exit(3)
	}
	seed, _ := strconv.ParseInt(argv[0], 10, 64)
	nRand, _ := strconv.Atoi(argv[1])
	tuples, _ := strconv.Atoi(argv[2])
	lo, _ := strconv.Atoi(argv[3])
	hi, _ := strconv.Atoi(argv[4])
	f, err := os.OpenFile(argv[5], os.O_CREATE|os.O_WRONLY|os.O_APPEND, 0o644)
	if err != nil {
		fmt.Fprintln(os.Stderr, err)
		os.Exit(3)
	}
	w := bufio.NewWriterSize(f, 1<<16)
	skip := os.Getenv("C17_SKIP_UNTIL") // resume after the case that killed the previous child
	p := buildPools(seed, nRand)
	sigs := allSigs()
	keySeen := map[string]int{}
	for si := lo; si < hi && si < len(sigs); si++ {
		var sv *sigVM
		for _, c := range casesFor(p, seed, tuples, si, sigs[si]) {
			if skip != "" {
				if c.ID == skip {
					skip = ""
				}
				continue
			}
			fmt.Fprintf(w, "B %s\n", c.ID)
			w.Flush() // must be on disk before the case can take the process down
			if sv == nil {
				sv = newSigVM(sigs[si])
			}
			res := sv.runCase(&c)
			aj, _ := json.Marshal(c.Args)
			rj, _ := json.Marshal(c.Ret)
			out := struct {
				caseResult
				Hash   string `json:"h"`
				Replay *Case  `json:"replay,omitempty"`
			}{caseResult: res, Hash: lib.Hash(c.Sig.String(), strconv.FormatBool(c.Try), c.Mode, string(aj), string(rj), fmt.Sprint(len(c.Prev) > 0 && strings.HasSuffix(strings.TrimRight(c.ID, "tn"), "h1")))}
			fresh := res.Inconcl != ""
			for _, v := range res.Viol { // a replay for the first two cases of each key is plenty
				if keySeen[v.Key] < 2 {
					fresh = true
				}
				keySeen[v.Key]++
			}
			if fresh {
				c.Src = c.script()
				cc := c
				cc.Args = append([]SVal{}, c.Args...)
				for i := range cc.Args { // keep replay files small
					if len(cc.Args[i].S) > 256 {
						cc.Args[i].Note = fmt.Sprintf("string of %d bytes truncated to 256 in this replay file", len(cc.Args[i].S))
						cc.Args[i].S = cc.Args[i].S[:256]
					}
				}
				if cc.Ret != nil && len(cc.Ret.S) > 256 {
					rr := *cc.Ret
					rr.Note = fmt.Sprintf("string of %d bytes truncated to 256 in this replay file", len(rr.S))
					rr.S = rr.S[:256]
					cc.Ret = &rr
				}
				out.Replay = &cc
			}
			j, _ := json.Marshal(out)
			fmt.Fprintf(w, "E %s %s\n", c.ID, j)
		}
	}
	w.Flush()
	f.Close()
}
