package main

// Concurrent callers of ONE registration. A registered function, a method of one shared
// reflected object and a ConvertFromIndex wrapper are each a single Go object that every
// coroutine / request of the VM goes through, so "receives exactly the value the script
// passed" must also hold when N callers are inside the same registration at the same time.
//
// `c17 cworker <cfg.json> <out.json>` (normal and -race build) runs one configuration in its
// own process: N callers (script coroutines started with spawn(), or Go goroutines that each
// run their own pre-parsed program in their own context, the way concurrent HTTP requests
// do) make K rounds of three calls each with arguments that encode (caller, seq) in every
// argument; the Go bodies record what they received and return a value derived from it; the
// callers hand the result to verif_cres. Oracle: the arguments of one call all belong to one
// (caller, seq), the result a caller receives belongs to the call it made, and every
// (function, caller, seq) happens exactly once. Fixed operation counts; no verdict depends
// on time (the watchdog only makes a configuration inconclusive).

import (
	"encoding/json"
	"fmt"
	"math"
	"os"
	"path/filepath"
	"regexp"
	gort "runtime"
	"sort"
	"strconv"
	"strings"
	"sync"
	"time"

	"github.com/php-any/origami/data"
	"github.com/php-any/origami/node"
	"github.com/php-any/origami/utils"
	"verif/lib"
	"verif/ori"
)

type concCfg struct {
	Path    string `json:"path"`  // func | method | conv
	Mode    string `json:"mode"`  // spawn | goroutines
	N       int    `json:"n"`     // callers
	K       int    `json:"k"`     // rounds per caller (3 calls per round)
	Yield   bool   `json:"yield"` // arguments are values whose conversion yields the processor
	Procs   int    `json:"procs"` // GOMAXPROCS (0 = default)
	Race    bool   `json:"race"`
	Seed    int64  `json:"seed"`
	Timeout int    `json:"watchdog_s"`
}

func (c concCfg) Name() string {
	y := "plain"
	if c.Yield {
		y = "yield"
	}
	r := ""
	if c.Race {
		r = "-race"
	}
	return fmt.Sprintf("%s-%s-n%d-k%d-%s-p%d%s", c.Path, c.Mode, c.N, c.K, y, c.Procs, r)
}

type concOut struct {
	Calls   int    `json:"calls"`
	Results int    `json:"results"`
	Viol    []viol `json:"viol,omitempty"`
	Inconcl string `json:"inconcl,omitempty"`
	Script  string `json:"script,omitempty"`
}

// ---- values whose conversion yields: a legal script value (data.Value + As* interfaces)
// that gives other callers the processor in the middle of the argument conversion.

type yInt struct{ v int }

func (y *yInt) GetValue(data.Context) (data.GetValue, data.Control) { return y, nil }
func (y *yInt) AsString() string                                    { return strconv.Itoa(y.v) }
func (y *yInt) AsInt() (int, error)                                 { gort.Gosched(); return y.v, nil }

type yStr struct{ v string }

func (y *yStr) GetValue(data.Context) (data.GetValue, data.Control) { return y, nil }
func (y *yStr) AsString() string                                    { gort.Gosched(); return y.v }

type yFloat struct{ v float64 }

func (y *yFloat) GetValue(data.Context) (data.GetValue, data.Control) { return y, nil }
func (y *yFloat) AsString() string                                    { return strconv.FormatFloat(y.v, 'g', -1, 64) }
func (y *yFloat) AsFloat() (float64, error)                           { gort.Gosched(); return y.v, nil }

// ---- encoding of (caller, seq) in every argument

const seqSpan = 1000000

func encInt(id, seq int) int       { return id*seqSpan + seq }
func encStr(id, seq int) string    { return "c" + strconv.Itoa(id) + "-" + strconv.Itoa(seq) }
func encFloat(id, seq int) float64 { return float64(id) + float64(seq)/1048576 }
func decInt(v int) (int, int)      { return v / seqSpan, v % seqSpan }
func decFloat(f float64) (int, int) {
	i := math.Floor(f)
	return int(i), int(math.Round((f - i) * 1048576))
}
func decStr(s string) (int, int, bool) {
	if !strings.HasPrefix(s, "c") {
		return 0, 0, false
	}
	a, b, ok := strings.Cut(s[1:], "-")
	if !ok {
		return 0, 0, false
	}
	id, e1 := strconv.Atoi(a)
	seq, e2 := strconv.Atoi(b)
	return id, seq, e1 == nil && e2 == nil
}

// ---- recorder (all access under mu: the harness itself must be race-free)

type concRec struct {
	mu      sync.Mutex
	cfg     concCfg
	calls   map[[3]int]int // fn, id, seq -> times the Go body ran
	results map[[3]int]int // fn, id, seq -> results the caller handed back
	ncalls  int
	nres    int
	viol    map[string]string
	errs    []string
	wg      sync.WaitGroup
	obj     data.Value
}

var crec *concRec

func (r *concRec) violate(fail, what string) {
	key := "path=" + r.cfg.Path + ",conc=" + r.cfg.Mode + ",fail=" + fail
	if _, ok := r.viol[key]; !ok {
		r.viol[key] = fmt.Sprintf("%s [%s]", what, r.cfg.Name())
	}
}

type who struct{ id, seq int }

// body is what every Go body does with the (caller, seq) decoded from each argument.
func (r *concRec) body(fn int, ws ...who) {
	r.mu.Lock()
	defer r.mu.Unlock()
	r.ncalls++
	for _, w := range ws[1:] {
		if w != ws[0] {
			r.violate("arguments-of-different-calls", fmt.Sprintf("P%d received arguments of different calls in one call: %v (caller, seq per argument)", fn, ws))
			break
		}
	}
	r.calls[[3]int{fn, ws[0].id, ws[0].seq}]++
}

func pInt(v int) who       { id, seq := decInt(v); return who{id, seq} }
func pFloat(v float64) who { id, seq := decFloat(v); return who{id, seq} }
func pStr(v string) who {
	id, seq, ok := decStr(v)
	if !ok {
		return who{-1, -1}
	}
	return who{id, seq}
}

// the functions under test: P1 returns its int, P2 a string derived from its first argument,
// P3 a float derived from its second argument
func cP1(a int) int { crec.body(1, pInt(a)); return a }
func cP2(a int, b string) string {
	crec.body(2, pInt(a), pStr(b))
	w := pInt(a)
	return encStr(w.id, w.seq)
}
func cP3(a int, b string, c float64) float64 {
	crec.body(3, pInt(a), pStr(b), pFloat(c))
	w := pStr(b)
	return encFloat(w.id, w.seq)
}

// CV17 is the reflected struct; one object is shared by all callers.
type CV17 struct{ _ int }

func (s *CV17) P1(a int) int                          { return cP1(a) }
func (s *CV17) P2(a int, b string) string             { return cP2(a, b) }
func (s *CV17) P3(a int, b string, c float64) float64 { return cP3(a, b, c) }

// concConv: std-wrapper-shaped function over utils.ConvertFromIndex.
type concConv struct{ n int }

func (f *concConv) GetName() string { return "cf" + strconv.Itoa(f.n) }
func (f *concConv) GetParams() []data.GetValue {
	var ps []data.GetValue
	for i := 0; i < f.n; i++ {
		ps = append(ps, node.NewParameter(nil, "param"+strconv.Itoa(i), i, nil, nil))
	}
	return ps
}
func (f *concConv) GetVariables() []data.Variable {
	var vs []data.Variable
	for i := 0; i < f.n; i++ {
		vs = append(vs, node.NewVariable(nil, "param"+strconv.Itoa(i), i, nil))
	}
	return vs
}
func (f *concConv) Call(ctx data.Context) (data.GetValue, data.Control) {
	a, err := utils.ConvertFromIndex[int](ctx, 0)
	if err != nil {
		return nil, utils.NewThrowf("参数转换失败: %v", err)
	}
	if f.n == 1 {
		return data.NewIntValue(cP1(a)), nil
	}
	b, err := utils.ConvertFromIndex[string](ctx, 1)
	if err != nil {
		return nil, utils.NewThrowf("参数转换失败: %v", err)
	}
	if f.n == 2 {
		return data.NewStringValue(cP2(a, b)), nil
	}
	c, err := utils.ConvertFromIndex[float64](ctx, 2)
	if err != nil {
		return nil, utils.NewThrowf("参数转换失败: %v", err)
	}
	return data.NewFloatValue(cP3(a, b, c)), nil
}

func intArg(v data.Value) int {
	if x, ok := v.(*data.IntValue); ok {
		return x.Value
	}
	return -1
}

// hand-written observation functions of the concurrent workload
func concHands(r *concRec) []*handFn {
	return []*handFn{
		{"verif_carg", 3, func(a []data.Value) data.Value { // (caller, seq, position)
			id, seq, k := intArg(a[0]), intArg(a[1]), intArg(a[2])
			switch k {
			case 0:
				if r.cfg.Yield {
					return &yInt{encInt(id, seq)}
				}
				return data.NewIntValue(encInt(id, seq))
			case 1:
				if r.cfg.Yield {
					return &yStr{encStr(id, seq)}
				}
				return data.NewStringValue(encStr(id, seq))
			}
			if r.cfg.Yield {
				return &yFloat{encFloat(id, seq)}
			}
			return data.NewFloatValue(encFloat(id, seq))
		}},
		{"verif_cres", 4, func(a []data.Value) data.Value { // (caller, seq, fn, result)
			id, seq, fn := intArg(a[0]), intArg(a[1]), intArg(a[2])
			got := who{-2, -2}
			switch x := a[3].(type) {
			case *data.IntValue:
				if fn == 1 {
					got = pInt(x.Value)
				}
			case *data.StringValue:
				if fn == 2 {
					got = pStr(x.Value)
				}
			case *data.FloatValue:
				if fn == 3 {
					got = pFloat(x.Value)
				}
			}
			r.mu.Lock()
			defer r.mu.Unlock()
			r.nres++
			r.results[[3]int{fn, id, seq}]++
			if got != (who{id, seq}) {
				shown := "<nil>"
				if a[3] != nil {
					shown = fmt.Sprintf("%T(%s)", a[3], a[3].AsString())
				}
				r.violate("result-of-another-call", fmt.Sprintf("caller %d, call %d of P%d received %s, which is not derived from the arguments it passed", id, seq, fn, shown))
			}
			return nil
		}},
		{"verif_cobj", 0, func(a []data.Value) data.Value { return r.obj }},
		{"verif_csetobj", 1, func(a []data.Value) data.Value { r.obj = a[0]; return nil }},
		{"verif_cdone", 1, func(a []data.Value) data.Value { r.wg.Done(); return nil }},
	}
}

func (c concCfg) callExpr(fn int, id int) string {
	args := make([]string, fn)
	for k := range args {
		args[k] = fmt.Sprintf("verif_carg(%d, $i, %d)", id, k)
	}
	al := strings.Join(args, ", ")
	switch c.Path {
	case "func":
		return fmt.Sprintf("cp%d(%s)", fn, al)
	case "method":
		return fmt.Sprintf("$o->P%d(%s)", fn, al)
	}
	return fmt.Sprintf("cf%d(%s)", fn, al)
}

func (c concCfg) loop(id int, ind string) string {
	var b strings.Builder
	if c.Path == "method" {
		b.WriteString(ind + "$o = verif_cobj();\n")
	}
	fmt.Fprintf(&b, "%sfor ($i = 0; $i < %d; $i++) {\n", ind, c.K)
	for fn := 1; fn <= 3; fn++ {
		fmt.Fprintf(&b, "%s    verif_cres(%d, $i, %d, %s);\n", ind, id, fn, c.callExpr(fn, id))
	}
	b.WriteString(ind + "}\n")
	fmt.Fprintf(&b, "%sverif_cdone(%d);\n", ind, id)
	return b.String()
}

func concWorkerMain(argv []string) {
	if len(argv) != 2 {
		fmt.Fprintln(os.Stderr, "usage: c17 cworker <cfg.json> <out.json>")
		os.Exit(3)
	}
	var cfg concCfg
	raw, err := os.ReadFile(argv[0])
	if err != nil || json.Unmarshal(raw, &cfg) != nil {
		fmt.Fprintln(os.Stderr, "bad configuration", err)
		os.Exit(3)
	}
	if cfg.Procs > 0 {
		gort.GOMAXPROCS(cfg.Procs)
	}
	r := &concRec{cfg: cfg, calls: map[[3]int]int{}, results: map[[3]int]int{}, viol: map[string]string{}}
	crec = r
	out := concOut{}
	finish := func() {
		r.mu.Lock()
		out.Calls, out.Results = r.ncalls, r.nres
		keys := make([]string, 0, len(r.viol))
		for k := range r.viol {
			keys = append(keys, k)
		}
		sort.Strings(keys)
		for _, k := range keys {
			out.Viol = append(out.Viol, viol{k, r.viol[k]})
		}
		r.mu.Unlock()
		j, _ := json.Marshal(out)
		_ = os.WriteFile(argv[1], j, 0o644)
		os.Exit(0)
	}

	vm, p := ori.NewVM()
	data.WriteOutput = func(string) {}
	vm.SetThrowControl(func(acl data.Control) {
		r.mu.Lock()
		r.errs = append(r.errs, acl.AsString())
		r.mu.Unlock()
	})
	for _, h := range concHands(r) {
		if ctl := vm.AddFunc(h); ctl != nil {
			out.Inconcl = "cannot register " + h.name
			finish()
		}
	}
	var ctl data.Control
	switch cfg.Path {
	case "func":
		for name, fn := range map[string]any{"cp1": cP1, "cp2": cP2, "cp3": cP3} {
			if c := vm.RegisterFunction(name, fn); c != nil {
				ctl = c
			}
		}
	case "method":
		ctl = vm.RegisterReflectClass("CV17", &CV17{})
	case "conv":
		for n := 1; n <= 3; n++ {
			if c := vm.AddFunc(&concConv{n}); c != nil {
				ctl = c
			}
		}
	}
	if ctl != nil {
		out.Inconcl = "registration failed: " + ctl.AsString()
		finish()
	}

	r.wg.Add(cfg.N)
	var srcs []string
	if cfg.Mode == "spawn" {
		var b strings.Builder
		b.WriteString("<?php\n")
		for id := 1; id <= cfg.N; id++ {
			fmt.Fprintf(&b, "function cw%d() {\n%s}\n", id, cfg.loop(id, "    "))
		}
		if cfg.Path == "method" {
			b.WriteString("$shared = new CV17();\nverif_csetobj($shared);\n")
		}
		for id := 1; id <= cfg.N; id++ {
			fmt.Fprintf(&b, "spawn(function() { cw%d(); });\n", id)
		}
		srcs = []string{b.String()}
	} else {
		if cfg.Path == "method" {
			srcs = append(srcs, "<?php\n$shared = new CV17();\nverif_csetobj($shared);\n")
		}
		for id := 1; id <= cfg.N; id++ {
			srcs = append(srcs, "<?php\n"+cfg.loop(id, ""))
		}
	}
	out.Script = srcs[len(srcs)-1]

	type prog struct {
		run data.GetValue
		ctx data.Context
	}
	var progs []prog
	for i, src := range srcs {
		pr, acl := p.ParseString(src, fmt.Sprintf("/verif-inproc/c17-conc-%d.php", i))
		if acl != nil {
			out.Inconcl = "generated script rejected by the parser: " + ori.CtlString(acl)
			finish()
		}
		progs = append(progs, prog{pr, vm.CreateContext(p.GetVariables())})
	}
	runProg := func(pg prog) {
		if _, c := pg.run.GetValue(pg.ctx); c != nil {
			r.mu.Lock()
			r.errs = append(r.errs, c.AsString())
			r.mu.Unlock()
		}
	}
	if cfg.Mode == "spawn" {
		runProg(progs[0])
	} else {
		if cfg.Path == "method" {
			runProg(progs[0])
			progs = progs[1:]
		}
		start := make(chan struct{})
		for _, pg := range progs {
			go func(pg prog) { <-start; runProg(pg) }(pg)
		}
		close(start)
	}

	done := make(chan struct{})
	go func() { r.wg.Wait(); close(done) }()
	wd := time.Duration(cfg.Timeout) * time.Second
	if wd == 0 {
		wd = 10 * time.Minute
	}
	select {
	case <-done:
	case <-time.After(wd): // a watchdog, never a verdict
		r.mu.Lock()
		out.Inconcl = fmt.Sprintf("watchdog: callers did not finish (calls=%d results=%d errors=%v)", r.ncalls, r.nres, firstN(r.errs, 2))
		r.mu.Unlock()
		finish()
	}

	r.mu.Lock()
	if len(r.errs) > 0 {
		// a caller ended in a script error although every argument is valid
		r.violate("error-on-valid-arguments", "a concurrent caller failed: "+firstLine(r.errs[0]))
	}
	missing, dup := 0, 0
	example := ""
	for fn := 1; fn <= 3; fn++ {
		for id := 1; id <= cfg.N; id++ {
			for seq := 0; seq < cfg.K; seq++ {
				k := [3]int{fn, id, seq}
				if n := r.calls[k]; n != 1 {
					if n == 0 {
						missing++
					} else {
						dup++
					}
					if example == "" {
						example = fmt.Sprintf("P%d caller %d call %d: Go body ran %d times with these arguments", fn, id, seq, n)
					}
				}
				delete(r.calls, k)
			}
		}
	}
	if missing+dup+len(r.calls) > 0 && len(r.errs) == 0 {
		r.violate("not-exactly-once", fmt.Sprintf("%d calls never reached Go with their own arguments, %d argument tuples arrived more than once, %d tuples nobody passed; e.g. %s", missing, dup, len(r.calls), example))
	}
	r.mu.Unlock()
	finish()
}

func firstN(s []string, n int) []string {
	if len(s) > n {
		s = s[:n]
	}
	return s
}

// ---- race reports

var reRaceFrame = regexp.MustCompile(`^\s+(\S+):\d+ \+0x[0-9a-f]+$`)

var raceAnchors = []string{"runtime/reflect_register.go", "runtime/reflect_class.go", "utils/utils.go"}

// raceSites parses the -race log text: for each report the innermost repository frame of the
// two conflicting accesses ("file:function"), provided no harness frame lies above it.
func raceSites(log, repo string) (attributed map[string]string, total int) {
	attributed = map[string]string{}
	repo = strings.TrimSuffix(repo, "/") + "/"
	for _, block := range strings.Split(log, "WARNING: DATA RACE") {
		if !strings.Contains(block, " by goroutine ") {
			continue
		}
		total++
		var sites []string
		// the first two stacks of a report are the two accesses
		stacks := strings.Split(block, "\n\n")
		for _, st := range stacks {
			head := strings.TrimSpace(st)
			if !(strings.HasPrefix(head, "Write at") || strings.HasPrefix(head, "Read at") || strings.HasPrefix(head, "Previous write at") || strings.HasPrefix(head, "Previous read at")) {
				continue
			}
			lines := strings.Split(st, "\n")
			site := ""
			for i := 0; i+1 < len(lines); i++ {
				m := reRaceFrame.FindStringSubmatch(lines[i+1])
				if m == nil {
					continue
				}
				file, fn := m[1], strings.TrimSpace(lines[i])
				if strings.Contains(file, "/verif/harness/") || strings.HasPrefix(fn, "main.") || strings.HasPrefix(fn, "verif/") {
					break // the access is the harness's own
				}
				if strings.HasPrefix(file, repo) {
					if j := strings.LastIndex(fn, "("); j > 0 {
						fn = fn[:j]
					}
					if j := strings.LastIndex(fn, "/"); j >= 0 {
						fn = fn[j+1:]
					}
					site = strings.TrimPrefix(file, repo) + ":" + fn
					break
				}
			}
			sites = append(sites, site)
		}
		for _, s := range sites {
			for _, a := range raceAnchors {
				if strings.HasPrefix(s, a+":") {
					sort.Strings(sites)
					attributed[strings.Join(sites, "|")] = block
				}
			}
		}
	}
	return
}

// ---- driver side

type concSummary struct {
	Configs, Calls, RaceConfigs, RaceReports, RaceAttributed int
	Unattributed                                             map[string]int
}

func concConfigs(e *lib.Env) []concCfg {
	kPlain, kYield, kRace, kRaceYield := e.Pick(400, 4000), e.Pick(100, 1000), e.Pick(150, 1500), e.Pick(40, 400)
	var out []concCfg
	for _, path := range []string{"func", "method", "conv"} {
		for _, mode := range []string{"spawn", "goroutines"} {
			for i, n := range []int{2, 4, 8} {
				out = append(out, concCfg{Path: path, Mode: mode, N: n, K: kPlain})
				if path != "conv" { // ConvertFromIndex only accepts the built-in value types
					out = append(out, concCfg{Path: path, Mode: mode, N: n, K: kYield, Yield: true, Procs: i % 2}) // GOMAXPROCS 0 (all), 1, 0
				}
			}
			out = append(out, concCfg{Path: path, Mode: mode, N: 4, K: kRace, Race: true})
			if path != "conv" {
				out = append(out, concCfg{Path: path, Mode: mode, N: 2, K: kRaceYield, Yield: true, Race: true, Procs: 1})
				out = append(out, concCfg{Path: path, Mode: mode, N: 8, K: kRaceYield, Yield: true, Race: true})
			}
		}
	}
	for i := range out {
		out[i].Seed = e.Seed
		out[i].Timeout = 900
	}
	return out
}

func runConc(e *lib.Env, self string) concSummary {
	cfgs := concConfigs(e)
	sum := concSummary{Unattributed: map[string]int{}}
	type res struct {
		out     concOut
		ok      bool
		proc    lib.ProcResult
		raceLog string
	}
	results := make([]res, len(cfgs))
	raceBin := e.Bin("c17-race")
	_, raceErr := os.Stat(raceBin)
	lib.ParallelMap(len(cfgs), 4, func(i int) {
		c := cfgs[i]
		dir := filepath.Join(e.Scratch, "conc"+strconv.Itoa(i))
		_ = os.MkdirAll(dir, 0o755)
		cj, _ := json.Marshal(c)
		_ = os.WriteFile(filepath.Join(dir, "cfg.json"), cj, 0o644)
		bin := self
		var env []string
		if c.Race {
			if raceErr != nil {
				return
			}
			bin = raceBin
			env = []string{"GORACE=halt_on_error=0 exitcode=0 log_path=" + filepath.Join(dir, "race")}
		}
		r := lib.RunProc(lib.ProcSpec{Argv: []string{bin, "cworker", filepath.Join(dir, "cfg.json"), filepath.Join(dir, "out.json")},
			Dir: dir, Env: append(env, "GOTRACEBACK=all"), Timeout: 20 * time.Minute, MaxOut: 1 << 20})
		results[i].proc = r
		if b, err := os.ReadFile(filepath.Join(dir, "out.json")); err == nil && json.Unmarshal(b, &results[i].out) == nil {
			results[i].ok = true
		}
		if c.Race {
			logs, _ := filepath.Glob(filepath.Join(dir, "race.*"))
			for _, l := range logs {
				b, _ := os.ReadFile(l)
				results[i].raceLog += string(b)
			}
		}
	})
	for i, c := range cfgs {
		r := results[i]
		if c.Race && raceErr != nil {
			e.Inconclusive("concurrent " + c.Name() + ": no -race worker binary (" + raceErr.Error() + ")")
			continue
		}
		replay := func() []byte {
			b, _ := json.MarshalIndent(map[string]any{"config": c, "script_of_last_caller": r.out.Script,
				"how": "c17 cworker <this config as cfg.json> out.json (c17-race with GORACE=log_path=… for race configurations)"}, "", " ")
			return b
		}
		switch {
		case r.proc.TimedOut:
			e.Inconclusive("concurrent " + c.Name() + ": watchdog")
			continue
		case !r.ok:
			first := r.proc.Stderr
			if a := strings.Index(first, "\ngoroutine "); a >= 0 {
				if b := strings.Index(first[a+1:], "\ngoroutine "); b >= 0 {
					first = first[:a+1+b]
				}
			}
			site := repoRel(lib.PanicSite(first))
			anchored := false
			for _, a := range raceAnchors {
				anchored = anchored || strings.HasPrefix(site, a+":")
			}
			msg := ""
			for _, ln := range strings.Split(r.proc.Stderr, "\n") {
				if strings.HasPrefix(ln, "panic: ") || strings.HasPrefix(ln, "fatal error: ") {
					msg = ln
					break
				}
			}
			if anchored {
				e.Violation("path="+c.Path+",conc="+c.Mode+",fail=fatal@"+site+",msg="+keyText(msg),
					"concurrent callers of one registration killed the process: "+msg+" ["+c.Name()+"]", "txt", []byte(c.Name()+"\n\n"+r.proc.Stderr))
			} else {
				e.Inconclusive(fmt.Sprintf("concurrent %s: worker died outside the boundary code (exit %d %s at %s): %s", c.Name(), r.proc.Exit, r.proc.Signal, site, firstLine(msg)))
			}
			continue
		}
		sum.Configs++
		sum.Calls += r.out.Calls
		if r.out.Inconcl != "" {
			e.Inconclusive("concurrent " + c.Name() + ": " + r.out.Inconcl)
		}
		for _, v := range r.out.Viol {
			e.Violation(v.Key, v.What, "json", replay())
		}
		if c.Race {
			sum.RaceConfigs++
			att, total := raceSites(r.raceLog, e.Repo)
			sum.RaceReports += total
			sum.RaceAttributed += len(att)
			keys := make([]string, 0, len(att))
			for k := range att {
				keys = append(keys, k)
			}
			sort.Strings(keys)
			for _, k := range keys {
				e.Violation("path="+c.Path+",fail=data-race,at="+k,
					"the race detector reports unsynchronised accesses inside the boundary code when "+strconv.Itoa(c.N)+" callers use one registration: "+k+" ["+c.Name()+"]",
					"txt", []byte(c.Name()+"\n\nWARNING: DATA RACE"+att[k]))
			}
			if total > len(att) {
				sum.Unattributed[c.Path+"/"+c.Mode] += total - len(att)
			}
		}
	}
	return sum
}
