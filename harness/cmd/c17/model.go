package main

// The model of C17: Go kinds, script values, boundary pools, the enumerated signature
// space, the deterministic case generator and the oracle. Nothing in this file touches
// the machinery under test (runtime/reflect_*.go, utils.ConvertFromIndex) except the
// table of ConvertFromIndex instantiations at the bottom.

import (
	"crypto/sha256"
	"fmt"
	"math"
	"math/rand"
	"reflect"
	"strconv"
	"strings"
	"unicode/utf8"

	"github.com/php-any/origami/data"
	"github.com/php-any/origami/utils"
)

// named types: the statement quantifies over parameter *kinds*; a named type has the kind
// of its underlying type.
type (
	MyInt     int
	MyInt64   int64
	MyString  string
	MyFloat64 float64
	MyBool    bool
)

type goKind struct {
	Name  string
	RT    reflect.Type
	Class string // int | uint | float | string | bool
	Bits  int
	Core  bool // string, bool, int, int64, float64
	Named bool
	Conv  func(ctx data.Context, i int) (any, error)
}

func conv[T any](ctx data.Context, i int) (any, error) {
	v, err := utils.ConvertFromIndex[T](ctx, i)
	return v, err
}

var kindList = []*goKind{
	{Name: "string", RT: reflect.TypeOf(""), Class: "string", Core: true, Conv: conv[string]},
	{Name: "bool", RT: reflect.TypeOf(false), Class: "bool", Core: true, Conv: conv[bool]},
	{Name: "int", RT: reflect.TypeOf(int(0)), Class: "int", Bits: 64, Core: true, Conv: conv[int]},
	{Name: "int64", RT: reflect.TypeOf(int64(0)), Class: "int", Bits: 64, Core: true, Conv: conv[int64]},
	{Name: "float64", RT: reflect.TypeOf(float64(0)), Class: "float", Bits: 64, Core: true, Conv: conv[float64]},
	{Name: "int8", RT: reflect.TypeOf(int8(0)), Class: "int", Bits: 8, Conv: conv[int8]},
	{Name: "int16", RT: reflect.TypeOf(int16(0)), Class: "int", Bits: 16, Conv: conv[int16]},
	{Name: "int32", RT: reflect.TypeOf(int32(0)), Class: "int", Bits: 32, Conv: conv[int32]},
	{Name: "uint", RT: reflect.TypeOf(uint(0)), Class: "uint", Bits: 64, Conv: conv[uint]},
	{Name: "uint8", RT: reflect.TypeOf(uint8(0)), Class: "uint", Bits: 8, Conv: conv[uint8]},
	{Name: "uint16", RT: reflect.TypeOf(uint16(0)), Class: "uint", Bits: 16, Conv: conv[uint16]},
	{Name: "uint32", RT: reflect.TypeOf(uint32(0)), Class: "uint", Bits: 32, Conv: conv[uint32]},
	{Name: "uint64", RT: reflect.TypeOf(uint64(0)), Class: "uint", Bits: 64, Conv: conv[uint64]},
	{Name: "float32", RT: reflect.TypeOf(float32(0)), Class: "float", Bits: 32, Conv: conv[float32]},
}

const nCore = 5

var namedList = []*goKind{
	{Name: "MyInt", RT: reflect.TypeOf(MyInt(0)), Class: "int", Bits: 64, Named: true, Conv: conv[MyInt]},
	{Name: "MyInt64", RT: reflect.TypeOf(MyInt64(0)), Class: "int", Bits: 64, Named: true, Conv: conv[MyInt64]},
	{Name: "MyString", RT: reflect.TypeOf(MyString("")), Class: "string", Named: true, Conv: conv[MyString]},
	{Name: "MyFloat64", RT: reflect.TypeOf(MyFloat64(0)), Class: "float", Bits: 64, Named: true, Conv: conv[MyFloat64]},
	{Name: "MyBool", RT: reflect.TypeOf(MyBool(false)), Class: "bool", Named: true, Conv: conv[MyBool]},
}

var kindByName = func() map[string]*goKind {
	m := map[string]*goKind{}
	for _, k := range kindList {
		m[k.Name] = k
	}
	for _, k := range namedList {
		m[k.Name] = k
	}
	return m
}()

// ---------------------------------------------------------------------------------
// values

// SVal is a script-side value (K: int float string bool null array other) or, for preset
// results, a Go-side value of a given kind (I/U/F/S/B according to the kind's class).
type SVal struct {
	K    string `json:"k"`
	I    int64  `json:"i,omitempty"`
	U    uint64 `json:"u,omitempty"`
	F    uint64 `json:"fbits,omitempty"`
	S    []byte `json:"s,omitempty"`
	B    bool   `json:"b,omitempty"`
	Expr string `json:"expr,omitempty"` // origami expression producing the value (var mode)
	Note string `json:"note,omitempty"`
}

func sInt(v int64) SVal {
	s := SVal{K: "int", I: v}
	if v > -(1<<31) && v < 1<<31 {
		if v < 0 {
			s.Expr = "(0 - " + strconv.FormatInt(-v, 10) + ")"
		} else {
			s.Expr = strconv.FormatInt(v, 10)
		}
	}
	return s
}
func sFloat(v float64) SVal   { return SVal{K: "float", F: math.Float64bits(v)} }
func sStr(v string) SVal      { return SVal{K: "string", S: []byte(v)} }
func sBool(v bool) SVal       { return SVal{K: "bool", B: v, Expr: strconv.FormatBool(v)} }
func (v SVal) Float() float64 { return math.Float64frombits(v.F) }

func (v SVal) withExpr(e string) SVal { v.Expr = e; return v }

func (v SVal) String() string {
	switch v.K {
	case "int":
		return fmt.Sprintf("int(%d)", v.I)
	case "uint":
		return fmt.Sprintf("uint(%d)", v.U)
	case "float":
		return fmt.Sprintf("float(%v bits=%#016x)", v.Float(), v.F)
	case "string":
		if len(v.S) > 40 {
			return fmt.Sprintf("string(len=%d %q…)", len(v.S), v.S[:24])
		}
		return fmt.Sprintf("string(%q)", v.S)
	case "bool":
		return fmt.Sprintf("bool(%v)", v.B)
	}
	return v.K
}

// ToData builds the script value through the documented manual-integration constructors.
func (v SVal) ToData() data.Value {
	switch v.K {
	case "int":
		return data.NewIntValue(int(v.I))
	case "float":
		return data.NewFloatValue(v.Float())
	case "string":
		return data.NewStringValue(string(v.S))
	case "bool":
		return data.NewBoolValue(v.B)
	case "array":
		return data.NewArrayValue([]data.Value{data.NewIntValue(1), data.NewIntValue(2)})
	}
	return data.NewNullValue()
}

// fromData classifies a script value observed through a hand-written function.
func fromData(d data.Value) SVal {
	switch x := d.(type) {
	case *data.IntValue:
		return SVal{K: "int", I: int64(x.Value)}
	case *data.FloatValue:
		return SVal{K: "float", F: math.Float64bits(x.Value)}
	case *data.StringValue:
		return SVal{K: "string", S: []byte(x.Value)}
	case *data.BoolValue:
		return SVal{K: "bool", B: x.Value}
	case *data.NullValue:
		return SVal{K: "null"}
	case *data.ArrayValue:
		return SVal{K: "array"}
	case nil:
		return SVal{K: "nil"}
	}
	return SVal{K: "other", Note: fmt.Sprintf("%T", d)}
}

// class of a value for violation keys (a closed set of cells, never the value itself)
func (v SVal) classFor(k *goKind) string {
	switch v.K {
	case "int":
		if k != nil && (k.Class == "int" || k.Class == "uint") {
			if intFits(v.I, k) {
				return "in-range"
			}
			return "out-of-range"
		}
		return "int"
	case "float":
		f := v.Float()
		switch {
		case math.IsNaN(f):
			return "nan"
		case math.IsInf(f, 0):
			return "inf"
		case f == 0 && math.Signbit(f):
			return "negzero"
		case f == 0:
			return "zero"
		case math.Abs(f) < 2.2250738585072014e-308:
			return "subnormal"
		}
		if k != nil && k.Bits == 32 && k.Class == "float" {
			if f32Exact(f) {
				return "f32-exact"
			}
			return "f32-inexact"
		}
		return "normal"
	case "string":
		switch {
		case len(v.S) == 0:
			return "empty"
		case len(v.S) >= 65536:
			return "64KiB"
		case !utf8.Valid(v.S):
			return "non-utf8"
		case strings.ContainsRune(string(v.S), 0):
			return "nul"
		}
		for _, b := range v.S {
			if b >= 0x80 {
				return "utf8"
			}
		}
		return "ascii"
	case "bool":
		return strconv.FormatBool(v.B)
	}
	return v.K
}

func intFits(v int64, k *goKind) bool {
	switch k.Class {
	case "int":
		if k.Bits == 64 {
			return true
		}
		lim := int64(1) << (k.Bits - 1)
		return v >= -lim && v < lim
	case "uint":
		if v < 0 {
			return false
		}
		if k.Bits == 64 {
			return true
		}
		return v < int64(1)<<k.Bits
	}
	return false
}

func f32Exact(f float64) bool {
	if math.IsNaN(f) {
		return true
	}
	return math.Float64bits(float64(float32(f))) == math.Float64bits(f)
}

// goValue materialises the Go value of kind k described by v (a preset result, or the value
// a parameter of kind k must receive).
func goValue(k *goKind, v SVal) any {
	var rv reflect.Value
	switch k.Class {
	case "int":
		rv = reflect.ValueOf(v.I)
	case "uint":
		rv = reflect.ValueOf(v.U)
	case "float":
		rv = reflect.ValueOf(v.Float())
	case "string":
		rv = reflect.ValueOf(string(v.S))
	case "bool":
		rv = reflect.ValueOf(v.B)
	}
	return rv.Convert(k.RT).Interface()
}

// sameGo: identical dynamic type and identical value (floats: same bits, or both NaN).
func sameGo(a, b any) bool {
	if a == nil || b == nil {
		return a == nil && b == nil
	}
	ra, rb := reflect.ValueOf(a), reflect.ValueOf(b)
	if ra.Type() != rb.Type() {
		return false
	}
	switch ra.Kind() {
	case reflect.Float64:
		// a float64 is only ever copied on its way to Go: bit-exact, quiet-NaN payloads included
		return math.Float64bits(ra.Float()) == math.Float64bits(rb.Float())
	case reflect.Float32:
		x, y := ra.Float(), rb.Float()
		if math.IsNaN(x) || math.IsNaN(y) { // the float64 -> float32 conversion may rewrite a NaN payload
			return math.IsNaN(x) && math.IsNaN(y)
		}
		return math.Float64bits(x) == math.Float64bits(y)
	case reflect.String:
		return ra.String() == rb.String()
	case reflect.Bool:
		return ra.Bool() == rb.Bool()
	case reflect.Int, reflect.Int8, reflect.Int16, reflect.Int32, reflect.Int64:
		return ra.Int() == rb.Int()
	case reflect.Uint, reflect.Uint8, reflect.Uint16, reflect.Uint32, reflect.Uint64:
		return ra.Uint() == rb.Uint()
	}
	return false
}

func showGo(a any) string {
	switch x := a.(type) {
	case nil:
		return "<nothing>"
	case string:
		if len(x) > 40 {
			return fmt.Sprintf("string(len=%d %q…)", len(x), x[:24])
		}
		return fmt.Sprintf("string(%q)", x)
	}
	rv := reflect.ValueOf(a)
	switch rv.Kind() {
	case reflect.Float32, reflect.Float64:
		return fmt.Sprintf("%s(%v bits=%#x)", rv.Type(), a, math.Float64bits(rv.Float()))
	case reflect.String:
		s := rv.String()
		if len(s) > 40 {
			return fmt.Sprintf("%s(len=%d)", rv.Type(), len(s))
		}
		return fmt.Sprintf("%s(%q)", rv.Type(), s)
	}
	return fmt.Sprintf("%s(%v)", rv.Type(), a)
}

// ---------------------------------------------------------------------------------
// expectations

type expect int

const (
	exExact        expect = iota // the Go side must receive exactly `want`; an error is a violation
	exExactOrError               // a received value must be exactly `want`; a catchable error is tolerated
	exMustError                  // a catchable error is required; delivering any value is a violation
	exOpen                       // kind-mismatched: a value or a catchable error (never a crash)
)

func (e expect) String() string {
	return [...]string{"exact", "exact-or-error", "must-error", "open"}[e]
}

// expectFor decides what parameter kind k must make of script value v on the given path.
//
//   - kind-matched and representable: exact. On the reflective paths the sized kinds (and
//     named types) are not in the documented list of supported parameter types
//     (runtime/README_reflect.md: string, int, float64, bool), so a catchable error is
//     tolerated there; a *wrong* value never is.
//   - script int that the integer kind cannot represent: must be a catchable error.
//   - a clearly non-numeric string for a numeric kind: must be a catchable error
//     (README_reflect.md documents exactly this; DESIGN.md names "abc" -> int).
//   - float64 value that float32 cannot represent exactly: left open (rounding is a
//     defensible conversion; the statement only pins the representable case).
//   - every other kind mismatch: open.
func expectFor(path string, k *goKind, v SVal) (expect, any) {
	soft := k.Named || (path != "conv" && !k.Core)
	exact := func(want any) (expect, any) {
		if soft {
			return exExactOrError, want
		}
		return exExact, want
	}
	switch v.K {
	case "int":
		switch k.Class {
		case "int":
			if intFits(v.I, k) {
				return exact(goValue(k, v))
			}
			return exMustError, nil
		case "uint":
			if intFits(v.I, k) {
				return exact(goValue(k, SVal{U: uint64(v.I)}))
			}
			return exMustError, nil
		}
	case "float":
		if k.Class == "float" {
			if k.Bits == 64 || f32Exact(v.Float()) {
				return exact(goValue(k, v))
			}
		}
	case "string":
		switch k.Class {
		case "string":
			return exact(goValue(k, v))
		case "int", "uint", "float":
			if s := string(v.S); s == "abc" || s == "hello" {
				return exMustError, nil
			}
		}
	case "bool":
		if k.Class == "bool" {
			return exact(goValue(k, v))
		}
	}
	return exOpen, nil
}

// checkResult decides whether the script received what Go returned.
func checkResult(path string, k *goKind, preset SVal, got data.Value) (ok bool, why string) {
	want := goValue(k, preset)
	strict := k.Core
	switch k.Class {
	case "int":
		if x, is := got.(*data.IntValue); is && int64(x.Value) == preset.I {
			return true, ""
		}
	case "uint":
		if x, is := got.(*data.IntValue); is && x.Value >= 0 && uint64(x.Value) == preset.U {
			return true, ""
		}
	case "float":
		if x, is := got.(*data.FloatValue); is {
			w := reflect.ValueOf(want).Float()
			if (k.Bits == 32 && math.IsNaN(w) && math.IsNaN(x.Value)) || math.Float64bits(w) == math.Float64bits(x.Value) {
				return true, ""
			}
		}
	case "string":
		if x, is := got.(*data.StringValue); is && x.Value == string(preset.S) {
			return true, ""
		}
	case "bool":
		if x, is := got.(*data.BoolValue); is && x.Value == preset.B {
			return true, ""
		}
	}
	if !strict {
		// documented fallback of the reflective path: "other types -> converted to string"
		if x, is := got.(*data.StringValue); is && x.Value == fmt.Sprintf("%v", want) {
			return true, ""
		}
	}
	g := fromData(got)
	return false, fmt.Sprintf("Go returned %s, the script received %s", showGo(want), g.String()+g.Note)
}

// ---------------------------------------------------------------------------------
// pools

type pools struct {
	ints    []int64
	floats  []float64
	strs    []string
	matched map[string][]SVal // by kind name: values the kind must receive exactly
	hostile map[string][]SVal // by kind name: out-of-range / mismatched values
	ret     map[string][]SVal // by kind name: preset results
}

func randFor(seed int64, stream string) *rand.Rand {
	h := sha256.Sum256([]byte(fmt.Sprintf("%d/C17/%s", seed, stream)))
	var s int64
	for i := 0; i < 8; i++ {
		s = s<<8 | int64(h[i])
	}
	return rand.New(rand.NewSource(s))
}

var big64K = strings.Repeat("0123456789abcdef", 4096)

func randInt(r *rand.Rand) int64 {
	v := int64(r.Uint64() >> uint(r.Intn(64)))
	if r.Intn(2) == 0 {
		v = -v
	}
	return v
}

func randIntIn(r *rand.Rand, k *goKind) int64 {
	for {
		v := randInt(r)
		if k.Bits < 64 {
			v >>= uint(64 - k.Bits - 1)
			v >>= uint(r.Intn(k.Bits))
		}
		if intFits(v, k) {
			return v
		}
	}
}

func buildPools(seed int64, nRand int) *pools {
	r := randFor(seed, "pools")
	p := &pools{matched: map[string][]SVal{}, hostile: map[string][]SVal{}, ret: map[string][]SVal{}}
	p.ints = []int64{0, 1, -1, 2, 5, 100, 127, 128, -128, -129, 255, 256, 32767, 32768, -32768, -32769, 65535, 65536,
		math.MaxInt32, math.MaxInt32 + 1, math.MinInt32, math.MinInt32 - 1, math.MaxUint32, math.MaxUint32 + 1,
		1 << 53, 1<<53 + 1, math.MaxInt64, math.MaxInt64 - 1, math.MinInt64, math.MinInt64 + 1}
	for i := 0; i < nRand; i++ {
		p.ints = append(p.ints, randInt(r))
	}
	p.floats = []float64{0, math.Copysign(0, -1), 1.5, -2.25, 0.125, 0.1, 1.0 / 3, math.SmallestNonzeroFloat64, -math.SmallestNonzeroFloat64,
		2.2250738585072014e-308, 2.225073858507201e-308, -1e-320, math.MaxFloat64, -math.MaxFloat64, math.Inf(1), math.Inf(-1), math.NaN(),
		math.Float64frombits(0x7ff8dead00000001), math.Float64frombits(0xfff8000000000000), // quiet NaNs with other payloads / sign
		math.MaxFloat32, -math.MaxFloat32, math.SmallestNonzeroFloat32, 1.1754943508222875e-38, 16777216, 16777217, 1e300, 9223372036854775808.0,
		9007199254740992, 9007199254740994, 3.0, -7.0}
	for i := 0; i < nRand; i++ {
		f := math.Float64frombits(r.Uint64())
		if math.IsNaN(f) {
			f = math.NaN() // only the canonical quiet NaN: payload propagation is hardware business
		}
		p.floats = append(p.floats, f)
		p.floats = append(p.floats, float64(math.Float32frombits(r.Uint32()&^0x7f800000|uint32(r.Intn(254)+1)<<23)))
	}
	p.strs = []string{"", "a", "hello world", "héllo wörld ✓ \U0001F600", "\xff\xfe\xfd", "ok\xc3", "a\x00b", "\x00",
		"line1\nline2\t\"q\" 'q' \\ $x {$y} <?php ?>", big64K, big64K + "\xff", "0", "12", "-7", "1.5", "true", " "}
	for i := 0; i < nRand; i++ {
		b := make([]byte, r.Intn(48))
		r.Read(b)
		p.strs = append(p.strs, string(b))
	}
	exprStr := map[string]string{"a": `'a'`, "hello world": `'hello ' . 'world'`, "12": `'12'`, "": `''`, "true": `"true"`}
	exprFloat := map[float64]string{1.5: "1.5", -2.25: "(0 - 2.25)", 0.125: "0.125", 3.0: "(1.5 * 2)"}

	all := append(append([]*goKind{}, kindList...), namedList...)
	for _, k := range all {
		var m, h []SVal
		switch k.Class {
		case "int", "uint":
			for _, v := range p.ints {
				if intFits(v, k) {
					m = append(m, sInt(v))
				} else {
					h = append(h, sInt(v))
				}
			}
			for i := 0; i < nRand; i++ {
				m = append(m, sInt(randIntIn(r, k)))
			}
			m = append(m, sInt(42).withExpr("(6 * 7)"))
			if intFits(128, k) {
				m = append(m, sInt(128).withExpr("(100 + 28)"))
			} else {
				h = append(h, sInt(300).withExpr("(100 + 200)"))
			}
			h = append(h, sFloat(1.9), sFloat(1e30), sFloat(math.NaN()), sFloat(math.Inf(-1)), sFloat(3).withExpr("3.0"),
				sStr("abc").withExpr(`'abc'`), sStr("hello"), sStr("12").withExpr(`'12'`), sStr(""), sStr("1e3"),
				sBool(true), sBool(false), SVal{K: "null", Expr: "null"}, SVal{K: "array", Expr: "[1, 2]"})
		case "float":
			for _, v := range p.floats {
				s := sFloat(v)
				if e, ok := exprFloat[v]; ok {
					s.Expr = e
				}
				if k.Bits == 64 || f32Exact(v) {
					m = append(m, s)
				} else {
					h = append(h, s)
				}
			}
			h = append(h, sInt(3), sInt(math.MaxInt64), sInt(1<<53+1), sInt(-1),
				sStr("abc").withExpr(`'abc'`), sStr("hello"), sStr("1.5").withExpr(`'1.5'`), sStr(""),
				sBool(true), SVal{K: "null", Expr: "null"}, SVal{K: "array", Expr: "[1, 2]"})
		case "string":
			for _, v := range p.strs {
				s := sStr(v)
				if e, ok := exprStr[v]; ok {
					s.Expr = e
				}
				m = append(m, s)
			}
			h = append(h, sInt(5), sInt(math.MinInt64), sFloat(1.5).withExpr("1.5"), sFloat(math.NaN()), sBool(true), sBool(false),
				SVal{K: "null", Expr: "null"}, SVal{K: "array", Expr: "[1, 2]"})
		case "bool":
			m = append(m, sBool(true), sBool(false), sBool(true).withExpr("(1 < 2)"), sBool(false).withExpr("(2 < 1)"))
			h = append(h, sInt(0), sInt(1), sInt(2), sInt(-1), sFloat(0.5).withExpr("0.5"), sFloat(0), sFloat(math.NaN()),
				sStr("true").withExpr(`'true'`), sStr("x"), sStr(""), sStr("0"), SVal{K: "null", Expr: "null"}, SVal{K: "array", Expr: "[1, 2]"})
		}
		p.matched[k.Name], p.hostile[k.Name] = m, h

		// preset results of kind k
		var rv []SVal
		switch k.Class {
		case "int":
			for _, v := range p.ints {
				if intFits(v, k) {
					rv = append(rv, SVal{K: "int", I: v})
				}
			}
			for i := 0; i < nRand; i++ {
				rv = append(rv, SVal{K: "int", I: randIntIn(r, k)})
			}
		case "uint":
			us := []uint64{0, 1, 127, 128, 255, 256, 65535, 65536, math.MaxUint32, math.MaxUint32 + 1, math.MaxInt64, math.MaxInt64 + 1, math.MaxUint64}
			for i := 0; i < nRand; i++ {
				us = append(us, r.Uint64()>>uint(r.Intn(64)))
			}
			for _, u := range us {
				if k.Bits == 64 || u < uint64(1)<<k.Bits {
					rv = append(rv, SVal{K: "uint", U: u})
				}
			}
		case "float":
			for _, v := range p.floats {
				if k.Bits == 64 || f32Exact(v) {
					rv = append(rv, sFloat(v))
				}
			}
		case "string":
			for _, v := range p.strs {
				rv = append(rv, sStr(v))
			}
		case "bool":
			rv = append(rv, sBool(true), sBool(false))
		}
		p.ret[k.Name] = rv
	}
	return p
}

// ---------------------------------------------------------------------------------
// signatures and cases

type Sig struct {
	Path   string   `json:"path"` // func | method | conv
	Params []string `json:"params"`
	Result string   `json:"result,omitempty"` // "" = no result
}

func (s Sig) Name() string {
	n := ""
	for _, p := range s.Params {
		n += "_" + p
	}
	n += "__"
	if s.Result == "" {
		n += "void"
	} else {
		n += s.Result
	}
	return n
}

func (s Sig) String() string {
	r := s.Result
	if r != "" {
		r = " " + r
	}
	return s.Path + ":func(" + strings.Join(s.Params, ", ") + ")" + r
}

// paramLists: every parameter list of arity 0..2 over the 14 kinds and every arity-3 list
// over the 5 core kinds (the enumeration DESIGN.md prescribes).
func paramLists() [][]string {
	out := [][]string{{}}
	for _, a := range kindList {
		out = append(out, []string{a.Name})
	}
	for _, a := range kindList {
		for _, b := range kindList {
			out = append(out, []string{a.Name, b.Name})
		}
	}
	for _, a := range kindList[:nCore] {
		for _, b := range kindList[:nCore] {
			for _, c := range kindList[:nCore] {
				out = append(out, []string{a.Name, b.Name, c.Name})
			}
		}
	}
	return out
}

func allSigs() []Sig {
	var out []Sig
	pls := paramLists()
	for _, path := range []string{"func", "method"} {
		for _, pl := range pls {
			results := []string{""}
			ks := kindList
			if len(pl) == 3 {
				ks = kindList[:nCore]
			}
			for _, k := range ks {
				results = append(results, k.Name)
			}
			for _, r := range results {
				out = append(out, Sig{Path: path, Params: pl, Result: r})
			}
		}
		for _, k := range namedList {
			out = append(out, Sig{Path: path, Params: []string{k.Name}, Result: k.Name})
		}
	}
	for _, pl := range pls {
		out = append(out, Sig{Path: "conv", Params: pl})
	}
	for _, k := range namedList {
		out = append(out, Sig{Path: "conv", Params: []string{k.Name}})
	}
	return out
}

type Case struct {
	ID   string `json:"id"`
	Sig  Sig    `json:"sig"`
	Args []SVal `json:"args"`
	Ret  *SVal  `json:"ret,omitempty"`
	Try  bool   `json:"try"`
	Mode string `json:"mode"`           // inj: arguments injected by verif_arg(i); var: script expressions via variables; hist: variables with a history
	Prev []SVal `json:"prev,omitempty"` // hist mode: what each variable held before it was reassigned the argument
	Seed int64  `json:"seed"`
	Src  string `json:"script,omitempty"`
}

// prevFor: the value a variable holds before it is reassigned the argument v. Variant 0 is the
// twin that an "unchanged, skip the store" shortcut would confuse with v: the zero of the other
// sign, a NaN with another payload, an equal number / same-content string in a different
// object; variant 1 is a different value of the same type.
func prevFor(v SVal, variant int) SVal {
	switch v.K {
	case "float":
		f := v.Float()
		if variant == 0 {
			switch {
			case f == 0:
				return sFloat(math.Copysign(0, -math.Copysign(1, f)))
			case math.IsNaN(f):
				return SVal{K: "float", F: v.F ^ 0x0000beef00000000}
			}
			return sFloat(f)
		}
		if f == 0 || math.IsNaN(f) {
			return sFloat(1.5)
		}
		return sFloat(math.Copysign(0, f))
	case "int":
		if variant == 0 {
			return SVal{K: "int", I: v.I}
		}
		return SVal{K: "int", I: v.I ^ 1}
	case "string":
		if variant == 0 {
			return SVal{K: "string", S: append([]byte{}, v.S...)}
		}
		if len(v.S) == 0 {
			return sStr("x")
		}
		return SVal{K: "string", S: append([]byte{}, v.S[:len(v.S)-1]...)}
	case "bool":
		return SVal{K: "bool", B: v.B == (variant == 0)}
	}
	return SVal{K: "int", I: 0}
}

// casesFor is a pure function of (seed, tuples-per-signature, signature index).
func casesFor(p *pools, seed int64, tuples int, si int, s Sig) []Case {
	r := randFor(seed, fmt.Sprintf("sig/%d", si))
	var out []Case
	add := func(n int, wantVar bool, args []SVal, ret *SVal) {
		mode := "inj"
		if wantVar {
			mode = "var"
			for _, a := range args {
				if a.Expr == "" {
					mode = "inj"
				}
			}
		}
		for _, try := range []bool{true, false} {
			t := "n"
			if try {
				t = "t"
			}
			out = append(out, Case{ID: fmt.Sprintf("%s%s#%d%s", s.Path, s.Name(), n, t), Sig: s, Args: args, Ret: ret, Try: try, Mode: mode, Seed: seed})
		}
	}
	// hist mode: every argument travels through a variable slot that held another value of the same
	// type first (variant 0: an equal-looking twin, variant 1: a different value)
	addHist := func(n int, variant int, args []SVal, ret *SVal, tries ...bool) {
		prev := make([]SVal, len(args))
		for i, a := range args {
			prev[i] = prevFor(a, variant)
		}
		for _, try := range tries {
			t := "n"
			if try {
				t = "t"
			}
			out = append(out, Case{ID: fmt.Sprintf("%s%s#%dh%d%s", s.Path, s.Name(), n, variant, t), Sig: s, Args: args, Prev: prev, Ret: ret, Try: try, Mode: "hist", Seed: seed})
		}
	}
	var retPool []SVal
	if s.Result != "" {
		retPool = p.ret[s.Result]
	}
	pickRet := func(i int) *SVal {
		if retPool == nil {
			return nil
		}
		v := retPool[i%len(retPool)]
		return &v
	}
	switch len(s.Params) {
	case 0:
		n := 1
		if retPool != nil {
			n = len(retPool)
		}
		for i := 0; i < n; i++ {
			add(i, i%2 == 1, nil, pickRet(i))
		}
	case 1:
		// full sweep of the kind's pools; a value with a script expression is run in both modes
		vals := append(append([]SVal{}, p.matched[s.Params[0]]...), p.hostile[s.Params[0]]...)
		off := r.Intn(1 << 20)
		n := 0
		for i, v := range vals {
			add(n, false, []SVal{v}, pickRet(off+i))
			n++
			if v.Expr != "" {
				add(n, true, []SVal{v}, pickRet(off+i+1))
				n++
			}
			addHist(n, 0, []SVal{v}, pickRet(off+i+2), i%2 == 0)
			addHist(n, 1, []SVal{v}, pickRet(off+i+3), i%2 == 1)
			n++
		}
	default:
		for j := 0; j < tuples; j++ {
			args := make([]SVal, len(s.Params))
			for i, k := range s.Params {
				m := p.matched[k]
				args[i] = m[r.Intn(len(m))]
			}
			if j%4 == 3 {
				i := r.Intn(len(args))
				h := p.hostile[s.Params[i]]
				args[i] = h[r.Intn(len(h))]
			}
			if j%4 == 1 { // prefer values that have a script expression, so that var mode is exercised
				for i, k := range s.Params {
					m := p.matched[k]
					for t := 0; t < 64 && args[i].Expr == ""; t++ {
						args[i] = m[r.Intn(len(m))]
					}
				}
			}
			if j%4 == 2 {
				addHist(j, (j/4+si)%2, args, pickRet(r.Intn(1<<20)), true, false)
				continue
			}
			add(j, j%2 == 1, args, pickRet(r.Intn(1<<20)))
		}
	}
	return out
}
