package main

// Call SHAPES. The sequential phase only ever writes `f(a, b, c)`; origami has several other
// ways of binding actual arguments (spread `...expr`, positional + spread, named arguments,
// nested calls as arguments, argument expressions with side effects, omitted trailing
// arguments), each a different code path in node/call.go / the method-call binder, and each
// of them sits between "the value the script passed" and "the value Go received".
//
// Per registration path one VM carries three targets T1(int) int, T2(int, int) int,
// T3(string, int, float64) string and an inner function G1(int) int (= x + 1000), registered
// through vm.RegisterFunction / as methods of a reflected struct / as ConvertFromIndex
// wrappers. Every argument expression is wrapped in the hand-written verif_tap(k, expr), which
// records the evaluated value and hands it on, so the oracle is "Go received exactly what the
// taps saw" and does not depend on the semantics of `$n++`, array literals or evaluation
// order. An argument expression that raises (inner Go call whose argument cannot be
// converted, a script function that throws) must make the whole call raise a catchable
// error and the target's Go body must not run at all.

import (
	"bufio"
	"encoding/json"
	"fmt"
	"math"
	"os"
	"strconv"
	"strings"

	"github.com/php-any/origami/data"
	"github.com/php-any/origami/node"
	"github.com/php-any/origami/parser"
	"github.com/php-any/origami/runtime"
	"github.com/php-any/origami/utils"
	"verif/lib"
	"verif/ori"
)

type invocation struct {
	name string
	args []any
}

type shapeState struct {
	args    []data.Value
	taps    map[int][]data.Value
	inv     []invocation
	results []data.Value
	caught  []string
	done    bool
}

var scur *shapeState

func sInv(name string, args ...any) { scur.inv = append(scur.inv, invocation{name, args}) }

func sT1(a int) int                         { sInv("T1", a); return a }
func sT2(a int, b int) int                  { sInv("T2", a, b); return b }
func sT3(a string, b int, c float64) string { sInv("T3", a, b, c); return a }
func sG1(a int) int                         { sInv("G1", a); return a + 1000 }

// SV17 is the reflected struct of the shapes phase.
type SV17 struct{ _ int }

func (s *SV17) T1(a int) int                         { return sT1(a) }
func (s *SV17) T2(a int, b int) int                  { return sT2(a, b) }
func (s *SV17) T3(a string, b int, c float64) string { return sT3(a, b, c) }
func (s *SV17) G1(a int) int                         { return sG1(a) }

type shapeConv struct {
	name  string
	kinds []*goKind
	call  func(a []any) data.Value
}

func (f *shapeConv) GetName() string { return f.name }
func (f *shapeConv) GetParams() []data.GetValue {
	var ps []data.GetValue
	for i := range f.kinds {
		ps = append(ps, node.NewParameter(nil, "param"+strconv.Itoa(i), i, nil, nil))
	}
	return ps
}
func (f *shapeConv) GetVariables() []data.Variable {
	var vs []data.Variable
	for i := range f.kinds {
		vs = append(vs, node.NewVariable(nil, "param"+strconv.Itoa(i), i, nil))
	}
	return vs
}
func (f *shapeConv) Call(ctx data.Context) (data.GetValue, data.Control) {
	got := make([]any, len(f.kinds))
	for i, k := range f.kinds {
		v, err := k.Conv(ctx, i)
		if err != nil {
			return nil, utils.NewThrowf("参数转换失败: %v", err)
		}
		got[i] = v
	}
	return f.call(got), nil
}

var shapeHands = []*handFn{
	{"verif_arg", 1, func(a []data.Value) data.Value {
		if i := idx(a[0]); i >= 0 && i < len(scur.args) {
			return scur.args[i]
		}
		return data.NewNullValue()
	}},
	{"verif_tap", 2, func(a []data.Value) data.Value {
		k := idx(a[0])
		scur.taps[k] = append(scur.taps[k], a[1])
		return a[1]
	}},
	{"verif_res", 1, func(a []data.Value) data.Value { scur.results = append(scur.results, a[0]); return nil }},
	{"verif_caught", 1, func(a []data.Value) data.Value {
		if a[0] != nil {
			scur.caught = append(scur.caught, a[0].AsString())
		} else {
			scur.caught = append(scur.caught, "")
		}
		return nil
	}},
	{"verif_done", 0, func(a []data.Value) data.Value { scur.done = true; return nil }},
}

type shapeVM struct {
	path string
	vm   *runtime.VM
	p    *parser.Parser
	err  string
}

func newShapeVM(path string) *shapeVM {
	s := &shapeVM{path: path}
	s.vm, s.p = ori.NewVM()
	for _, h := range shapeHands {
		if ctl := s.vm.AddFunc(h); ctl != nil {
			s.err = "cannot register " + h.name
			return s
		}
	}
	var ctl data.Control
	K := func(names ...string) []*goKind {
		var ks []*goKind
		for _, n := range names {
			ks = append(ks, kindByName[n])
		}
		return ks
	}
	switch path {
	case "func":
		for name, fn := range map[string]any{"t1": sT1, "t2": sT2, "t3": sT3, "g1": sG1} {
			if c := s.vm.RegisterFunction(name, fn); c != nil {
				ctl = c
			}
		}
	case "method":
		ctl = s.vm.RegisterReflectClass("SV17", &SV17{})
	case "conv":
		for _, f := range []*shapeConv{
			{"t1", K("int"), func(a []any) data.Value { return data.NewIntValue(sT1(a[0].(int))) }},
			{"t2", K("int", "int"), func(a []any) data.Value { return data.NewIntValue(sT2(a[0].(int), a[1].(int))) }},
			{"t3", K("string", "int", "float64"), func(a []any) data.Value {
				return data.NewStringValue(sT3(a[0].(string), a[1].(int), a[2].(float64)))
			}},
			{"g1", K("int"), func(a []any) data.Value { return data.NewIntValue(sG1(a[0].(int))) }},
		} {
			if c := s.vm.AddFunc(f); c != nil {
				ctl = c
			}
		}
	}
	if ctl != nil {
		s.err = "registration failed: " + ctl.AsString()
		return s
	}
	// the throwing script function is defined once per VM
	scur = &shapeState{taps: map[int][]data.Value{}}
	if r := ori.Run(s.vm, s.p, shapePrelude, "/verif-inproc/c17-shape-prelude.php"); r.ParseErr != nil || r.Ctl != nil || r.Uncaught != nil || r.Panic != nil {
		s.err = "prelude failed: " + ori.CtlString(r.ParseErr) + ori.CtlString(r.Ctl) + ori.CtlString(r.Uncaught) + fmt.Sprint(r.Panic)
	}
	return s
}

const shapePrelude = "<?php\nfunction boom() { throw new Exception(\"boom\"); }\n"

// ---- case description

// argument plan of one position
type argPlan struct {
	Kind string `json:"kind"`          // tap | inner | innerbad | boom | incr | assign
	Arg  int    `json:"arg,omitempty"` // index into Args (tap, inner)
}

type ShapeCase struct {
	ID     string    `json:"id"`
	Path   string    `json:"path"`
	Target string    `json:"target"` // T1 T2 T3
	Shape  string    `json:"shape"`
	Plan   []argPlan `json:"plan"`
	Args   []SVal    `json:"args"`
	Try    bool      `json:"try"`
	Seed   int64     `json:"seed"`
	Src    string    `json:"script,omitempty"`
}

var targetKinds = map[string][]string{"T1": {"int"}, "T2": {"int", "int"}, "T3": {"string", "int", "float64"}}

func (c *ShapeCase) callee(name string) string {
	if c.Path == "method" {
		return "$o->" + name
	}
	return strings.ToLower(name)
}

func (c *ShapeCase) exprs() []string {
	out := make([]string, len(c.Plan))
	for k, p := range c.Plan {
		switch p.Kind {
		case "tap":
			out[k] = fmt.Sprintf("verif_tap(%d, verif_arg(%d))", k, p.Arg)
		case "inner":
			out[k] = fmt.Sprintf("%s(verif_tap(%d, verif_arg(%d)))", c.callee("G1"), 100+k, p.Arg)
		case "innerbad":
			out[k] = fmt.Sprintf("%s('abc')", c.callee("G1"))
		case "boom":
			out[k] = "boom()"
		case "incr":
			out[k] = fmt.Sprintf("verif_tap(%d, $n++)", k)
		case "assign":
			out[k] = fmt.Sprintf("verif_tap(%d, $n = $n + 7)", k)
		}
	}
	return out
}

func (c *ShapeCase) script() string {
	var b strings.Builder
	b.WriteString("<?php\n")
	if c.Path == "method" {
		b.WriteString("$o = new SV17();\n")
	}
	b.WriteString("$n = 40;\n")
	e := c.exprs()
	j := func(x []string) string { return strings.Join(x, ", ") }
	pre, call := "", ""
	t := c.callee(c.Target)
	switch c.Shape {
	case "plain":
		call = t + "(" + j(e) + ")"
	case "spread-literal":
		call = t + "(...[" + j(e) + "])"
	case "spread-variable":
		pre = "$sp = [" + j(e) + "];\n"
		call = t + "(...$sp)"
	case "head1-spread":
		call = t + "(" + e[0] + ", ...[" + j(e[1:]) + "])"
	case "head2-spread":
		call = t + "(" + j(e[:2]) + ", ...[" + j(e[2:]) + "])"
	case "all-then-empty-spread":
		call = t + "(" + j(e) + ", ...[])"
	case "empty-spread-first":
		call = t + "(...[], " + j(e) + ")"
	case "named-in-order":
		n := make([]string, len(e))
		for k := range e {
			n[k] = fmt.Sprintf("param%d: %s", k, e[k])
		}
		call = t + "(" + j(n) + ")"
	case "named-reversed":
		var n []string
		for k := len(e) - 1; k >= 0; k-- {
			n = append(n, fmt.Sprintf("param%d: %s", k, e[k]))
		}
		call = t + "(" + j(n) + ")"
	case "spread-keyed":
		var n []string
		for k := range e {
			n = append(n, fmt.Sprintf("'param%d' => %s", k, e[k]))
		}
		call = t + "(...[" + j(n) + "])"
	case "omit-last":
		call = t + "(" + j(e[:len(e)-1]) + ")"
	}
	ind := ""
	if c.Try {
		b.WriteString("try {\n")
		ind = "    "
	}
	if pre != "" {
		b.WriteString(ind + pre)
	}
	fmt.Fprintf(&b, "%sverif_res(%s);\n", ind, call)
	if c.Try {
		b.WriteString("} catch (Exception $e) {\n    verif_caught($e->getMessage());\n}\n")
	}
	b.WriteString("verif_done();\n")
	return b.String()
}

// ---- generation

func shapeCases(p *pools, seed int64, path string) []ShapeCase {
	r := randFor(seed, "shapes/"+path)
	pick := func(k string) SVal { m := p.matched[k]; return m[r.Intn(len(m))] }
	smallInt := func() SVal { return sInt(int64(r.Intn(2000001) - 1000000)) }
	tuples := map[string][][]SVal{
		"T1": {{sInt(7)}, {sInt(math.MinInt64)}, {sInt(math.MaxInt64)}, {pick("int")}, {sStr("abc")}},
		"T2": {{sInt(7), sInt(-8)}, {sInt(math.MaxInt64), sInt(math.MinInt64)}, {pick("int"), pick("int")}, {sInt(1), sStr("abc")}, {sStr("hello"), sInt(2)}},
		"T3": {{sStr("a"), sInt(7), sFloat(0.5)}, {sStr(""), sInt(math.MinInt64), sFloat(math.Copysign(0, -1))},
			{sStr(big64K), sInt(math.MaxInt64), sFloat(math.NaN())}, {sStr("\xff\xfe"), sInt(-1), sFloat(math.SmallestNonzeroFloat64)},
			{pick("string"), pick("int"), pick("float64")}, {pick("string"), pick("int"), pick("float64")},
			{sStr("x"), sStr("abc"), sFloat(1.5)}, {sStr("x"), sInt(3), sStr("hello")}, {sInt(5), sInt(1), sFloat(2)}},
	}
	shapesFor := func(n int) []string {
		s := []string{"spread-keyed", "plain", "spread-literal", "spread-variable", "all-then-empty-spread", "empty-spread-first", "named-in-order"}
		if n >= 2 {
			s = append(s, "head1-spread", "omit-last")
			if path != "method" {
				// object-method calls bind named arguments positionally for every class, script
				// classes included (`$o->f(b: 1, a: 2)` gives a=1 b=2): a defect of method calls in
				// general, not of the Go boundary, so out-of-order names are compared on the
				// function paths only
				s = append(s, "named-reversed")
			}
		}
		if n >= 3 {
			s = append(s, "head2-spread")
		}
		return s
	}
	var out []ShapeCase
	n := 0
	for _, target := range []string{"T1", "T2", "T3"} {
		kinds := targetKinds[target]
		var plans [][]argPlan
		base := make([]argPlan, len(kinds))
		for k := range base {
			base[k] = argPlan{Kind: "tap", Arg: k}
		}
		plans = append(plans, base)
		with := func(k int, ap argPlan) []argPlan {
			pl := append([]argPlan{}, base...)
			pl[k] = ap
			return pl
		}
		for k, kn := range kinds {
			plans = append(plans, with(k, argPlan{Kind: "boom"}))
			if kn == "int" {
				plans = append(plans, with(k, argPlan{Kind: "inner", Arg: k}), with(k, argPlan{Kind: "innerbad"}), with(k, argPlan{Kind: "incr"}), with(k, argPlan{Kind: "assign"}))
			}
		}
		if target == "T2" {
			plans = append(plans, []argPlan{{Kind: "incr"}, {Kind: "incr"}}, []argPlan{{Kind: "assign"}, {Kind: "incr"}}, []argPlan{{Kind: "inner", Arg: 0}, {Kind: "inner", Arg: 1}})
		}
		for _, shape := range shapesFor(len(kinds)) {
			for pi, plan := range plans {
				hasInner := false
				for _, ap := range plan {
					hasInner = hasInner || ap.Kind == "inner"
				}
				for ti, tup := range tuples[target] {
					args := append([]SVal{}, tup...)
					if hasInner { // the inner call needs an int it can add 1000 to
						for k, ap := range plan {
							if ap.Kind == "inner" {
								args[k] = smallInt()
							}
						}
					}
					if pi > 0 && ti >= 3 && !(pi%2 == 0 && ti == 3) {
						continue // the non-trivial plans run on the first tuples only
					}
					for _, try := range []bool{true, false} {
						t := "n"
						if try {
							t = "t"
						}
						out = append(out, ShapeCase{ID: fmt.Sprintf("s%s_%s_%s_p%d#%d%s", path, target, shape, pi, ti, t),
							Path: path, Target: target, Shape: shape, Plan: plan, Args: args, Try: try, Seed: seed})
						n++
					}
				}
			}
		}
	}
	return out
}

// ---- execution and oracle

func (s *shapeVM) run(c *ShapeCase) (res caseResult) {
	if s.err != "" {
		res.Inconcl = s.err
		return
	}
	st := &shapeState{taps: map[int][]data.Value{}}
	for _, a := range c.Args {
		st.args = append(st.args, a.ToData())
	}
	scur = st
	src := c.script()
	r := ori.Run(s.vm, s.p, src, "/verif-inproc/c17-shape.php")
	if r.ParseErr != nil {
		res.Inconcl = "shape not accepted by the parser (kept out of the compared domain): " + firstLine(ori.CtlString(r.ParseErr))
		return
	}
	key := func(fail string) string {
		return "path=" + c.Path + ",shape=" + c.Shape + ",fail=" + fail
	}
	desc := fmt.Sprintf("%s %s%v", c.Target, c.Shape, c.exprs())

	// what happened
	outcome, errText := "ok", ""
	switch {
	case r.Panic != nil:
		outcome, errText = "panic", fmt.Sprint(r.Panic)
		res.Viol = append(res.Viol, viol{"path=" + c.Path + ",shape=" + c.Shape + ",fail=panic@" + panicSite(r.PanicStack) + ",msg=" + keyText(stripGoTrace(errText)),
			fmt.Sprintf("%s outside try: Go panic %q", desc, errText)})
	case len(st.caught) > 0 && strings.Contains(st.caught[0], tryPanicMark):
		outcome = "panic"
		msg := st.caught[0]
		inner := msg[strings.Index(msg, tryPanicMark)+len(tryPanicMark):]
		if i := strings.Index(inner, ")\nstack:"); i >= 0 {
			inner = inner[:i]
		}
		res.Viol = append(res.Viol, viol{"path=" + c.Path + ",shape=" + c.Shape + ",fail=panic@" + panicSite(msg) + ",msg=" + keyText(stripGoTrace(inner)),
			fmt.Sprintf("%s inside try: Go panic %q", desc, inner)})
	case len(st.caught) > 0:
		outcome, errText = "error", st.caught[0]
	case r.Ctl != nil || r.Uncaught != nil:
		outcome = "error"
		if r.Uncaught != nil {
			errText = r.Uncaught.AsString()
		} else {
			errText = r.Ctl.AsString()
		}
		errText = strings.TrimPrefix(errText, "throw ")
		if c.Try {
			res.Viol = append(res.Viol, viol{key("error-not-catchable"), fmt.Sprintf("%s: the error escaped catch (Exception $e): %s", desc, firstLine(errText))})
		}
	case !st.done || len(st.results) != 1:
		res.Inconcl = fmt.Sprintf("script neither failed nor completed (done=%v results=%d)", st.done, len(st.results))
		return
	}
	res.Errored = outcome == "error"
	if os.Getenv("C17_SHAPE_DEBUG") != "" { // development aid: what the monitors saw
		fmt.Fprintf(os.Stderr, "%s | %s | outcome=%s %s | inv=%v | results=%d\n", c.ID, desc, outcome, firstLine(errText), st.inv, len(st.results))
	}
	if outcome == "panic" {
		res.Nontrivial = true
		return
	}

	// the target's invocations
	var tinv, ginv []invocation
	for _, iv := range st.inv {
		if iv.name == c.Target {
			tinv = append(tinv, iv)
		} else {
			ginv = append(ginv, iv)
		}
	}
	res.BodyRan = len(tinv) > 0

	// expectations per position
	kinds := targetKinds[c.Target]
	provided := len(c.Plan)
	if c.Shape == "omit-last" {
		provided--
	}
	mustRaise, tolerant := false, false
	raiseWhy := ""
	type exp struct {
		ex   expect
		want any
		from string
	}
	exps := make([]exp, provided)
	for k := 0; k < provided; k++ {
		ap := c.Plan[k]
		kd := kindByName[kinds[k]]
		switch ap.Kind {
		case "boom":
			mustRaise, raiseWhy = true, fmt.Sprintf("argument %d throws a script exception", k)
			exps[k] = exp{ex: exOpen}
		case "innerbad":
			mustRaise, raiseWhy = true, fmt.Sprintf("argument %d is a Go call whose own argument 'abc' cannot be converted to int", k)
			exps[k] = exp{ex: exOpen}
		case "inner":
			tv := st.taps[100+k]
			if len(tv) == 0 { // never evaluated: an earlier argument raised
				exps[k] = exp{ex: exOpen}
				continue
			}
			v := fromData(tv[len(tv)-1])
			exps[k] = exp{ex: exExact, want: int(v.I) + 1000, from: fmt.Sprintf("G1(%d)", v.I)}
		default: // tap, incr, assign: what the tap saw
			tv := st.taps[k]
			if len(tv) == 0 {
				exps[k] = exp{ex: exOpen}
				continue
			}
			if len(tv) > 1 {
				res.Viol = append(res.Viol, viol{key("argument-evaluated-more-than-once"), fmt.Sprintf("%s: argument %d was evaluated %d times for one call", desc, k, len(tv))})
			}
			v := fromData(tv[len(tv)-1])
			ex, want := expectFor(c.Path, kd, v)
			exps[k] = exp{ex: ex, want: want, from: v.String()}
			switch ex {
			case exMustError:
				if !mustRaise {
					mustRaise, raiseWhy = true, fmt.Sprintf("argument %d = %s cannot be converted to %s", k, v, kd.Name)
				}
			case exOpen, exExactOrError:
				tolerant = true
			}
		}
	}
	if c.Shape == "omit-last" {
		tolerant = true // what an omitted argument becomes is not stated; the provided ones are still compared
	}

	if mustRaise {
		res.Compared++
		if len(tinv) > 0 {
			res.Viol = append(res.Viol, viol{key("invoked-although-an-argument-raised"),
				fmt.Sprintf("%s: %s, yet the Go body of %s ran and received %s", desc, raiseWhy, c.Target, showAnyList(tinv[0].args))})
		} else if outcome != "error" {
			res.Viol = append(res.Viol, viol{key("argument-error-swallowed"), fmt.Sprintf("%s: %s, yet the call completed without an error", desc, raiseWhy)})
		}
		res.Nontrivial = true
		return
	}
	if outcome == "error" {
		if !tolerant {
			res.Viol = append(res.Viol, viol{key("error-on-valid-arguments") + ",msg=" + keyText(stripGoTrace(errText)),
				fmt.Sprintf("%s with (%s): every argument is valid, yet the call failed: %s", desc, showArgs(c.Args), firstLine(errText))})
		}
		return
	}
	if len(tinv) != 1 {
		res.Viol = append(res.Viol, viol{key("target-ran-" + strconv.Itoa(len(tinv)) + "-times"), fmt.Sprintf("%s: the call completed and the Go body ran %d times", desc, len(tinv))})
		return
	}
	got := tinv[0].args
	for k, ex := range exps {
		if ex.ex == exExact || ex.ex == exExactOrError {
			res.Compared++
			if k >= len(got) || !sameGo(got[k], ex.want) {
				var g any
				if k < len(got) {
					g = got[k]
				}
				res.Viol = append(res.Viol, viol{key("wrong-value") + ",kind=" + kinds[k],
					fmt.Sprintf("%s: argument %d evaluated to %s, Go received %s", desc, k, ex.from, showGo(g))})
			}
		}
	}
	// inner calls: exactly one G1 per inner position, with the tapped value
	nInner := 0
	for k := 0; k < provided; k++ {
		if c.Plan[k].Kind == "inner" {
			nInner++
		}
	}
	if len(ginv) != nInner {
		res.Viol = append(res.Viol, viol{key("inner-call-count"), fmt.Sprintf("%s: %d inner Go calls were written, %d ran", desc, nInner, len(ginv))})
	}
	res.Nontrivial = true
	return
}

func showAnyList(a []any) string {
	p := make([]string, len(a))
	for i, v := range a {
		p[i] = showGo(v)
	}
	return "(" + strings.Join(p, ", ") + ")"
}

// shapeWorkerMain: `c17 sworker <seed> <nrand> <path> <log>`; same log protocol as workerMain.
func shapeWorkerMain(argv []string) {
	if len(argv) != 4 {
		fmt.Fprintln(os.Stderr, "usage: c17 sworker <seed> <nrand> <path> <log>")
		os.Exit(3)
	}
	seed, _ := strconv.ParseInt(argv[0], 10, 64)
	nRand, _ := strconv.Atoi(argv[1])
	path := argv[2]
	f, err := os.OpenFile(argv[3], os.O_CREATE|os.O_WRONLY|os.O_APPEND, 0o644)
	if err != nil {
		fmt.Fprintln(os.Stderr, err)
		os.Exit(3)
	}
	w := bufio.NewWriterSize(f, 1<<16)
	skip := os.Getenv("C17_SKIP_UNTIL")
	p := buildPools(seed, nRand)
	sv := newShapeVM(path)
	keySeen := map[string]int{}
	for _, c := range shapeCases(p, seed, path) {
		if skip != "" {
			if c.ID == skip {
				skip = ""
			}
			continue
		}
		fmt.Fprintf(w, "B %s\n", c.ID)
		w.Flush()
		res := sv.run(&c)
		aj, _ := json.Marshal(c.Args)
		pj, _ := json.Marshal(c.Plan)
		out := struct {
			caseResult
			Hash   string     `json:"h"`
			Replay *ShapeCase `json:"replay,omitempty"`
		}{caseResult: res, Hash: lib.Hash("shape", c.Path, c.Target, c.Shape, string(pj), string(aj), strconv.FormatBool(c.Try))}
		fresh := res.Inconcl != ""
		for _, v := range res.Viol {
			if keySeen[v.Key] < 2 {
				fresh = true
			}
			keySeen[v.Key]++
		}
		if fresh {
			cc := c
			cc.Src = c.script()
			cc.Args = append([]SVal{}, c.Args...)
			for i := range cc.Args {
				if len(cc.Args[i].S) > 256 {
					cc.Args[i].Note = fmt.Sprintf("string of %d bytes truncated to 256 in this replay file", len(cc.Args[i].S))
					cc.Args[i].S = cc.Args[i].S[:256]
				}
			}
			out.Replay = &cc
		}
		j, _ := json.Marshal(out)
		fmt.Fprintf(w, "E %s %s\n", c.ID, j)
	}
	w.Flush()
	f.Close()
}
