// Command c17 decides property C17 (values cross the Go boundary unchanged in both
// directions) on the repository's working tree.
//
// Driver: enumerates the signature space, hands ranges of signatures to child processes of
// itself (`c17 worker …`), which register each signature with a fresh VM — through
// vm.RegisterFunction (reflect.MakeFunc bodies), vm.RegisterReflectClass (generated methods
// of V17) and through wrappers built from utils.ConvertFromIndex[T] — call it from a
// generated script and compare what the Go body recorded / what the script received with
// what was passed / returned. The driver reads the children's BEGIN/END logs, attributes a
// child's death to the case that began and did not end, and reports.
// A second phase (conc.go) puts N concurrent callers into one registration, in normal and
// -race worker processes (NEEDS: race).
package main

import (
	"bufio"
	"encoding/json"
	"fmt"
	"os"
	"path/filepath"
	"sort"
	"strconv"
	"strings"
	"time"

	"verif/lib"
)

type chunkOut struct {
	lines    []logLine // only the lines that carry a violation or an inconclusive note
	hashes   []uint64  // hashes of the non-trivial cases
	evals    int
	compared int
	outcomes map[string]int
	byPath   map[string]int
	inconcl  []string
	fatal    []fatalDeath
	children int
}

type logLine struct {
	id  string
	res struct {
		caseResult
		Hash   string          `json:"h"`
		Replay json.RawMessage `json:"replay,omitempty"`
	}
}

type fatalDeath struct {
	caseID, stderr string
	exit           int
	signal         string
}

// parseLog folds a worker log into o (replacing what an earlier attempt on the same log
// contributed) and returns the case that began and did not end, if any.
func parseLog(path string, o *chunkOut) (dangling string) {
	o.lines, o.hashes, o.evals, o.compared = nil, nil, 0, 0
	o.outcomes, o.byPath = map[string]int{}, map[string]int{}
	f, err := os.Open(path)
	if err != nil {
		return ""
	}
	defer f.Close()
	sc := bufio.NewScanner(f)
	sc.Buffer(make([]byte, 1<<20), 64<<20)
	for sc.Scan() {
		ln := sc.Text()
		switch {
		case strings.HasPrefix(ln, "B "):
			dangling = ln[2:]
		case strings.HasPrefix(ln, "E "):
			rest := ln[2:]
			sp := strings.IndexByte(rest, ' ')
			if sp < 0 {
				continue
			}
			var l logLine
			l.id = rest[:sp]
			if json.Unmarshal([]byte(rest[sp+1:]), &l.res) != nil {
				continue
			}
			if l.id == dangling {
				dangling = ""
			}
			o.evals++
			o.compared += l.res.Compared
			if i := strings.IndexByte(l.id, '_'); i > 0 {
				o.byPath[l.id[:i]]++
			}
			switch {
			case l.res.Inconcl != "":
				o.outcomes["inconclusive"]++
			case l.res.Errored:
				o.outcomes["catchable_error"]++
			case len(l.res.Viol) > 0 && !l.res.BodyRan:
				o.outcomes["panic_or_refused"]++
			default:
				o.outcomes["completed"]++
			}
			if l.res.Nontrivial {
				if h, err := strconv.ParseUint(l.res.Hash, 16, 64); err == nil {
					o.hashes = append(o.hashes, h)
				}
			}
			if len(l.res.Replay) > 0 { // workers attach a replay to the first cases of each key only
				o.lines = append(o.lines, l)
			}
		}
	}
	return
}

func main() {
	if len(os.Args) > 1 && os.Args[1] == "worker" {
		workerMain(os.Args[2:])
		return
	}
	if len(os.Args) > 1 && os.Args[1] == "sworker" {
		shapeWorkerMain(os.Args[2:])
		return
	}
	if len(os.Args) > 1 && os.Args[1] == "cworker" {
		concWorkerMain(os.Args[2:])
		return
	}
	e := lib.Init("C17", "exploration")
	e.RunScriptWitnesses() // C17 has no script witnesses (a witness needs a Go registration); findings are matched by key
	self, err := os.Executable()
	if err != nil {
		self = e.Bin("c17")
	}
	nRand := e.Pick(6, 40)
	tuples := e.Pick(6, 150)
	sigs := allSigs()
	const per = 24
	nSigChunks := (len(sigs) + per - 1) / per
	// jobs: ranges of signatures (sequential phase) and one shapes job per registration path
	type job struct {
		what string
		argv []string
	}
	var jobs []job
	for ci := 0; ci < nSigChunks; ci++ {
		lo, hi := ci*per, ci*per+per
		if hi > len(sigs) {
			hi = len(sigs)
		}
		jobs = append(jobs, job{fmt.Sprintf("signatures [%d,%d)", lo, hi),
			[]string{"worker", strconv.FormatInt(e.Seed, 10), strconv.Itoa(nRand), strconv.Itoa(tuples), strconv.Itoa(lo), strconv.Itoa(hi)}})
	}
	for _, path := range []string{"func", "method", "conv"} {
		jobs = append(jobs, job{"call shapes on path " + path, []string{"sworker", strconv.FormatInt(e.Seed, 10), strconv.Itoa(nRand), path}})
	}
	nChunks := len(jobs)
	outs := make([]chunkOut, nChunks)

	lib.ParallelMap(nChunks, 0, func(ci int) {
		jb := jobs[ci]
		o := &outs[ci]
		log := filepath.Join(e.Scratch, fmt.Sprintf("chunk%d.log", ci))
		skip := ""
		for attempt := 0; attempt < 50; attempt++ {
			o.children++
			r := lib.RunProc(lib.ProcSpec{
				Argv:    append(append([]string{self}, jb.argv...), log),
				Dir:     e.Scratch,
				Env:     []string{"C17_SKIP_UNTIL=" + skip, "GOTRACEBACK=all"},
				Timeout: 45 * time.Minute, // watchdog only
				MaxOut:  1 << 20,
			})
			dangling := parseLog(log, o)
			if r.TimedOut {
				o.inconcl = append(o.inconcl, fmt.Sprintf("worker for %s hit the watchdog at case %q", jb.what, dangling))
				return
			}
			if r.Err != nil {
				o.inconcl = append(o.inconcl, fmt.Sprintf("worker for %s could not start: %v", jb.what, r.Err))
				return
			}
			if dangling == "" {
				if r.Exit != 0 {
					o.inconcl = append(o.inconcl, fmt.Sprintf("worker for %s exited %d between cases: %s", jb.what, r.Exit, firstLine(r.Stderr)))
				}
				return
			}
			// the child died inside a case: that case crashed the interpreter for good
			o.fatal = append(o.fatal, fatalDeath{dangling, r.Stderr, r.Exit, r.Signal})
			skip = dangling
		}
		o.inconcl = append(o.inconcl, fmt.Sprintf("worker for %s: too many deaths, gave up", jb.what))
	})

	distinct := map[uint64]struct{}{}
	evals, compared, children := 0, 0, 0
	outcomes := map[string]int{}
	byPath := map[string]int{}
	for ci := range outs {
		o := &outs[ci]
		children += o.children
		evals += o.evals
		compared += o.compared
		for k, v := range o.outcomes {
			outcomes[k] += v
		}
		for k, v := range o.byPath {
			byPath[k] += v
		}
		for _, h := range o.hashes {
			distinct[h] = struct{}{}
		}
		for _, n := range o.inconcl {
			e.Inconclusive(n)
		}
		for _, fd := range o.fatal {
			evals++
			path := fd.caseID
			if i := strings.IndexByte(path, '_'); i > 0 {
				path = path[:i]
			}
			msg := ""
			for _, ln := range strings.Split(fd.stderr, "\n") {
				if strings.HasPrefix(ln, "panic: ") || strings.HasPrefix(ln, "fatal error: ") {
					msg = ln
					break
				}
			}
			first := fd.stderr // the dying goroutine is printed first; the others are bystanders
			if i := strings.Index(first, "\ngoroutine "); i >= 0 {
				if j := strings.Index(first[i+1:], "\ngoroutine "); j >= 0 {
					first = first[:i+1+j]
				}
			}
			e.Violation("path="+path+",fail=fatal@"+repoRel(lib.PanicSite(first))+",msg="+keyText(msg),
				fmt.Sprintf("case %s killed the worker process (exit %d %s): %s", fd.caseID, fd.exit, fd.signal, msg),
				"txt", []byte("case "+fd.caseID+" seed "+strconv.FormatInt(e.Seed, 10)+" tier "+e.Tier+"\n\n"+fd.stderr))
			outcomes["fatal"]++
		}
		for _, l := range o.lines {
			if l.res.Inconcl != "" {
				e.Inconclusive(l.id + ": " + l.res.Inconcl)
			}
			for _, v := range l.res.Viol {
				e.Violation(v.Key, v.What, "json", l.res.Replay)
			}
		}
	}

	// concurrent callers of one registration (normal and -race workers)
	cs := runConc(e, self)
	evals += cs.Calls
	e.Extra("concurrent_configurations", cs.Configs)
	e.Extra("concurrent_calls", cs.Calls)
	e.Extra("race_configurations", cs.RaceConfigs)
	e.Extra("race_reports", cs.RaceReports)
	e.Extra("race_reports_attributed", cs.RaceAttributed)
	e.Extra("unattributed_races", cs.Unattributed)

	// samples: a few materialised cases
	p := buildPools(e.Seed, nRand)
	var samples []any
	for _, si := range []int{20, 700, 3000, 4100, len(sigs) - 40} {
		if si < 0 || si >= len(sigs) {
			continue
		}
		cs := casesFor(p, e.Seed, tuples, si, sigs[si])
		if len(cs) == 0 {
			continue
		}
		c := cs[len(cs)/2]
		if len(samples)%2 == 1 { // every other sample: a case whose arguments are script expressions
			for _, x := range cs {
				if x.Mode == "var" && !x.Try {
					c = x
					break
				}
			}
		}
		samples = append(samples, map[string]any{"id": c.ID, "signature": c.Sig.String(), "args": showArgs(c.Args), "mode": c.Mode, "script": c.script()})
	}
	nsig := map[string]int{}
	for _, s := range sigs {
		nsig[s.Path]++
	}
	poolSizes := map[string]int{}
	keys := make([]string, 0, len(p.matched))
	for k := range p.matched {
		keys = append(keys, k)
	}
	sort.Strings(keys)
	for _, k := range keys {
		poolSizes[k] = len(p.matched[k]) + len(p.hostile[k])
	}
	e.Extra("signatures_enumerated", nsig)
	e.Extra("signature_space", "arity 0..2 over 14 kinds x 15 results, arity 3 over the 5 core kinds x 6 results, 5 named types; complete")
	e.Extra("cases_by_path", byPath)
	e.Extra("outcomes", outcomes)
	e.Extra("value_comparisons", compared)
	e.Extra("argument_pool_sizes", poolSizes)
	e.Extra("tuples_per_signature_arity_ge_2", tuples)
	e.Extra("worker_processes", children)
	e.Assume(
		"hand-written data.FuncStmt functions (verif_arg/verif_seen/verif_res, the documented manual integration) inject and observe script values faithfully",
		"reflect.MakeFunc functions are called by reflect.Value.Call under the same type rules as compiled functions; struct methods are real compiled methods",
		"64-bit platform: script int = Go int = 64 bits")
	e.Finish(lib.Coverage{
		Evaluations:        evals,
		DistinctNontrivial: len(distinct),
		Rule:               "distinct (path, signature, argument tuple, preset result, try/no-try, passing mode) cases in which the Go body ran and its recorded arguments (and result) were compared with what the script passed (received), or an argument that must be refused was refused with a catchable error, or the call panicked; calls that merely ended in a tolerated error (sized kind unsupported by the reflective path, open kind mismatch) are not counted",
		Samples:            samples,
		Exhaustive:         false,
	})
}
