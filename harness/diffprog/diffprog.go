// Package diffprog is the differential monitor shared by C02 and C05: a generated program
// is run by the real CLI in its own process and its observable behaviour is compared with
// the reference interpreter's.
package diffprog

import (
	"fmt"
	"strings"
	"time"

	"verif/gen"
	"verif/lib"
	"verif/ref"
)

const Budget = 60000

// Verdict of one comparison.
type Verdict struct {
	Skip   string // non-empty: the program is outside the compared domain (reference abort)
	Incon  string // non-empty: watchdog / could not run
	Bad    string // non-empty: the property is refuted; short classification
	Detail string
	Exp    ref.Result
	Got    lib.ProcResult
}

// Expected runs the reference interpreter, tolerating generator/model bugs as skips.
func Expected(p *gen.Program) (res ref.Result, bug string) {
	defer func() {
		if r := recover(); r != nil {
			bug = fmt.Sprint(r)
		}
	}()
	return ref.Run(p, Budget), ""
}

// Compare runs src under the CLI and compares with the expectation.
func Compare(e *lib.Env, bin string, p *gen.Program) Verdict {
	exp, bug := Expected(p)
	if bug != "" {
		return Verdict{Skip: "refbug: " + bug}
	}
	if exp.Abort != "" {
		return Verdict{Skip: exp.Abort, Exp: exp}
	}
	src := gen.Source(p)
	r := e.RunScriptWith(bin, src, 60*time.Second)
	v := Verdict{Exp: exp, Got: r}
	if r.Err != nil {
		v.Incon = "cannot start: " + r.Err.Error()
		return v
	}
	if r.TimedOut {
		// the reference terminated within its step budget, so this is suspicious, but a
		// wall-clock watchdog never decides
		v.Incon = "watchdog fired"
		return v
	}
	if crash, what := lib.GoCrash(r); crash {
		v.Bad = "crash"
		v.Detail = what
		return v
	}
	if r.Stdout != exp.Out {
		v.Bad = "stdout"
		v.Detail = firstDiff(exp.Out, r.Stdout)
		return v
	}
	if exp.Uncaught == nil {
		if r.Exit != 0 {
			v.Bad = "exit"
			v.Detail = fmt.Sprintf("exit status %d for a program that ends normally; stderr: %s", r.Exit, head(r.Stderr))
		}
		return v
	}
	// uncaught throwable: non-zero status and a diagnostic, earlier output intact (checked above)
	if r.Exit == 0 {
		v.Bad = "uncaught.exit0"
		v.Detail = "uncaught throwable but exit status 0; stderr: " + head(r.Stderr)
		return v
	}
	if strings.TrimSpace(r.Stderr) == "" {
		v.Bad = "uncaught.nodiag"
		v.Detail = "uncaught throwable but no diagnostic on stderr"
		return v
	}
	if !exp.Uncaught.Runtime && exp.Uncaught.Msg != "" && !strings.Contains(r.Stderr, exp.Uncaught.Msg) {
		v.Bad = "uncaught.diag"
		v.Detail = fmt.Sprintf("diagnostic does not name the uncaught exception's message %q: %s", exp.Uncaught.Msg, head(r.Stderr))
	}
	return v
}

func head(s string) string {
	if len(s) > 300 {
		return s[:300] + "…"
	}
	return s
}

func firstDiff(want, got string) string {
	wl, gl := strings.Split(want, "\n"), strings.Split(got, "\n")
	for i := 0; i < len(wl) || i < len(gl); i++ {
		var w, g string
		if i < len(wl) {
			w = wl[i]
		} else {
			w = "<end>"
		}
		if i < len(gl) {
			g = gl[i]
		} else {
			g = "<end>"
		}
		if w != g {
			return fmt.Sprintf("line %d: expected %q, got %q", i+1, head(w), head(g))
		}
	}
	return "outputs differ"
}

// Replay renders a violation as a runnable script with the expectation in a comment header.
func Replay(p *gen.Program, v Verdict) []byte {
	var sb strings.Builder
	sb.WriteString(gen.Source(p))
	sb.WriteString("\n/* ---- verif expectation (reference interpreter) ----\n")
	sb.WriteString("verdict: " + v.Bad + " :: " + v.Detail + "\n")
	if v.Exp.Uncaught != nil {
		fmt.Fprintf(&sb, "ends with uncaught %s(%q): non-zero exit status and a diagnostic expected\n", v.Exp.Uncaught.Class, v.Exp.Uncaught.Msg)
	}
	sb.WriteString("expected stdout:\n" + strings.ReplaceAll(v.Exp.Out, "*/", "* /") + "\n---- actual stdout:\n" + strings.ReplaceAll(v.Got.Stdout, "*/", "* /"))
	fmt.Fprintf(&sb, "\n---- actual exit=%d stderr:\n%s\n*/\n", v.Got.Exit, strings.ReplaceAll(head(v.Got.Stderr), "*/", "* /"))
	return []byte(sb.String())
}

// Minimize shrinks a failing program while the same classification of failure persists.
func Minimize(e *lib.Env, bin string, p *gen.Program, bad string) *gen.Program {
	return gen.Shrink(p, func(q *gen.Program) bool {
		v := Compare(e, bin, q)
		return v.Bad == bad
	}, 400)
}
