package diffprog

import (
	"fmt"

	"verif/gen"
)

var LoopKinds = []string{"for", "while", "dowhile", "foreach", "foreachk"}

// MkLoop builds a loop of the given kind running `iters` times; idx is the expression
// naming its iteration variable.
func MkLoop(kind, id string, iters int, body []gen.Stmt) (gen.Stmt, *gen.Var) {
	switch kind {
	case "for":
		v := &gen.Var{Name: "k" + id, T: gen.TInt}
		return &gen.For{V: v.Name, From: 0, To: iters, Body: body}, v
	case "while":
		v := &gen.Var{Name: "g" + id, T: gen.TInt}
		return &gen.While{Guard: v.Name, Limit: iters, Cond: &gen.BoolLit{B: true}, Body: body}, v
	case "dowhile":
		v := &gen.Var{Name: "g" + id, T: gen.TInt}
		return &gen.DoWhile{Guard: v.Name, Limit: iters, Cond: &gen.BoolLit{B: true}, Body: body}, v
	case "foreachk":
		// foreach over a string-keyed literal (a different iteration path in the interpreter)
		v := &gen.Var{Name: "v" + id, T: gen.TInt}
		m := &gen.MapLit{}
		for i := 0; i < iters; i++ {
			m.Keys = append(m.Keys, []string{"a", "b", "k", "xy", "id"}[i%5])
			m.Vals = append(m.Vals, &gen.IntLit{V: int64(i)})
		}
		return &gen.Foreach{Src: m, KeyVar: "q" + id, ValVar: v.Name, Body: body}, v
	default:
		v := &gen.Var{Name: "v" + id, T: gen.TInt}
		a := &gen.ArrLit{}
		for i := 0; i < iters; i++ {
			a.Elems = append(a.Elems, &gen.IntLit{V: int64(i)})
		}
		return &gen.Foreach{Src: a, ValVar: v.Name, Body: body}, v
	}
}

func Nl() gen.Expr { return &gen.Interp{Parts: []gen.InterpPart{{Lit: "\n"}}} }

func EchoS(s string, vs ...gen.Expr) gen.Stmt {
	args := []gen.Expr{&gen.StrLit{S: s}}
	args = append(args, vs...)
	args = append(args, Nl())
	return &gen.Echo{Args: args}
}

// NestCase is one member of the enumerated loop-exit family.
type NestCase struct {
	Name string
	Prog *gen.Program
}

// LoopExitFamily enumerates (loop kind ^ depth) x {break,continue} x level x position.
// Positions: plain, inside if, inside switch (the switch adds one level), and — when
// withTry — inside try{}finally{} and inside a catch block.
func LoopExitFamily(withTry bool) []NestCase {
	var out []NestCase
	positions := []string{"plain", "if", "switch"}
	if withTry {
		positions = []string{"try", "catch", "tryfinally-in-switch"}
	}
	for depth := 2; depth <= 3; depth++ {
		n := 1
		for i := 0; i < depth; i++ {
			n *= len(LoopKinds)
		}
		for combo := 0; combo < n; combo++ {
			kinds := make([]string, depth)
			c := combo
			for i := 0; i < depth; i++ {
				kinds[i] = LoopKinds[c%len(LoopKinds)]
				c /= len(LoopKinds)
			}
			for _, exit := range []string{"break", "continue"} {
				for level := 1; level <= depth; level++ {
					if depth == 3 && level < 3 && combo%5 != 0 {
						continue // depth 3 is mainly there for level 3; thin out the rest
					}
					for _, pos := range positions {
						p := buildNest(kinds, exit, level, pos)
						out = append(out, NestCase{Name: fmt.Sprintf("%v/%s%d/%s", kinds, exit, level, pos), Prog: p})
					}
				}
			}
		}
	}
	return out
}

func buildNest(kinds []string, exit string, level int, pos string) *gen.Program {
	p := &gen.Program{Features: map[string]bool{}}
	depth := len(kinds)
	// innermost body
	var idxs []*gen.Var
	// build from the inside out; first create index vars
	type lp struct {
		kind string
		id   string
	}
	var lps []lp
	for i, k := range kinds {
		lps = append(lps, lp{k, fmt.Sprint(i + 1)})
	}
	// innermost loop index variable is needed for the condition; construct loops recursively
	var build func(i int) gen.Stmt
	build = func(i int) gen.Stmt {
		var body []gen.Stmt
		_, iv := MkLoop(lps[i].kind, lps[i].id, 3, nil)
		idxs = append(idxs, iv)
		body = append(body, EchoS(fmt.Sprintf("in%d:", i+1), iv))
		if i == depth-1 {
			printed := level
			mk := func() gen.Stmt {
				if exit == "break" {
					return &gen.Break{Level: printed}
				}
				return &gen.Continue{Level: printed}
			}
			cond := &gen.Bin{Op: "==", L: iv, R: &gen.IntLit{V: 1}, T: gen.TBool}
			switch pos {
			case "plain":
				// unconditional exits make the tail dead; guard by the condition anyway
				body = append(body, &gen.If{Cond: cond, Then: []gen.Stmt{mk()}})
			case "if":
				body = append(body, &gen.If{Cond: &gen.BoolLit{B: true}, Then: []gen.Stmt{&gen.If{Cond: cond, Then: []gen.Stmt{EchoS("x"), mk()}, HasElse: true, Else: []gen.Stmt{EchoS("e")}}}})
			case "switch":
				printed = level + 1
				p.Features["switch"] = true
				if exit == "continue" {
					p.Features["switch.continue"] = true
				} else {
					p.Features["switch.break.level>1"] = true
				}
				body = append(body, &gen.Switch{Subj: iv, Cases: []gen.Case{
					{Vals: []gen.Expr{&gen.IntLit{V: 1}}, Body: []gen.Stmt{EchoS("c1"), mk()}},
					{Default: true, Body: []gen.Stmt{EchoS("d"), &gen.Break{Level: 1}}},
				}})
			case "try":
				p.Features["try"] = true
				p.Features["finally"] = true
				body = append(body, &gen.Try{Body: []gen.Stmt{&gen.If{Cond: cond, Then: []gen.Stmt{mk()}}, EchoS("t")}, HasFinally: true, Finally: []gen.Stmt{EchoS("f")}})
			case "catch":
				p.Features["try"] = true
				p.Features["finally"] = true
				body = append(body, &gen.Try{
					Body:       []gen.Stmt{&gen.Throw{Class: "E0", Msg: &gen.StrLit{S: "m"}}},
					Catches:    []gen.Catch{{Types: []string{"E0"}, Var: "e1", Body: []gen.Stmt{&gen.If{Cond: cond, Then: []gen.Stmt{mk()}}, EchoS("c")}}},
					HasFinally: true, Finally: []gen.Stmt{EchoS("f")}})
			case "tryfinally-in-switch":
				printed = level + 1
				p.Features["try"] = true
				p.Features["finally"] = true
				p.Features["switch"] = true
				if exit == "continue" {
					p.Features["switch.continue"] = true
				} else {
					p.Features["switch.break.level>1"] = true
				}
				body = append(body, &gen.Switch{Subj: iv, Cases: []gen.Case{
					{Vals: []gen.Expr{&gen.IntLit{V: 1}}, Body: []gen.Stmt{&gen.Try{Body: []gen.Stmt{mk()}, HasFinally: true, Finally: []gen.Stmt{EchoS("f")}}}},
					{Default: true, Body: []gen.Stmt{EchoS("d"), &gen.Break{Level: 1}}},
				}})
			}
			if printed > 1 {
				p.Features["loopctl.level>1"] = true
			}
			body = append(body, EchoS(fmt.Sprintf("tail%d", i+1)))
		} else {
			body = append(body, build(i+1))
			body = append(body, EchoS(fmt.Sprintf("after%d", i+2)))
		}
		l, _ := MkLoop(lps[i].kind, lps[i].id, 3, body)
		return l
	}
	for _, k := range kinds {
		p.Features[k] = true
	}
	if pos == "try" || pos == "catch" || pos == "tryfinally-in-switch" {
		p.Classes = []gen.ClassDecl{{Name: "E0", Extends: "Exception"}}
	}
	// the loop counters after the nest are observable too (an exit by break/continue N
	// must not run a for-loop's increment clause once more); foreach value variables are
	// left out (what they hold after the loop is not part of the compared domain)
	nest := build(0)
	var tail []gen.Expr
	for i, iv := range idxs {
		if lps[i].kind != "foreach" && lps[i].kind != "foreachk" {
			tail = append(tail, iv, &gen.StrLit{S: ","})
		}
	}
	p.Main = []gen.Stmt{nest, EchoS("end:", tail...)}
	return p
}
