// Package lib is the shared runtime of the per-property checks: environment, process
// runner, known-findings matching, replay files, evidence writer and verdict/exit
// discipline. It deliberately does not import origami, so that it compiles whatever the
// state of /repo.
package lib

import (
	"bufio"
	"bytes"
	"crypto/sha256"
	"encoding/hex"
	"encoding/json"
	"fmt"
	"math/rand"
	"os"
	"os/exec"
	"path/filepath"
	"runtime"
	"sort"
	"strconv"
	"strings"
	"sync"
	"sync/atomic"
	"syscall"
	"time"
)

// Env describes one invocation of one property check.
type Env struct {
	ID      string // property id, e.g. "C03"
	Tier    string // quick | thorough
	Seed    int64
	Verif   string // /verif
	Repo    string // /repo or $VERIF_REPO
	Build   string // directory with the binaries built by check.sh
	Scratch string // per-run scratch directory (removed by Finish)
	Level   string

	start time.Time

	mu          sync.Mutex
	findings    []*Finding
	violations  []violation // unlisted
	knownHit    map[string]string
	inconcl     []string
	extra       map[string]any
	assumptions []string
	maxReported int
}

type violation struct {
	Key, What, Replay string
}

// Finding is one line of KNOWN_FINDINGS.txt.
type Finding struct {
	Property   string
	ID         string
	Key        string   // violation key this finding matches (exact), optional
	KeyPrefix  string   // violation key prefix this finding matches, optional
	Witness    string   // path (relative to /verif) of a witness input, optional
	Expect     string   // path of the output the property prescribes for the witness
	Quarantine []string // generator feature tags switched off while the witness still fails
	Text       string
	Active     bool // witness re-run by this invocation still fails / key observed
	Checked    bool // witness was re-run by this invocation
}

func getenv(k, d string) string {
	if v := os.Getenv(k); v != "" {
		return v
	}
	return d
}

// Init reads the environment that check.sh sets up.
func Init(id, level string) *Env {
	e := &Env{ID: id, Level: level, start: time.Now(), knownHit: map[string]string{}, extra: map[string]any{}, maxReported: 20}
	e.Tier = getenv("VERIF_TIER", "quick")
	if e.Tier != "quick" && e.Tier != "thorough" {
		e.Tier = "quick"
	}
	s, err := strconv.ParseInt(getenv("VERIF_SEED", "1"), 10, 64)
	if err != nil {
		s = 1
	}
	e.Seed = s
	e.Verif = getenv("VERIF_DIR", "/verif")
	e.Repo = getenv("VERIF_REPO", "/repo")
	e.Build = getenv("VERIF_BUILD", filepath.Join(e.Verif, ".build"))
	base := filepath.Join(e.Verif, ".work")
	_ = os.MkdirAll(base, 0o755)
	d, err := os.MkdirTemp(base, id+"-")
	if err != nil {
		fmt.Fprintln(os.Stderr, "cannot create scratch:", err)
		os.Exit(2)
	}
	e.Scratch = d
	e.loadFindings()
	return e
}

func (e *Env) Quick() bool { return e.Tier == "quick" }

// Pick returns q in the quick tier and t in the thorough tier.
func (e *Env) Pick(q, t int) int {
	if e.Quick() {
		return q
	}
	return t
}

// Rand returns a PRNG that is a pure function of the seed and the stream name.
func (e *Env) Rand(stream string) *rand.Rand {
	h := sha256.Sum256([]byte(fmt.Sprintf("%d/%s/%s", e.Seed, e.ID, stream)))
	var s int64
	for i := 0; i < 8; i++ {
		s = s<<8 | int64(h[i])
	}
	return rand.New(rand.NewSource(s))
}

func (e *Env) Origami() string     { return filepath.Join(e.Build, "origami") }
func (e *Env) OrigamiRace() string { return filepath.Join(e.Build, "origami-race") }
func (e *Env) Bin(name string) string {
	return filepath.Join(e.Build, name)
}

// ---------------------------------------------------------------------------------
// known findings

func (e *Env) loadFindings() {
	e.loadFindingsFile(filepath.Join(e.Verif, "KNOWN_FINDINGS.txt"))
	// development aid only: lines proposed by a check's author but not yet merged
	if x := os.Getenv("VERIF_EXTRA_FINDINGS"); x != "" {
		e.loadFindingsFile(x)
	}
}

func (e *Env) loadFindingsFile(path string) {
	f, err := os.Open(path)
	if err != nil {
		return
	}
	defer f.Close()
	sc := bufio.NewScanner(f)
	sc.Buffer(make([]byte, 1<<20), 1<<20)
	for sc.Scan() {
		line := strings.TrimSpace(sc.Text())
		if !strings.HasPrefix(line, "finding:") {
			continue
		}
		rest := strings.TrimSpace(strings.TrimPrefix(line, "finding:"))
		text := ""
		if i := strings.Index(rest, "::"); i >= 0 {
			text = strings.TrimSpace(rest[i+2:])
			rest = rest[:i]
		}
		fd := &Finding{Text: text}
		for _, kv := range strings.Fields(rest) {
			k, v, ok := strings.Cut(kv, "=")
			if !ok {
				continue
			}
			switch k {
			case "property":
				fd.Property = v
			case "id":
				fd.ID = v
			case "key":
				fd.Key = v
			case "keyprefix":
				fd.KeyPrefix = v
			case "witness":
				fd.Witness = v
			case "expect":
				fd.Expect = v
			case "quarantine":
				fd.Quarantine = strings.Split(v, ",")
			}
		}
		if fd.Property == e.ID {
			e.findings = append(e.findings, fd)
		}
	}
}

// Findings lists the findings recorded for this property.
func (e *Env) Findings() []*Finding { return e.findings }

// MarkFinding records the outcome of re-running a finding's witness.
func (e *Env) MarkFinding(fd *Finding, stillFails bool, what string) {
	e.mu.Lock()
	defer e.mu.Unlock()
	fd.Checked = true
	fd.Active = stillFails
	if stillFails {
		if what == "" {
			what = fd.Text
		}
		e.knownHit[fd.ID] = what
	}
}

// Quarantined reports whether a generator feature is switched off by a finding whose
// witness still fails (call after the witnesses were re-run).
func (e *Env) Quarantined(feature string) bool {
	for _, fd := range e.findings {
		if !fd.Active {
			continue
		}
		for _, q := range fd.Quarantine {
			if q == feature {
				return true
			}
		}
	}
	return false
}

// RunScriptWitnesses re-runs every finding that has a script witness with an expected
// stdout: the finding is active while the CLI's stdout differs from the expectation.
func (e *Env) RunScriptWitnesses() {
	for _, fd := range e.findings {
		if fd.Witness == "" || fd.Expect == "" {
			continue
		}
		want, err := os.ReadFile(filepath.Join(e.Verif, fd.Expect))
		if err != nil {
			e.Inconclusive("finding " + fd.ID + ": cannot read expectation: " + err.Error())
			continue
		}
		r := RunProc(ProcSpec{Argv: []string{e.Origami(), filepath.Join(e.Verif, fd.Witness)}, Timeout: 60 * time.Second, Dir: e.Scratch})
		fails := r.Stdout != string(want)
		e.MarkFinding(fd, fails, "")
	}
}

// RunRegressionScripts runs every findings/<ID>/*.php that has a .expected file and is not
// the witness of a listed finding: these are the witnesses of repaired defects, kept as
// always-run regression inputs. A mismatch is an ordinary (unlisted) violation.
func (e *Env) RunRegressionScripts() int {
	dir := filepath.Join(e.Verif, "findings", e.ID)
	ents, _ := os.ReadDir(dir)
	n := 0
	for _, ent := range ents {
		name := ent.Name()
		if !strings.HasSuffix(name, ".php") {
			continue
		}
		rel := filepath.Join("findings", e.ID, name)
		listed := false
		for _, fd := range e.findings {
			if fd.Witness == rel {
				listed = true
			}
		}
		want, err := os.ReadFile(filepath.Join(dir, strings.TrimSuffix(name, ".php")+".expected"))
		if listed || err != nil {
			continue
		}
		r := RunProc(ProcSpec{Argv: []string{e.Origami(), filepath.Join(dir, name)}, Timeout: 60 * time.Second, Dir: e.Scratch})
		n++
		if r.TimedOut {
			e.Inconclusive("regression script " + name + ": watchdog")
			continue
		}
		if r.Stdout != string(want) {
			src, _ := os.ReadFile(filepath.Join(dir, name))
			e.Violation("regress:"+name, "regression input of a repaired defect fails again: expected stdout "+strconv.Quote(string(want))+", got "+strconv.Quote(r.Stdout), "php", src)
		}
	}
	return n
}

// ---------------------------------------------------------------------------------
// verdicts

// Violation records a refutation of the property. key identifies the failing input,
// call site or history; a key listed in KNOWN_FINDINGS.txt is reported as KNOWN-FINDING,
// anything else as VIOLATION. replayExt/replay is the materialised case.
func (e *Env) Violation(key, what, replayExt string, replay []byte) {
	e.mu.Lock()
	defer e.mu.Unlock()
	for _, fd := range e.findings {
		if (fd.Key != "" && fd.Key == key) || (fd.KeyPrefix != "" && strings.HasPrefix(key, fd.KeyPrefix)) {
			fd.Active = true
			fd.Checked = true
			if _, ok := e.knownHit[fd.ID]; !ok {
				e.knownHit[fd.ID] = fd.Text
			}
			return
		}
	}
	for _, v := range e.violations {
		if v.Key == key {
			return
		}
	}
	dir := filepath.Join(e.Verif, "replays", e.ID)
	if e.Repo != "/repo" {
		dir = filepath.Join(e.Verif, ".work", "replays-scratch", e.ID)
	}
	_ = os.MkdirAll(dir, 0o755)
	h := sha256.Sum256(append([]byte(key+"\x00"), replay...))
	p := filepath.Join(dir, hex.EncodeToString(h[:8])+"."+strings.TrimPrefix(replayExt, "."))
	_ = os.WriteFile(p, replay, 0o644)
	_ = os.WriteFile(p+".why", []byte("property="+e.ID+"\nkey="+key+"\nseed="+strconv.FormatInt(e.Seed, 10)+"\ntier="+e.Tier+"\n\n"+what+"\n"), 0o644)
	e.violations = append(e.violations, violation{key, what, p})
}

// NViolations is the number of unlisted violations so far.
func (e *Env) NViolations() int {
	e.mu.Lock()
	defer e.mu.Unlock()
	return len(e.violations)
}

// Inconclusive records something that could not be decided (watchdog, checker timeout).
func (e *Env) Inconclusive(what string) {
	e.mu.Lock()
	defer e.mu.Unlock()
	e.inconcl = append(e.inconcl, what)
}

// Extra attaches a monitor observation to the evidence's coverage object.
func (e *Env) Extra(k string, v any) {
	e.mu.Lock()
	defer e.mu.Unlock()
	e.extra[k] = v
}

func (e *Env) Assume(s ...string) { e.assumptions = append(e.assumptions, s...) }

// Coverage is what a run reports about itself.
type Coverage struct {
	Evaluations        int
	DistinctNontrivial int
	Rule               string
	Samples            []any
	Exhaustive         bool
	// translation validation
	Programs             int
	DisagreementsChecked int
}

// Finish writes the evidence file, prints the verdict lines and exits.
func (e *Env) Finish(c Coverage) {
	wall := time.Since(e.start).Seconds()
	cov := map[string]any{}
	for k, v := range e.extra {
		cov[k] = v
	}
	cov["evaluations"] = c.Evaluations
	cov["distinct_nontrivial"] = c.DistinctNontrivial
	cov["rule"] = c.Rule
	if len(c.Samples) > 12 {
		c.Samples = c.Samples[:12]
	}
	cov["samples"] = c.Samples
	cov["exhaustive"] = c.Exhaustive
	if e.Level == "translation_validation" {
		cov["programs"] = c.Programs
		cov["disagreements_checked"] = c.DisagreementsChecked
	}
	cov["inconclusive"] = len(e.inconcl)
	if len(e.inconcl) > 0 {
		n := e.inconcl
		if len(n) > 10 {
			n = n[:10]
		}
		cov["inconclusive_notes"] = n
	}
	var known, stale, quarantined []string
	for _, fd := range e.findings {
		if fd.Active {
			known = append(known, fd.ID)
			quarantined = append(quarantined, fd.Quarantine...)
		} else if fd.Checked {
			stale = append(stale, fd.ID)
		}
	}
	sort.Strings(quarantined)
	cov["known_findings_observed"] = nz(known)
	cov["stale_findings"] = nz(stale)
	cov["quarantined_features"] = nz(quarantined)
	var vk []string
	for _, v := range e.violations {
		vk = append(vk, v.Key)
	}
	cov["violation_keys"] = nz(vk)
	ev := map[string]any{
		"property_id": e.ID,
		"tier":        e.Tier,
		"seed":        e.Seed,
		"level":       e.Level,
		"coverage":    cov,
		"assumptions": nz(e.assumptions),
		"wall_s":      float64(int(wall*100)) / 100,
		"violations":  len(e.violations),
	}
	ok := c.Evaluations >= 1 && c.DistinctNontrivial >= 2 && len(c.Samples) >= 1
	b, _ := json.MarshalIndent(ev, "", " ")
	// evidence describes /repo itself; a run against a scratch tree (VERIF_REPO) must not
	// overwrite it
	evDir := filepath.Join(e.Verif, "evidence")
	if e.Repo != "/repo" {
		evDir = filepath.Join(e.Verif, ".work", "evidence-scratch")
	}
	_ = os.MkdirAll(evDir, 0o755)
	_ = os.WriteFile(filepath.Join(evDir, e.ID+".json"), append(b, '\n'), 0o644)
	_ = os.RemoveAll(e.Scratch)

	ids := make([]string, 0, len(e.knownHit))
	for id := range e.knownHit {
		ids = append(ids, id)
	}
	sort.Strings(ids)
	for _, id := range ids {
		fmt.Printf("KNOWN-FINDING: property=%s %s: %s\n", e.ID, id, oneLine(e.knownHit[id]))
	}
	for i, v := range e.violations {
		if i >= e.maxReported {
			fmt.Printf("... %d more violations not printed\n", len(e.violations)-i)
			break
		}
		fmt.Printf("VIOLATION property=%s replay=%s\n", e.ID, v.Replay)
		fmt.Printf("  key=%s :: %s\n", v.Key, oneLine(v.What))
	}
	fmt.Printf("%s %s seed=%d: evaluations=%d distinct_nontrivial=%d violations=%d known=%d inconclusive=%d wall=%.1fs\n",
		e.ID, e.Tier, e.Seed, c.Evaluations, c.DistinctNontrivial, len(e.violations), len(ids), len(e.inconcl), wall)
	if len(e.violations) > 0 {
		os.Exit(1)
	}
	if !ok {
		fmt.Printf("INCONCLUSIVE property=%s: the run observed too little (evaluations=%d distinct_nontrivial=%d)\n", e.ID, c.Evaluations, c.DistinctNontrivial)
		os.Exit(2)
	}
	os.Exit(0)
}

func nz(s []string) []string {
	if s == nil {
		return []string{}
	}
	return s
}

func oneLine(s string) string {
	s = strings.ReplaceAll(s, "\n", " | ")
	if len(s) > 300 {
		s = s[:300] + "…"
	}
	return s
}

// ---------------------------------------------------------------------------------
// processes

type ProcSpec struct {
	Argv    []string
	Dir     string
	Env     []string // appended to os.Environ()
	Stdin   []byte
	Timeout time.Duration // wall-clock watchdog (inconclusive, never a verdict by itself)
	MaxOut  int           // cap on captured stdout/stderr bytes (default 8 MiB)
}

type ProcResult struct {
	Stdout, Stderr string
	Exit           int    // exit status; -1 when killed by a signal
	Signal         string // name of the terminating signal, if any
	TimedOut       bool   // the watchdog fired
	CPU            time.Duration
	Err            error // could not start
}

type capWriter struct {
	buf bytes.Buffer
	max int
}

func (w *capWriter) Write(p []byte) (int, error) {
	if room := w.max - w.buf.Len(); room > 0 {
		if len(p) > room {
			w.buf.Write(p[:room])
		} else {
			w.buf.Write(p)
		}
	}
	return len(p), nil
}

// RunProc runs one child process to completion under a watchdog.
func RunProc(s ProcSpec) ProcResult {
	if s.Timeout == 0 {
		s.Timeout = 60 * time.Second
	}
	if s.MaxOut == 0 {
		s.MaxOut = 8 << 20
	}
	cmd := exec.Command(s.Argv[0], s.Argv[1:]...)
	cmd.Dir = s.Dir
	cmd.Env = append(os.Environ(), s.Env...)
	if s.Stdin != nil {
		cmd.Stdin = bytes.NewReader(s.Stdin)
	}
	so, se := &capWriter{max: s.MaxOut}, &capWriter{max: s.MaxOut}
	cmd.Stdout, cmd.Stderr = so, se
	cmd.SysProcAttr = &syscall.SysProcAttr{Setpgid: true}
	var r ProcResult
	if err := cmd.Start(); err != nil {
		r.Err = err
		r.Exit = -2
		return r
	}
	var fired atomic.Bool
	t := time.AfterFunc(s.Timeout, func() {
		fired.Store(true)
		_ = syscall.Kill(-cmd.Process.Pid, syscall.SIGKILL)
	})
	err := cmd.Wait()
	t.Stop()
	r.TimedOut = fired.Load()
	r.Stdout, r.Stderr = so.buf.String(), se.buf.String()
	if cmd.ProcessState != nil {
		r.CPU = cmd.ProcessState.UserTime() + cmd.ProcessState.SystemTime()
		if ws, ok := cmd.ProcessState.Sys().(syscall.WaitStatus); ok {
			if ws.Signaled() {
				r.Exit = -1
				r.Signal = ws.Signal().String()
			} else {
				r.Exit = ws.ExitStatus()
			}
		}
	} else if err != nil {
		r.Err = err
		r.Exit = -2
	}
	return r
}

var scriptCounter atomic.Int64

// RunScript writes src to a fresh file in the scratch directory and runs the CLI on it.
func (e *Env) RunScript(src string, timeout time.Duration, extraEnv ...string) ProcResult {
	return e.RunScriptWith(e.Origami(), src, timeout, extraEnv...)
}

func (e *Env) RunScriptWith(bin, src string, timeout time.Duration, extraEnv ...string) ProcResult {
	n := scriptCounter.Add(1)
	dir := filepath.Join(e.Scratch, fmt.Sprintf("s%d", n%64))
	_ = os.MkdirAll(dir, 0o755)
	p := filepath.Join(dir, fmt.Sprintf("p%d.php", n))
	_ = os.WriteFile(p, []byte(src), 0o644)
	r := RunProc(ProcSpec{Argv: []string{bin, p}, Dir: dir, Timeout: timeout, Env: extraEnv})
	_ = os.Remove(p)
	return r
}

// GoCrash reports whether a process result shows a Go-level crash (panic trace, fatal
// error, signal) rather than a script-level outcome, and a short classification.
func GoCrash(r ProcResult) (bool, string) {
	if r.Signal != "" && !r.TimedOut {
		return true, "signal " + r.Signal
	}
	for _, mark := range []string{"panic: ", "fatal error: ", "goroutine 1 [running]", "[signal SIG", "runtime error: "} {
		if i := strings.Index(r.Stderr, mark); i >= 0 {
			// script-level diagnostics can quote 'runtime error' text of recovered panics; only a
			// goroutine trace or exit status 2 makes it a crash
			if strings.Contains(r.Stderr, "goroutine ") || r.Exit == 2 {
				end := i + 200
				if end > len(r.Stderr) {
					end = len(r.Stderr)
				}
				return true, oneLine(r.Stderr[i:end])
			}
		}
	}
	return false, ""
}

// PanicSite extracts the innermost frame inside the repository from a Go panic trace:
// "pkg/file.go:func". Line numbers are dropped so that unrelated edits do not re-key it.
func PanicSite(trace string) string {
	lines := strings.Split(trace, "\n")
	for i := 0; i+1 < len(lines); i++ {
		fn := strings.TrimSpace(lines[i])
		loc := strings.TrimSpace(lines[i+1])
		if !strings.Contains(fn, "github.com/php-any/origami") {
			continue
		}
		if strings.HasPrefix(fn, "panic(") || strings.Contains(fn, "verifhook") {
			continue
		}
		file := loc
		if j := strings.Index(file, " "); j >= 0 {
			file = file[:j]
		}
		if j := strings.LastIndex(file, ":"); j >= 0 {
			file = file[:j]
		}
		if k := strings.Index(file, "/repo/"); k >= 0 {
			file = file[k+6:]
		} else if k := strings.Index(file, "origami/"); k >= 0 {
			file = file[k+8:]
		}
		name := fn
		if j := strings.Index(name, "("); j > 0 && !strings.HasPrefix(name, "(") {
			// keep receiver form pkg.(*T).M
		}
		if j := strings.LastIndex(name, "("); j > 0 {
			name = name[:j]
		}
		if j := strings.LastIndex(name, "/"); j >= 0 {
			name = name[j+1:]
		}
		return file + ":" + name
	}
	return "unknown"
}

// ParallelMap runs f(i) for i in [0,n) on `workers` goroutines (0 = NumCPU).
func ParallelMap(n, workers int, f func(i int)) {
	if workers <= 0 {
		workers = runtime.NumCPU()
	}
	if workers > n {
		workers = n
	}
	if workers < 1 {
		return
	}
	var next atomic.Int64
	var wg sync.WaitGroup
	for w := 0; w < workers; w++ {
		wg.Add(1)
		go func() {
			defer wg.Done()
			for {
				i := int(next.Add(1)) - 1
				if i >= n {
					return
				}
				f(i)
			}
		}()
	}
	wg.Wait()
}

// Hash is a short stable case hash.
func Hash(parts ...string) string {
	h := sha256.New()
	for _, p := range parts {
		h.Write([]byte(p))
		h.Write([]byte{0})
	}
	return hex.EncodeToString(h.Sum(nil)[:8])
}

// DistinctCounter counts distinct case hashes that satisfied a non-triviality rule.
type DistinctCounter struct {
	mu sync.Mutex
	m  map[string]struct{}
}

func (d *DistinctCounter) Add(h string) {
	d.mu.Lock()
	if d.m == nil {
		d.m = map[string]struct{}{}
	}
	d.m[h] = struct{}{}
	d.mu.Unlock()
}

func (d *DistinctCounter) N() int {
	d.mu.Lock()
	defer d.mu.Unlock()
	return len(d.m)
}

// GoBuild builds a package of the harness module (or of the repository when pkg starts
// with the origami module path) into the build directory. Used for -race workers.
func (e *Env) GoBuild(pkg, out string, race bool) (string, error) {
	dst := filepath.Join(e.Build, out)
	args := []string{"build", "-tags", "verif"}
	if mf := os.Getenv("VERIF_MODFILE"); mf != "" {
		args = append(args, "-modfile="+mf)
	}
	if race {
		args = append(args, "-race")
	}
	args = append(args, "-o", dst, pkg)
	cmd := exec.Command("go", args...)
	cmd.Dir = filepath.Join(e.Verif, "harness")
	cmd.Env = append(os.Environ(), "GOFLAGS=-mod=mod", "GOPROXY=off")
	outb, err := cmd.CombinedOutput()
	if err != nil {
		return "", fmt.Errorf("go build %s: %v\n%s", pkg, err, outb)
	}
	return dst, nil
}
