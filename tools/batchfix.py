#!/usr/bin/env python3
"""Development aid: apply the fix diffs of one property to /repo, one commit per defect.
usage: batchfix.py Cxx [slug ...]   (default: every findings/Cxx/*.fix.diff in name order)
For each diff: git apply --3way, build with and without the verif tag, run the repository's
suite, run the corpus regression against the pre-fix baseline binary; commit only if all
are clean, else revert and report. Appends fixed: lines to KNOWN_FINDINGS.txt."""
import subprocess, sys, os, re, glob
ENV = dict(os.environ, GOFLAGS='-mod=mod', GOPROXY='off')
def sh(cmd, cwd='/repo', check=False):
    p = subprocess.run(cmd, shell=True, cwd=cwd, env=ENV, capture_output=True, text=True)
    if check and p.returncode != 0:
        raise SystemExit(f"FAILED: {cmd}\n{p.stdout}\n{p.stderr}")
    return p
prop = sys.argv[1]
fdir = f'/verif/findings/{prop}'
slugs = sys.argv[2:] or sorted(os.path.basename(f)[:-9] for f in glob.glob(f'{fdir}/*.fix.diff') if 'combined' not in f)
texts = {}
pf = f'{fdir}/PROPOSED_FINDINGS.txt'
if os.path.exists(pf):
    for l in open(pf):
        if l.startswith('finding:') and '::' in l:
            m = re.search(r'\bid=(\S+)', l)
            if m:
                texts.setdefault(m.group(1), l.split('::', 1)[1].strip())
FLAKY = {'tests/basic/constructor_union_type.php', 'tests/run_tests.php', 'tests/php/sleep.php'}
applied, skipped = [], []
for s in slugs:
    d = f'{fdir}/{s}.fix.diff'
    if sh('git status --porcelain').stdout.strip():
        raise SystemExit('repo not clean')
    p = sh(f'git apply --3way "{d}"')
    if p.returncode != 0 or 'with conflicts' in p.stderr:
        sh('git checkout -- . ; git reset -q --hard')
        skipped.append((s, 'does not apply: ' + p.stderr.strip()[:200])); continue
    sh('git reset -q')  # --3way stages
    b = sh('go build ./... && go build -tags verif ./... && go build -o /verif/.work/origami-new .')
    if b.returncode != 0:
        sh('git checkout -- .'); skipped.append((s, 'build: ' + b.stderr[-300:])); continue
    t = sh('go test -vet=off -count=1 ./... 2>&1')
    fails = [l for l in t.stdout.splitlines() if l.startswith('--- FAIL')]
    if [f for f in fails if 'TestDiagVendorCompileAuthStringCorrupt' not in f]:
        sh('git checkout -- .'); skipped.append((s, 'suite: ' + ' '.join(fails))); continue
    r = sh('/verif/tools/regress.sh /verif/.work/origami-base /verif/.work/origami-new', cwd='/verif')
    diffs = [l.split(' ', 1)[1] for l in r.stdout.splitlines() if l.startswith('DIFF ')]
    sh('rm -rf /verif/.work/regress.*')
    bad = [x for x in diffs if x not in FLAKY]
    if bad:
        sh('git checkout -- .'); skipped.append((s, 'corpus output changed: ' + ' '.join(bad))); continue
    text = texts.get(s) or next((v for k, v in texts.items() if k.startswith(s) or s.startswith(k)), s)
    text = re.sub(r'\s*(Repair|Fix|fix diff|Proposed repair)\b.*$', '', text).strip()
    msg = 'fix: ' + text[:400]
    sh('git add -A'); 
    c = subprocess.run(['git', 'commit', '-q', '-m', msg], cwd='/repo')
    h = sh('git rev-parse --short HEAD').stdout.strip()
    with open('/verif/KNOWN_FINDINGS.txt', 'a') as f:
        f.write(f'fixed: property={prop} {h} {text[:300]}\n')
    applied.append((s, h))
    print('APPLIED', s, h, flush=True)
for s, why in skipped:
    print('SKIPPED', s, '::', why)
print(f'{len(applied)} applied, {len(skipped)} skipped')
