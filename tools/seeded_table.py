#!/usr/bin/env python3
"""Print a markdown table of the seeded changes under /verif/seeded (from meta.json + notes.md)."""
import json, glob, os, re
rows = []
for d in sorted(glob.glob('/verif/seeded/*/')):
    mp = d + 'meta.json'
    if not os.path.exists(mp): continue
    m = json.load(open(mp))
    notes = open(d + 'notes.md').read() if os.path.exists(d + 'notes.md') else ''
    files = sorted(set(re.findall(r'^\+\+\+ b/(\S+)', open(d + 'patch.diff').read(), re.M))) if os.path.exists(d + 'patch.diff') else []
    last = list(m['checks'].items())[-1] if m['checks'] else ('', {})
    key = (last[1].get('first_keys') or [''])[0]
    key = key.replace('key=', '').split(' :: ')[0][:90]
    rows.append((m['name'], m['property'], ', '.join(files)[:70], 'caught' if m.get('caught') else 'MISSED', last[0], key, m.get('base_commit', '')[:7]))
print('| change | property | files touched | result | by | first violation key | base |')
print('|---|---|---|---|---|---|---|')
for r in rows:
    print('| ' + ' | '.join(x.replace('|', '\\|') for x in r) + ' |')
print()
print(f'{sum(1 for r in rows if r[3]=="caught")} of {len(rows)} caught.')
