#!/bin/bash
# Development aid (not a registered check): run every corpus script under two CLI binaries
# and list the files whose stdout/exit status differ.  usage: regress.sh <binA> <binB>
A="$1"; B="$2"; OUT=$(mktemp -d /verif/.work/regress.XXXX)
cd /repo
find tests examples -name '*.php' -o -name '*.zy' | sort > "$OUT/files"
run() { # bin tag
  local bin="$1" tag="$2"
  cat "$OUT/files" | xargs -P 16 -I{} sh -c 'f="{}"; d="'"$OUT/$tag"'/$(echo "$f" | tr / _)"; mkdir -p "'"$OUT/$tag"'"; (cd /repo && timeout 10 "'"$bin"'" "$f" </dev/null >"$d.out" 2>"$d.err"; echo "exit=$?" >>"$d.out")' 
}
run "$A" a; run "$B" b
n=0
while read -r f; do
  k=$(echo "$f" | tr / _)
  # strip addresses/timings that legitimately vary
  norm() { sed -E 's/[0-9]{4}-[0-9]{2}-[0-9]{2}[ T][0-9]{2}:[0-9]{2}:[0-9]{2}(\.[0-9]+)?/TS/g; s/0x[0-9a-f]{6,}/ADDR/g; s/[0-9]+(\.[0-9]+)? ?(ms|µs|us|ns|s)\b/DUR/g' "$1"; }
  if ! cmp -s <(norm "$OUT/a/$k.out") <(norm "$OUT/b/$k.out"); then echo "DIFF $f"; n=$((n+1)); fi
done < "$OUT/files"
echo "$n differing files; outputs kept in $OUT (remove when done)"
