#!/bin/bash
# Development aid: apply one fix diff to /repo, build (with and without the verif tag), run the
# repository's suite and the corpus regression, and leave the change uncommitted for review.
# usage: applyfix.sh <diff>
set -e
export GOFLAGS=-mod=mod GOPROXY=off
cd /repo
git apply --check "$1"
git apply "$1"
go build ./... && go build -tags verif ./...
go build -o /verif/.work/origami-new .
ok=$(go test -vet=off -count=1 ./... 2>&1 | grep -v "no test files" | grep -c "^ok" || true)
fail=$(go test -vet=off -count=1 ./... 2>&1 | grep -c "^--- FAIL" || true)
echo "suite: ok-packages=$ok failing-tests=$fail (baseline: 10 / 1)"
/verif/tools/regress.sh /verif/.work/origami-base /verif/.work/origami-new | tail -6
rm -rf /verif/.work/regress.*
git status --short
