#!/usr/bin/env python3
"""Development aid: run a check with its PROPOSED_FINDINGS as extra findings and append to
KNOWN_FINDINGS.txt only the proposed lines whose finding is still observed on the current tree.
usage: mergefindings.py Cxx [tier]"""
import json, re, subprocess, sys, os
p = sys.argv[1]; tier = sys.argv[2] if len(sys.argv) > 2 else 'quick'
pf = f'/verif/findings/{p}/PROPOSED_FINDINGS.txt'
env = dict(os.environ, VERIF_EXTRA_FINDINGS=pf)
r = subprocess.run(['./check.sh', p, tier], cwd='/verif', env=env, capture_output=True, text=True)
print(r.stdout[-1500:]); print('exit', r.returncode)
if r.returncode != 0:
    sys.exit('check not silent with proposed findings: not merging')
d = json.load(open(f'/verif/evidence/{p}.json'))['coverage']
obs = set(d['known_findings_observed'])
have = open('/verif/KNOWN_FINDINGS.txt').read()
keep = [l for l in open(pf) if l.startswith('finding:') and re.search(r'\bid=(\S+)', l).group(1) in obs and l not in have]
open('/verif/KNOWN_FINDINGS.txt', 'a').write(''.join(keep))
print(len(obs), 'findings still observed;', len(keep), 'lines merged')
os.rename(pf, pf + '.merged')
