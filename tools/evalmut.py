#!/usr/bin/env python3
"""Evaluate one seeded change produced by an independent sub-agent.
usage: evalmut.py <Cxx> <mutdir> <name> [--tiers quick,thorough] [--checks Cxx,Cyy]
  <mutdir> holds patch.diff, notes.md and a demonstration (demo.php + demo.expected, or Go files).
Steps (all in a fresh scratch worktree of /repo at the change's base commit, removed afterwards):
  1. demo on the unchanged tree (must match demo.expected when it is a .php demo)
  2. apply patch; go build ./... (with and without -tags verif); repository suite
  3. demo on the changed tree (must differ)
  4. VERIF_REPO=<worktree> ./check.sh <check> <tier> for the requested checks/tiers
Writes /verif/seeded/<name>/{patch.diff,demo.*,notes.md,meta.json}."""
import json, os, shutil, subprocess, sys, glob, hashlib, time

ENV = dict(os.environ, GOFLAGS='-mod=mod', GOPROXY='off')
def sh(cmd, cwd=None, env=None, timeout=3600):
    p = subprocess.run(cmd, shell=True, cwd=cwd, env=env or ENV, capture_output=True, text=True, errors='replace', timeout=timeout)
    return p

prop, mutdir, name = sys.argv[1], sys.argv[2].rstrip('/'), sys.argv[3]
tiers = ['quick']
checks = [prop]
base = None
gotest = None
args = sys.argv[4:]
while args:
    a = args.pop(0)
    if a == '--tiers': tiers = args.pop(0).split(',')
    elif a == '--checks': checks = args.pop(0).split(',')
    elif a == '--base': base = args.pop(0)
    elif a == '--gotest': gotest = args.pop(0)
if base is None:
    base = sh('git rev-parse HEAD', cwd=os.path.dirname(mutdir).replace('-out', '')).stdout.strip() or 'HEAD'
wt = f'/tmp/ev-{name}'
sh(f'git -C /repo worktree remove --force {wt}')
r = sh(f'git -C /repo worktree add -q --detach {wt} {base}')
if r.returncode: sys.exit('worktree: ' + r.stderr)
meta = {'property': prop, 'name': name, 'base_commit': base, 'ran': [], 'checks': {}}
try:
    def build(tag):
        return sh('go build -o zy-bin . && go build ./... && go build -tags verif ./...', cwd=wt)
    def demo():
        if os.path.exists(f'{mutdir}/demo.php') and not os.path.exists(f'{mutdir}/run_demo.sh') and not os.path.exists(f'{mutdir}/demo.sh') and not gotest:
            p = sh(f'timeout -s KILL 120 ./zy-bin {mutdir}/demo.php 2>&1', cwd=wt)
            return p.stdout + (f'\n[exit {p.returncode}]' if p.returncode else '')
        if gotest:
            import re as _re
            pkg, pat = gotest.split(':')
            shutil.copy(f'{mutdir}/demo_test.go', f'{wt}/{pkg}/zz_demo_test.go')
            p = sh(f'timeout -s KILL 900 go test -vet=off -count=1 -run {pat} -v ./{pkg}/ 2>&1', cwd=wt)
            os.remove(f'{wt}/{pkg}/zz_demo_test.go')
            out = _re.sub(r'\(?\d+\.\d+s\)?', '', p.stdout)
            return out + (f'\n[exit {p.returncode}]' if p.returncode else '')
        if os.path.exists(f'{mutdir}/demo.sh') and not os.path.exists(f'{mutdir}/run_demo.sh'):
            p = sh(f'timeout -s KILL 300 sh {mutdir}/demo.sh {wt}/zy-bin 2>&1', cwd=wt)
            return p.stdout + (f'\n[exit {p.returncode}]' if p.returncode else '')
        if os.path.exists(f'{mutdir}/run_demo.sh'):
            p = sh(f'timeout -s KILL 300 sh {mutdir}/run_demo.sh {wt}/zy-bin 2>&1', cwd=wt)
            return p.stdout + (f'\n[exit {p.returncode}]' if p.returncode else '')
        for d in glob.glob(f'{mutdir}/*demo*/'):
            shutil.copytree(d, f'{wt}/zz_demo', dirs_exist_ok=True)
            p = sh('timeout -s KILL 600 go run -tags verif ./zz_demo', cwd=wt)
            shutil.rmtree(f'{wt}/zz_demo', ignore_errors=True)
            return p.stdout + (f'\n[exit {p.returncode}]' if p.returncode else '')
        for g in ('demo.go', 'demo_main.go'):
            if os.path.exists(f'{mutdir}/{g}'):
                os.makedirs(f'{wt}/zz_demo', exist_ok=True)
                shutil.copy(f'{mutdir}/{g}', f'{wt}/zz_demo/main.go')
                p = sh('timeout -s KILL 600 go run -tags verif ./zz_demo', cwd=wt)
                shutil.rmtree(f'{wt}/zz_demo', ignore_errors=True)
                return p.stdout + (f'\n[exit {p.returncode}]' if p.returncode else '')
        return None
    b = build('')
    if b.returncode: sys.exit('pristine build failed: ' + b.stderr[-500:])
    d0 = demo()
    exp = open(f'{mutdir}/demo.expected', errors='replace').read() if os.path.exists(f'{mutdir}/demo.expected') else None
    meta['demo_unchanged_matches_expected'] = (d0 is not None and exp is not None and d0.strip() == exp.strip()) or (gotest is not None and d0 is not None and '[exit' not in d0)
    a = sh(f'git apply {mutdir}/patch.diff', cwd=wt)
    if a.returncode: sys.exit('patch does not apply: ' + a.stderr)
    b = build('')
    meta['builds'] = b.returncode == 0
    if b.returncode: print('BUILD FAILED', b.stderr[-800:])
    t = sh('go test -vet=off -count=1 ./... 2>&1', cwd=wt)
    fails = [l for l in t.stdout.splitlines() if l.startswith('--- FAIL') and 'TestDiagVendorCompileAuthStringCorrupt' not in l]
    meta['suite_passes'] = not fails
    meta['suite_failures'] = fails
    d1 = demo()
    meta['demo_differs_with_change'] = (d0 is not None and d1 is not None and d0 != d1)
    if d0 is not None:
        meta['demo_unchanged_head'] = d0[:400]; meta['demo_changed_head'] = (d1 or '')[:400]
    meta['ran'] += ['go build ./... (+ -tags verif)', 'go test -vet=off -count=1 ./...', 'demo before/after']
    env = dict(ENV, VERIF_REPO=wt)
    for c in checks:
        for tier in tiers:
            t0 = time.time()
            p = sh(f'./check.sh {c} {tier}', cwd='/verif', env=env, timeout=7200)
            out = p.stdout
            viol = [l for l in out.splitlines() if l.startswith('VIOLATION')]
            keys = [l.strip() for l in out.splitlines() if l.strip().startswith('key=')][:3]
            meta['checks'][f'{c}/{tier}'] = {'exit': p.returncode, 'violations': len(viol), 'first_keys': keys, 'wall_s': round(time.time() - t0, 1), 'tail': out[-300:]}
            meta['ran'].append(f'VERIF_REPO={wt} ./check.sh {c} {tier}')
            print(f'{name}: {c}/{tier} exit={p.returncode} violations={len(viol)}', flush=True)
            if p.returncode == 1:
                break
    dst = f'/verif/seeded/{name}'
    os.makedirs(dst, exist_ok=True)
    for f in os.listdir(mutdir):
        if os.path.isfile(f'{mutdir}/{f}') and f != 'TASK.md' and os.path.abspath(mutdir) != os.path.abspath(dst):
            shutil.copy(f'{mutdir}/{f}', dst)
    meta['caught'] = any(v['exit'] == 1 for v in meta['checks'].values())
    json.dump(meta, open(f'{dst}/meta.json', 'w'), indent=1)
    print(json.dumps({k: meta[k] for k in ['builds', 'suite_passes', 'demo_unchanged_matches_expected', 'demo_differs_with_change', 'caught']}))
finally:
    sh(f'git -C /repo worktree remove --force {wt}')
    tag = hashlib.sha1(wt.encode()).hexdigest()[:10]
    shutil.rmtree(f'/verif/.build-{tag}', ignore_errors=True)
    # replays written for the scratch tree are not evidence about /repo
