#!/usr/bin/env python3
"""Assemble /verif/MANIFEST.json from harness/cmd/*/manifest.json for the properties
listed in harness/REGISTERED (one id per line); every other property goes to
not_applicable with the reason given in harness/NOT_CLAIMED.json (or a default)."""
import json, os, subprocess
V = '/verif'
props = [json.loads(l)['id'] for l in open(f'{V}/properties.jsonl')]
reg = [l.strip() for l in open(f'{V}/harness/REGISTERED') if l.strip() and not l.startswith('#')]
reasons = {}
if os.path.exists(f'{V}/harness/NOT_CLAIMED.json'):
    reasons = json.load(open(f'{V}/harness/NOT_CLAIMED.json'))
checks, engines = [], []
for p in props:
    if p in reg:
        c = json.load(open(f'{V}/harness/cmd/{p.lower()}/manifest.json'))
        assert c['property_id'] == p
        checks.append(c)
        engines.append({"name": p.lower(), "path": f"harness/cmd/{p.lower()}", "serves_properties": [p], "kind_free_text": c.get('engine', '')})
hooks = [l.split()[0] for l in subprocess.check_output(['git', '-C', '/repo', 'log', '--format=%H %s']).decode().splitlines() if l.split(' ', 1)[1].startswith('verif hooks')]
m = {
 "version": 1,
 "setup_cmd": "./check.sh --setup",
 "hooks": {
  "guard": "verif (Go build tag)",
  "enable": "go build -tags verif (check.sh builds /repo's CLI and every in-process worker with it)",
  "baseline_off_cmd": "cd /repo && GOFLAGS=-mod=mod GOPROXY=off go test -vet=off -count=1 ./...",
  "source_commits": hooks,
  "add_only": True},
 "engines": engines,
 "checks": checks,
 "notes": "See DESIGN.md. One Go main package per property under harness/cmd/<id>; shared runner/evidence/findings code in harness/lib; generator and reference interpreter in harness/gen and harness/ref. Known findings: KNOWN_FINDINGS.txt.",
 "not_applicable": [{"property_id": p, "reason": reasons.get(p, "check under construction (not yet registered); runtime monitoring applies, see DESIGN.md §4")} for p in props if p not in reg],
}
json.dump(m, open(f'{V}/MANIFEST.json', 'w'), indent=1, ensure_ascii=False)
print("registered:", reg)
