#!/usr/bin/env python3
"""Regenerate the generated parts of DESIGN.md §8.5 (per-check observations) and the table
of §8.6 (seeded changes) from evidence/*.json and seeded/*/meta.json."""
import json, subprocess, re
D='/verif/DESIGN.md'
s=open(D).read()
m=json.load(open('/verif/MANIFEST.json'))
tab='| id | tier | evaluations (seed 1) | distinct non-trivial | wall s | open findings observed | deciding technique |\n|---|---|---|---|---|---|---|\n'
for c in m['checks']:
    p=c['property_id']; ev=json.load(open(f'/verif/evidence/{p}.json')); cov=ev['coverage']
    tab+=f"| {p} | {ev['tier']} | {cov['evaluations']:,} | {cov['distinct_nontrivial']:,} | {ev['wall_s']} | {len(cov.get('known_findings_observed',[]))} | {c.get('technique','')[:110]} |\n"
seeded=subprocess.check_output(['python3','/verif/tools/seeded_table.py']).decode()
# replace tables: the first markdown table after each heading
def repl_table(text, heading, new):
    i=text.index(heading)
    j=text.index('\n|', i)
    k=j+1
    lines=text[k:].split('\n')
    n=0
    while n<len(lines) and lines[n].startswith('|'): n+=1
    end=k+sum(len(l)+1 for l in lines[:n])
    return text[:k]+new+text[end:]
s=repl_table(s,'### 8.5 ',tab)
# seeded table + count line
i=s.index('| change | property | files touched')
j=s.index('### 8.7')
s=s[:i]+seeded+'\n'+s[j:]
open(D,'w').write(s)
print('ok')
