<?php
// C04 witness: redundant parentheses must not change a result: -(7) and -7 are the same int.
$a = 7;
echo gettype(-7), "\n";
echo gettype(-(7)), "\n";
echo gettype(-$a), "\n";
echo json_encode(-(7) === -7), "\n";
