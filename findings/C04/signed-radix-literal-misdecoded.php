<?php
// C04 witness: redundant parentheses never change a result: -0x1F is -(0x1F), -017 is -(017),
// and `$a -017 * 2` is $a - (017 * 2). The sign the lexer glues onto a hex / binary / octal
// literal must not change how the digits are read.
$a = 7;
echo json_encode([-0x1F, -(0x1F)]), "\n";
echo json_encode([-0b101, -(0b101)]), "\n";
echo json_encode([-017, -(017)]), "\n";
echo json_encode([$a - -0x10, $a - (-(0x10))]), "\n";
echo json_encode([$a -017 * 2, $a - (017 * 2)]), "\n";
