<?php
// C04 witness: -0.5 ** 2 is -(0.5 ** 2) = -0.25; the literal stripped of its sign must still be
// read as the float 0.5 (not as a malformed octal number, which gave 0).
$a = 7;
echo json_encode(-0.5 ** 2), "\n";
echo json_encode((-(0.5 ** 2))), "\n";
echo json_encode($a * -0.25 ** 2), "\n";
echo json_encode(-0.125 ** 2.0 === -(0.125 ** 2.0)), "\n";
