<?php
// C04 witness: '.' is looser than arithmetic.  $a + $b . $s must be ($a + $b) . $s; a '.' that
// directly follows a variable or a closing parenthesis must not bind tighter than the operator left of that variable,
// nor take everything to its right (?? included) as its operand.
$a = 7; $b = 3; $s = "10"; $w = null; $v = "3";
echo json_encode($a + $b . $s), "\n";
echo json_encode($a * $b . $s), "\n";
echo json_encode(-$a . $s), "\n";
echo json_encode($s . $w ?? $v), "\n";
try { echo json_encode($a * ($b + 1) . $s), "\n"; } catch (Throwable $e) { echo "THROW\n"; }
