<?php
// C04 witness: a prefix operator as right operand of ** needs no parentheses:
// $a ** -$b is $a ** (-$b).
$a = 2; $b = 3;
try { echo json_encode($a ** -$b), "\n"; } catch (Throwable $e) { echo "THROW\n"; }
try { echo json_encode(2 ** ~1), "\n"; } catch (Throwable $e) { echo "THROW\n"; }
