<?php
// C04 witness: `-1` after an operand is binary minus followed by the literal 1, and the right
// operand of that minus extends over the tighter * / % ** that follow: $a -1 * 2 is $a - (1 * 2).
$a = 3;
echo json_encode($a -1 * 2), "\n";
echo json_encode(7 -3 * 2), "\n";
echo json_encode(7-3 ** 2), "\n";
echo json_encode(20 -8 / 2), "\n";
