<?php
// C04 witness: a cast is a prefix operator of the `! ~ -` level; its operand ends before the
// next looser operator.  (int)$s + 1 must be ((int)$s) + 1, not (int)($s + 1).
$s = "10"; $a = 7;
echo json_encode((int)$s + 1), "\n";
echo json_encode((int)$s * $a), "\n";
echo json_encode((bool)$a === true), "\n";
echo json_encode((bool)$a ? 1 : 2), "\n";
