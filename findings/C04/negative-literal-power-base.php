<?php
// C04 witness: ** binds tighter than unary minus, also when the operand is a literal:
// -2 ** 2 is -(2 ** 2).
echo json_encode(-2 ** 2), "\n";
echo json_encode(-3 ** 2 + 1), "\n";
