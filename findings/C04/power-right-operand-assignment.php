<?php
// C04 witness: an assignment as right operand of ** needs no parentheses (its left side must
// be a variable, so `7 ** $x += 2` can only be 7 ** ($x += 2)), exactly as after every other
// binary operator (`7 * $x += 2` already works).
$x = 1; $y = 1; $z = 5;
try { echo json_encode([7 ** $x += 2, $x]), "\n"; } catch (Throwable $e) { echo "THROW\n"; }
try { echo json_encode([2 ** $y = 3, $y]), "\n"; } catch (Throwable $e) { echo "THROW\n"; }
try { echo json_encode([2 ** $z >>= 1, $z]), "\n"; } catch (Throwable $e) { echo "THROW\n"; }
echo json_encode([2 ** 3 ** 2, 2 ** -1, -2 ** 2]), "\n";
