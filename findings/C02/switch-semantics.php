<?php
$x = 1;
switch ($x) { case 1: echo "one "; case 2: echo "two "; break; case 3: echo "three "; default: echo "def "; }
echo "\n";
for ($i = 0; $i < 3; $i++) {
  switch ($i) { case 1: continue 2; default: echo "d$i "; break; }
  echo "t$i ";
}
echo "\n";
