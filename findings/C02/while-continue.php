<?php
$k = 0;
while ($k < 5) { $k++; if ($k == 2) { continue; } echo $k, " "; }
echo "\n";
