<?php
class T { public static int $n = 1; public static function set($v) { self::$n = $v; } }
$r = "accepted"; try { T::$n = "a"; } catch (\Throwable $e) { $r = "rejected"; }
echo "string stored into static int property (T::\$n = ...): ", $r, "\n";
$r = "accepted"; try { T::set([1]); } catch (\Throwable $e) { $r = "rejected"; }
echo "array stored into static int property (self::\$n = ...): ", $r, "\n";
