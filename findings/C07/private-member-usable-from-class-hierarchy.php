<?php
class A {
  private $p = 1;
  private function m() { return 2; }
  public function peek() { return $this->p; }
}
class B extends A {
  public function readIt($o) { $r = "ok"; try { $v = $o->p; } catch (\Throwable $e) { $r = "denied"; } return $r; }
  public function writeIt($o) { $r = "ok"; try { $o->p = 7; } catch (\Throwable $e) { $r = "denied"; } return $r; }
  public function callIt($o) { $r = "ok"; try { $v = $o->m(); } catch (\Throwable $e) { $r = "denied"; } return $r; }
}
$a = new A(); $b = new B();
echo "subclass code reads A's private property: ", $b->readIt($a), "\n";
echo "subclass code writes A's private property: ", $b->writeIt($a), "\n";
echo "subclass code calls A's private method: ", $b->callIt($a), "\n";
echo "value afterwards: ", $a->peek(), "\n";
