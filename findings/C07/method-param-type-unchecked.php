<?php
class T { public function m(int $x) { return "body ran"; } }
$t = new T();
$r = "accepted"; try { $t->m("a"); } catch (\Throwable $e) { $r = "rejected"; }
echo "string for int parameter of an instance method: ", $r, "\n";
$r = "accepted"; try { $t->m([1]); } catch (\Throwable $e) { $r = "rejected"; }
echo "array for int parameter of an instance method: ", $r, "\n";
$n = "m";
$r = "accepted"; try { $t->$n(1.5); } catch (\Throwable $e) { $r = "rejected"; }
echo "float for int parameter through \$t->\$n(): ", $r, "\n";
