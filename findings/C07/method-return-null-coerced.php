<?php
class T { public function m($x): int { return $x; } public static function s($x): array { return $x; } }
$t = new T();
$r = "accepted"; $v = "unset"; try { $v = $t->m(null); } catch (\Throwable $e) { $r = "rejected"; }
echo "method declared ': int' returns null: ", $r, " (", gettype($v), ")\n";
$r = "accepted"; $v = "unset"; try { $v = T::s(null); } catch (\Throwable $e) { $r = "rejected"; }
echo "static method declared ': array' returns null: ", $r, " (", gettype($v), ")\n";
