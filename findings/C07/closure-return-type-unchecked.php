<?php
$f = function($x): int { return $x; };
$r = "accepted"; try { $v = $f("a"); } catch (\Throwable $e) { $r = "rejected"; }
echo "closure declared ': int' returns a string: ", $r, "\n";
$r = "accepted"; try { $v = $f([1]); } catch (\Throwable $e) { $r = "rejected"; }
echo "closure declared ': int' returns an array: ", $r, "\n";
