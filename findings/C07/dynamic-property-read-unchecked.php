<?php
class A { private $p = 1; protected $q = 2; }
$o = new A();
$n = "p";
$r = "ok"; try { $v = $o->$n; } catch (\Throwable $e) { $r = "denied"; }
echo "read private property through \$o->\$n from outside: ", $r, "\n";
$n = "q";
$r = "ok"; try { $v = $o->$n; } catch (\Throwable $e) { $r = "denied"; }
echo "read protected property through \$o->\$n from outside: ", $r, "\n";
