<?php
class A {
  private static $s = 1;
  protected static $t = 2;
  private static function f() { return 3; }
  private const C = 4;
}
$r = "ok"; try { $v = A::$s; } catch (\Throwable $e) { $r = "denied"; }
echo "read private static property from outside: ", $r, "\n";
$r = "ok"; try { A::$t = 9; } catch (\Throwable $e) { $r = "denied"; }
echo "write protected static property from outside: ", $r, "\n";
$r = "ok"; try { $v = A::f(); } catch (\Throwable $e) { $r = "denied"; }
echo "call private static method from outside: ", $r, "\n";
$r = "ok"; try { $v = A::C; } catch (\Throwable $e) { $r = "denied"; }
echo "read private constant from outside: ", $r, "\n";
