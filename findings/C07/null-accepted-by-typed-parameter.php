<?php
function f(int $x) { return "body ran"; }
class T { public function __construct(public string $p) { } public static function s(array $x) { return "body ran"; } }
$r = "accepted"; try { f(null); } catch (\Throwable $e) { $r = "rejected"; }
echo "null for int parameter of a function: ", $r, "\n";
$r = "accepted"; try { T::s(null); } catch (\Throwable $e) { $r = "rejected"; }
echo "null for array parameter of a static method: ", $r, "\n";
$r = "accepted"; try { $t = new T(null); } catch (\Throwable $e) { $r = "rejected"; }
echo "null for promoted string constructor parameter: ", $r, "\n";
$g = function(int $x) { return 1; };
$r = "accepted"; try { $g(null); } catch (\Throwable $e) { $r = "rejected"; }
echo "null for int parameter of a closure: ", $r, "\n";
