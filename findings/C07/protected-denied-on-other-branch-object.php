<?php
class A { protected $q = 2; protected function m() { return 3; } }
class B extends A { }
class S extends A {
  public function readIt($o) { $r = "ok"; try { $v = $o->q; } catch (\Throwable $e) { $r = "denied"; } return $r; }
  public function callIt($o) { $r = "ok"; try { $v = $o->m(); } catch (\Throwable $e) { $r = "denied"; } return $r; }
}
$s = new S();
echo "descendant S of A reads A's protected property on a B (extends A) object: ", $s->readIt(new B()), "\n";
echo "descendant S of A calls A's protected method on a B (extends A) object: ", $s->callIt(new B()), "\n";
