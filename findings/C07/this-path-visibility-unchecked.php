<?php
class A {
  private $p = 1;
  private function m() { return 2; }
  public function peek() { return $this->p; }
}
class B extends A {
  public function readIt() { $r = "ok"; try { $v = $this->p; } catch (\Throwable $e) { $r = "denied"; } return $r; }
  public function writeIt() { $r = "ok"; try { $this->p = 7; } catch (\Throwable $e) { $r = "denied"; } return $r; }
  public function callIt() { $r = "ok"; try { $v = $this->m(); } catch (\Throwable $e) { $r = "denied"; } return $r; }
}
$b = new B();
echo "subclass code reads \$this->p (private in A): ", $b->readIt(), "\n";
echo "subclass code writes \$this->p (private in A): ", $b->writeIt(), "\n";
echo "subclass code calls \$this->m() (private in A): ", $b->callIt(), "\n";
echo "value afterwards: ", $b->peek(), "\n";
