<?php
class D { }
function f(D|int $x) { return "body ran"; }
$r = "accepted"; try { f(5); } catch (\Throwable $e) { $r = "rejected"; }
echo "int for D|int parameter: ", $r, "\n";
$r = "accepted"; try { f(new D()); } catch (\Throwable $e) { $r = "rejected"; }
echo "D instance for D|int parameter: ", $r, "\n";
