<?php
class A {
  private $p = 1;
  protected function m() { return 2; }
  public function viaFunction($o) { return outsideFn($o); }
  public function viaClosure($f) { return $f(); }
}
function outsideFn($o) { $r = "ok"; try { $v = $o->p; } catch (\Throwable $e) { $r = "denied"; } return $r; }
$o = new A();
echo "global function called from A's method reads A's private property: ", $o->viaFunction($o), "\n";
$f = function() use ($o) { $r = "ok"; try { $v = $o->m(); } catch (\Throwable $e) { $r = "denied"; } return $r; };
echo "closure defined outside, called from A's method, calls A's protected method: ", $o->viaClosure($f), "\n";
