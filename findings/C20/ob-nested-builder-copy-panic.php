<?php
ob_start(); echo "a1"; ob_start(); echo "b"; $b = ob_get_clean(); echo "a2"; $a = ob_get_clean();
echo "[$a|$b] level=", ob_get_level(), "\n";
