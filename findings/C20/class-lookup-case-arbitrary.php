<?php
// Two classes whose names differ only in case; a third spelling can only be resolved by the
// case-insensitive scan. Whatever it answers, it must answer the same in every run.
class Ab { function who() { return "Ab"; } }
class aB { function who() { return "aB"; } }
$x = new AB();
echo $x->who(), "\n";
