<?php
// array_slice of a keyed array literal must keep insertion order.
$a = ['k1' => 1, 'k2' => 2, 'k3' => 3, 'k4' => 4, 'k5' => 5, 'k6' => 6, 'k7' => 7, 'k8' => 8, 'k9' => 9, 'k10' => 10, 'k11' => 11, 'k12' => 12];
echo json_encode(array_slice($a, 1)), "\n";
