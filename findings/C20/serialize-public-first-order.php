<?php
// serialize must list the properties in declaration (= insertion) order, whatever their visibility.
class S { private $a = 1; public $b = 2; protected $c = 3; public $d = 4; }
echo serialize(new S()), "\n";
