<?php
// Method lists (reflection, "must implement" diagnostics) must not depend on Go map order.
class M { function ma() {} function mb() {} function mc() {} function md() {} function me() {} function mf() {} function mg() {} function mh() {} function mi() {} function mj() {} }
$r = new ReflectionClass('M');
echo json_encode($r->getMethods()), "\n";
abstract class AB { abstract function a1(); abstract function b1(); abstract function c1(); abstract function d1(); abstract function e1(); abstract function f1(); abstract function g1(); abstract function h1(); abstract function i1(); }
try { class CD extends AB { } $x = new CD(); } catch (\Throwable $e) { echo $e->getMessage(), "\n"; }
