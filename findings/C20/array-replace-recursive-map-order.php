<?php
// array_replace_recursive must keep insertion order.
$a = ['k1' => 1, 'k2' => 2, 'k3' => 3, 'k4' => 4, 'k5' => 5, 'k6' => 6, 'k7' => 7, 'k8' => 8, 'k9' => 9, 'k10' => 10, 'k11' => 11, 'k12' => 12];
echo json_encode(array_replace_recursive($a, ["m1" => 21, "m2" => 22, "m3" => 23, "m4" => 24, "m5" => 25, "m6" => 26, "m7" => 27, "m8" => 28, "m9" => 29])), "\n";
