<?php
// Declared properties with default values must be enumerated in declaration order, in every run.
class P { public $a = 1; public $b = 2; public $c = 3; public $d = 4; public $e = 5; public $f = 6; public $g = 7; public $h = 8; public $i = 9; public $j = 10; }
$o = new P();
foreach ($o as $k => $v) { echo $k, "=", $v, " "; }
echo "\n", json_encode($o), "\n";
class Q { public function __construct(public $x = 1, public $y = 2, public $z = 3, public $w = 4, public $v = 5) {} }
echo json_encode(new Q()), "\n";
