<?php
// array_filter of a keyed array literal must visit and keep the entries in insertion order.
$a = ['k1' => 1, 'k2' => 2, 'k3' => 3, 'k4' => 4, 'k5' => 5, 'k6' => 6, 'k7' => 7, 'k8' => 8, 'k9' => 9, 'k10' => 10, 'k11' => 11, 'k12' => 12];
echo json_encode(array_filter($a, function($x) { return $x > 0; })), "\n";
