<?php
// array_flip must keep the order of the entries.
$a = [];
for ($i = 11; $i < 23; $i++) { $a[] = $i; }
echo json_encode(array_flip($a)), "\n";
