<?php
// Object handles are numbered in order of creation / first use, not taken from heap addresses.
$a = new stdClass(); $b = new stdClass(); $c = new stdClass();
echo spl_object_id($a), " ", spl_object_id($b), " ", spl_object_id($c), "\n";
echo spl_object_id($a) === spl_object_id($a) ? "stable" : "unstable", "\n";
echo spl_object_hash($a) === spl_object_hash($b) ? "shared" : "distinct", " ", strlen(spl_object_hash($a)), "\n";
echo spl_object_hash($a), "\n";
