<?php
// Witness of finding C10/concurrent-same-file. Run: origami main.php   (from any directory)
// Eight coroutines instantiate two autoloadable classes of this directory (A1.php, A2.php)
// at the same time. In every sequential order of the eight `new` expressions each of them
// succeeds; expected output is eight "id:A1"/"id:A2" lines (any order) and DONE, exit 0.
// Observed on the unrepaired tree (most runs; the schedule decides): one coroutine fails with
//   ZY Fatal error: 文件 file://.../A2.php 中未找到类 app\A2
// and the process exits 1: the other coroutine had already put A2.php into the VM's
// loaded-file cache (VM.LoadAndRun -> SetPhpFileCache) but had not parsed it yet, so
// DefaultClassPathManager.LoadClass found "file loaded, class not registered".
namespace app;
function work($ch, $id) {
  if ($id % 2 == 0) { $o = new A1(); } else { $o = new A2(); }
  $ch->send($id . ":" . $o->id());
}
function start($ch, $id) { spawn(function() use ($ch, $id) { work($ch, $id); }); }
$ch = new Channel(16);
$i = 0;
while ($i < 8) { start($ch, $i); $i = $i + 1; }
$i = 0;
while ($i < 8) { echo $ch->receive(), "\n"; $i = $i + 1; }
echo "DONE\n";
