<?php
// C08: static:: binds to the runtime (called) class — static::class behind a second late-bound
// hop: Sub::f() -> static::g() (g inherited) -> static::class.
class C0 {
  public static function slsb() { return static::class; }
  public static function lbc2() { return static::slsb(); }
  public function ilbc2() { return static::slsb(); }
}
class C1 extends C0 {}
class C2 extends C1 {}
echo "one-hop=", C2::slsb(), "\n";
echo "two-hops=", C2::lbc2(), "\n";
echo "two-hops-mid=", C1::lbc2(), "\n";
echo "from-object=", (new C2())->ilbc2(), "\n";
echo "own=", C0::lbc2(), "\n";
