<?php
// C08: self:: binds to the defining class — self::class inside an inherited method.
class C0 { public function cls() { return self::class; } public function lsb() { return static::class; } }
class C1 extends C0 {}
class C2 extends C1 {}
$o = new C2();
echo "self=", $o->cls(), "\n";
echo "static=", $o->lsb(), "\n";
