<?php
// C08: `$o like T` — methods the object inherits from an ancestor count.
interface I0 { public function m0($a); }
class C0 { public function m0($a) { return 1; } }
class C1 extends C0 {}
class C2 { public function m0($a) { return 2; } }
class C3 { public function m0($a, $b) { return 3; } }
$o = new C1();
echo "iface=", ($o like I0) ? "T" : "F", "\n";
echo "class=", ($o like C2) ? "T" : "F", "\n";
echo "ancestor=", ($o like C0) ? "T" : "F", "\n";
echo "arity=", ($o like C3) ? "T" : "F", "\n";
