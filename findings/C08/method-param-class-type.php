<?php
// C08: a T-typed parameter of an instance method accepts exactly the subtypes of T.
interface I0 {}
class C0 implements I0 {}
class C1 extends C0 {}
class C2 {}
class H { public function acc_I0(I0 $x) { return "ok"; } public function acc_C1(C1 $x) { return "ok"; } }
$h = new H();
try { $r = $h->acc_I0(new C1()); } catch (\Throwable $e) { $r = "ERR"; } echo "iface-of-parent=", $r, "\n";
try { $r = $h->acc_I0(new C2()); } catch (\Throwable $e) { $r = "ERR"; } echo "unrelated=", $r, "\n";
try { $r = $h->acc_C1(new C0()); } catch (\Throwable $e) { $r = "ERR"; } echo "descendant-type=", $r, "\n";
try { $r = $h->acc_C1(new C1()); } catch (\Throwable $e) { $r = "ERR"; } echo "self=", $r, "\n";
