<?php
// C08: static:: binds to the runtime (called) class — static::class inside an inherited
// static method called through the subclass name.
class C0 { public static function lsb() { return static::class; } public static function cls() { return self::class; } }
class C1 extends C0 {}
echo "static=", C1::lsb(), "\n";
echo "self=", C1::cls(), "\n";
echo "static-own=", C0::lsb(), "\n";
