<?php
// C08: `throw $this` inside a method must be matched by catch (T) exactly like `throw $o`.
interface I0 {}
class C0 extends Exception implements I0 {
  public function throw_self() { throw $this; }
}
class C1 extends C0 {}
class C2 extends Exception {}
$o = new C1("x");
try { $o->throw_self(); $r = "NOTHROW"; } catch (C1 $e) { $r = "T"; } catch (\Throwable $e) { $r = "F"; } echo "self=", $r, "\n";
try { $o->throw_self(); $r = "NOTHROW"; } catch (C0 $e) { $r = "T"; } catch (\Throwable $e) { $r = "F"; } echo "parent=", $r, "\n";
try { $o->throw_self(); $r = "NOTHROW"; } catch (I0 $e) { $r = "T"; } catch (\Throwable $e) { $r = "F"; } echo "iface-of-parent=", $r, "\n";
try { $o->throw_self(); $r = "NOTHROW"; } catch (C2 $e) { $r = "T"; } catch (\Throwable $e) { $r = "F"; } echo "unrelated=", $r, "\n";
