<?php
// C06 witness: a copy of an array shares its element slots and its nested arrays with the
// original, so in-place writes through the copy show through the original (and vice versa).
$a = [1, [2, 3]];
$b = $a;
$b[0] = 9;          // element store through the copy
$b[1][0] = 8;       // nested store through the copy
echo json_encode($a), "\n";
function f($p) { $p[0] = 'p'; $p[1][] = 'q'; return count($p); }
$c = [1, [2, 3]];
f($c);              // by-value parameter
echo json_encode($c), "\n";
$d = ['k' => [1, 2]];
$e = $d;
$d['k'][1] = 'x';   // write through the original, read through the copy
echo json_encode($e), "\n";
$g = [5, 6];
$o = [0, $g];       // array literal holding an array
$g[] = 7;
echo json_encode($o), "\n";
