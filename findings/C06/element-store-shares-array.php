<?php
// C06 witness: $o[k] = $a stores $a's array itself (no copy), so structural writes through
// one name (append, unset, push, sort ...) show through the other.
$a = [3, 1, 2];
$o = [0, 0];
$o[1] = $a;
$a[] = 4;              // append through the original
sort($o[1]);           // in-place sort through the stored element
echo json_encode($a), " ", json_encode($o), "\n";
$b = [1, 2];
$q = [0];
$q[] = $b;
array_pop($b);
echo json_encode($b), " ", json_encode($q), "\n";
