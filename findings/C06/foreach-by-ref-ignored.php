<?php
// C06 witness: foreach ($arr as &$v) must bind $v to the array's slot; the & is dropped by
// the parser, so writes through $v are lost (or land in a shallow copy).
$s = [1, 2, 3];
foreach ($s as &$x) { $x = $x * 2; }
unset($x);
echo json_encode($s), "\n";
$o = [[1, 2], [3]];
foreach ($o as &$v) { $v[] = 0; }
unset($v);
echo json_encode($o), "\n";
