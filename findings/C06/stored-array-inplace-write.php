<?php
// C06 witness: in-place writes (store / compound assignment to an existing int key) through
// an array that was stored with $o[k] = $a. Needs both the copy on element store and the
// copy of the element slots (shallow-array-copy).
$a = [1, 2];
$o = [0, 0];
$o[1] = $a;
$a[0] = 9;
$a[1] += 5;
echo json_encode($a), " ", json_encode($o), "\n";
