<?php
// C09 script-level witness of close-protocol-panic / closed-flag-race (not deterministic: depends on the Go scheduler).
// A producer blocked in send() on an unbuffered channel with no receiver; another coroutine closes the channel.
//   origami close-protocol-panic.php                 => "panic: send on closed channel", Go trace, exit status 2
//   origami-race (go build -race) with GORACE=halt_on_error=0 additionally reports
//   WARNING: DATA RACE  Write (*Channel).Close channel.go / Previous read (*Channel).Send channel.go  (the `closed` bool)
// expected output (the two reports are printed in a fixed order): "closed", "send: false"; exit status 0.
function producer($ch, $res, $sig) { spawn(function() use ($ch, $res, $sig) {
  $sig->send(1);                 // tell the closer that the producer is running
  $ok = $ch->send(1);            // blocks: capacity 0, nobody receives
  $res->send($ok ? "send: true" : "send: false");
}); }
function closer($ch, $res, $sig) { spawn(function() use ($ch, $res, $sig) {
  $sig->receive();
  $k = 0; while ($k < 20000) { $k = $k + 1; }  // let the producer block in send() first
  $ch->close();
  $res->send("closed");
}); }
$ch = new Channel();
$res = new Channel(2);
$sig = new Channel(1);
producer($ch, $res, $sig);
closer($ch, $res, $sig);
$a = $res->receive();
$b = $res->receive();
if ($a == "closed") { echo $a, "\n", $b, "\n"; } else { echo $b, "\n", $a, "\n"; }
