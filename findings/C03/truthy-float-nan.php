<?php
// C03: NaN must be equally truthy in every boolean context (?: says truthy, the rest falsy today)
$inf = 1.0e308 * 10.0;
$a = $inf - $inf;
$t = $a ? 1 : 2;
$r = 0; if ($a) { $r = 1; } else { $r = 2; }
echo ($t == $r ? "coherent" : "incoherent"), "\n";
$c = (bool)$a;
echo (($t == 1) == $c ? "coherent" : "incoherent"), "\n";
