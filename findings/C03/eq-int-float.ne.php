<?php
// C03: comparing an int with a float is numeric; the float must not be truncated
$a = 1; $b = 1.5; $c = 0.5;
echo json_encode($a != $b), " ", json_encode($a != $c), "\n";
