<?php
// C03: int ** int that does not fit in 64 bits is a float, never a wrapped int
$r = 2 ** 63; echo gettype($r), " ", ($r > 0 ? "positive" : "non-positive"), "\n";
$b = 2097152; $e = 3; $r = $b ** $e; echo gettype($r), " ", ($r > 0 ? "positive" : "non-positive"), "\n";
$r = 2 ** 62; echo gettype($r), " ", $r, "\n";
$r = (-2) ** 63; echo gettype($r), " ", $r, "\n";
