<?php
// C03: int * float is a float
$a = 7; $b = 2.5;
$r = $a * $b;
echo gettype($r), " ", json_encode($r), "\n";
