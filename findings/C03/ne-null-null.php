<?php
// C03: != is the complement of ==
$a = null; $b = null;
echo json_encode($a == $b), " ", json_encode($a != $b), "\n";
