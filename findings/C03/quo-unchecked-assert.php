<?php
// C03 crash witness (no .expected: stdout is the same before and after a repair; the process must
// end with an uncaught, catchable error — exit status 1 — instead of a Go panic — exit status 2)
echo "before\n";
$r = 2.5 / [];
echo "not reached: ", gettype($r), "\n";
