<?php
// C03: <=> on an int and a float compares numerically
$a = 1; $b = 2.5;
echo json_encode($a <=> $b), " ", json_encode($b <=> $a), " ", json_encode(2 <=> 2.0), "\n";
