<?php
// C03: $r *= $b stores the product: (-0.0) * (-0.0) is +0.0
$r = -0.0; $b = -0.0;
$r *= $b;
echo json_encode($r), "\n";
