<?php
// C03: == is symmetric
$a = 10; $b = true;
echo json_encode($a == $b), " ", json_encode($b == $a), "\n";
