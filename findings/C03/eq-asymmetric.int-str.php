<?php
// C03: == is symmetric (docs/operators.md: "42" == 42 is true)
$a = 1; $b = "1";
echo json_encode($a == $b), " ", json_encode($b == $a), "\n";
