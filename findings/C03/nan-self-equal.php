<?php
// C03: == / != do not depend on whether the two operands are one variable or two
$inf = 1.0e308 * 10.0;
$n = $inf - $inf; $m = $inf - $inf;
echo json_encode($n == $m), " ", json_encode($n != $m), "\n";
echo json_encode($n == $n), " ", json_encode($n != $n), " ", json_encode($n === $n), "\n";
