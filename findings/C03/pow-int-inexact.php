<?php
// C03: int ** non-negative int is the exact integer while it fits in 64 bits
$a = 3; $b = 39;
$r = $a ** $b;
echo gettype($r), " ", $r, "\n";
$a = -9223372036854775807; $b = 1;
$r = $a ** $b;
echo gettype($r), " ", $r, "\n";
