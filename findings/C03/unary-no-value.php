<?php
// C03: an operator applied to a nested operator gives what the same steps give one at a time,
// and ! always yields a bool
$x = true;
$t = -$x; $staged = !$t;
$nested = !-$x;
echo gettype($nested), " ", ($nested === $staged ? "same" : "DIFFERENT"), "\n";
$s = "a";
$t = ~$s; $staged = !$t;
$nested = !~$s;
echo gettype($nested), " ", ($nested === $staged ? "same" : "DIFFERENT"), "\n";
