<?php
// C03: a negative int is truthy in every boolean context (only ?: agrees today)
$a = -1;
$r = 0; if ($a) { $r = 1; } else { $r = 2; } echo "if:", $r, "\n";
$r = 2; while ($a) { $r = 1; break; } echo "while:", $r, "\n";
$r = 2; for (; $a; ) { $r = 1; break; } echo "for:", $r, "\n";
echo "ternary:", ($a ? 1 : 2), "\n";
echo "not:", json_encode(!$a), "\n";
echo "and:", json_encode($a && true), "\n";
echo "or:", json_encode($a || false), "\n";
echo "cast:", json_encode((bool)$a), "\n";
