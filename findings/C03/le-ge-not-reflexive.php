<?php
// C03: a value is <= and >= itself whenever it is == itself
class C {}
$t = true; $n = null; $a = [1]; $o = new C();
echo json_encode($t <= $t), json_encode($t >= $t), json_encode($n <= $n), json_encode($n >= $n), json_encode($a <= $a), json_encode($o >= $o), "\n";
echo json_encode(true <= false), json_encode(1 <= 2), json_encode("b" <= "a"), "\n";
