<?php
// always-run input (not a finding): a throw that leaves a method / static method / closure /
// function frame must give back whatever per-call bookkeeping the frame took; after many
// such throws ordinary calls still work and every catch/finally ran exactly once.
class E0 extends Exception {}
class E1 extends E0 {}
class W {
  function boom($i) { throw new E1("m$i"); }
  function relay($i, $d) { if ($d > 0) { return $this->relay($i, $d - 1); } return $this->boom($i); }
  function ok($i) { return $i * 2; }
  static function sboom($i) { throw new E0("s$i"); }
}
function thrower($i) { throw new E0("f$i"); }
$w = new W(); $c = 0; $f = 0;
for ($i = 0; $i < 600; $i++) { try { $w->boom($i); } catch (E0 $e) { $c++; } finally { $f++; } }
echo "caught=$c finally=$f\n";
echo "ok=", $w->ok(21), "\n";
for ($i = 0; $i < 600; $i++) { try { W::sboom($i); } catch (E0 $e) { $c++; } }
echo "caught=$c ok=", $w->ok(4), "\n";
$g = function($i) { throw new E0("c$i"); };
for ($i = 0; $i < 600; $i++) { try { $g($i); } catch (E0 $e) { $c++; } }
for ($i = 0; $i < 600; $i++) { try { thrower($i); } catch (E0 $e) { $c++; } }
echo "caught=$c ok=", $w->ok(5), "\n";
for ($i = 0; $i < 300; $i++) { try { $w->relay($i, 4); } catch (E1 $e) { $c++; } finally { $f++; } }
echo "caught=$c finally=$f ok=", $w->ok(6), "\n";
