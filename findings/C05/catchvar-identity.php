<?php
class E1 extends Exception { public $tag = 0; }
$x = new E1("q");
$x->tag = 7;
try { throw $x; } catch (E1 $e) {
  echo ($e === $x) ? "same" : "different", "\n";
  echo $e->tag, "\n";
}
