<?php
$a0 = [];
$a0[] = 5;
$a0 = $a0+
echo "c:", 1, "\n";
echo "d";
