<?php
$a = [];
try {
  $a = $a+
  echo "c";
} catch (Exception $e) { }
