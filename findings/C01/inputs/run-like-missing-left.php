<?php
class A { function m() {} } $o = new A(); if ( like A) { echo 1; }
