<?php
$o = null;
echo $o::class;
