<?php
class A { const X = 1 < ; }
