<?php
$v = 1; $x = $.SERVER(->$v); echo 1;
