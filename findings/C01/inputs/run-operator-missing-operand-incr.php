<?php
++ ;
echo "done\n";
