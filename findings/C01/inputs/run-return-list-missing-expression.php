<?php
function two() { return , 2; }
$x, $y = two();
echo $x;
