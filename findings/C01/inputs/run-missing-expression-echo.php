<?php
echo ;
