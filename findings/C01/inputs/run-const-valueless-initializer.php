<?php
const A =?> 1, B = 2;
