<?php
nofn {};
echo 1;
