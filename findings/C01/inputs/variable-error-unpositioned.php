<?php
interface I { public const V =$ 8; }
