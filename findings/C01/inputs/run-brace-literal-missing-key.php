<?php
$o = {a: 1, : "x", c: [1, 2]}; echo 1;
