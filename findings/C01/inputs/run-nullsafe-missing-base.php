<?php
$o = null; ()?->q;
echo 1;
