<?php
$a = 1;
echo 1, $a, echo 1, $a, echo 1, $a, echo 1, $a, echo 1, $a, echo 1, $a, echo 1, $a, echo 1, $a, echo 1, $a, echo 1, $a, echo 1, $a, echo 1, $a, echo 1, $a, echo 1, $a, echo 1, $a, echo 1, $a, echo 1, $a, echo 1, $a, 2;
