<html>
<?php $a = [1, 2]; ?>
<?php if {($a): ?>
<p>yes</p>
<?php else: ?>
<p>no</p>
<?php endif; ?>
</html>
