<?php
try { echo 1; } catch (E $e::x) { }
