<?php
$a = 1;
if ($a): 
 echo 1;
elseif ($a > 1):
 echo 2;
else:
 echo 3;
enã€dif;
