<?php
function f($a) { return $a; }
$g = f(...);
echo $g(2);
