<?php
$a = ["k" => 1]; unset($a[;]);
