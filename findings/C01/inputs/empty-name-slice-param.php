<?php
class Demo {
    public function __construct(
        private string|int|