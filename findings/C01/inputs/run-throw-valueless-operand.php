<?php
class E0 extends Exception {}
try {
  throw ~ew E0("m2");
} catch (E0 $e) { echo "caught"; }
