<?php
echo 1;
?>
<ul>
<?php foreach ([1, 2] as $k => $v) { ?><li><?>