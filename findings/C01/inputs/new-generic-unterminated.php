<?php
$x = new Foo<