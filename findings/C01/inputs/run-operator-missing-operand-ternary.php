<?php
$a = 1;
$b = $a ? 1 : ;
echo "done\n";
