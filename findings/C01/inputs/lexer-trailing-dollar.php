<?php
$a = 1;
$