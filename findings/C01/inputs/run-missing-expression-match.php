<?php
echo match() { 1 => 2 };
