<?php
$b = [1,?> 2, 3]; echo 1;
