<?php
function f() { throw
}
f();
