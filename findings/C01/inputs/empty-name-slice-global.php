<?php
function &getRef(&