<?php
class S { const C =$1; } echo S::C;
