<?php
$m = [1];
echo $m[