<?php
$a = false; $b = false;
echo $a && $b || echo 1;
