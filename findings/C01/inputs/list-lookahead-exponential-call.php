<?php
$a = 1;
f($a, f($a, f($a, f($a, f($a, f($a, f($a, f($a, f($a, f($a, f($a, f($a, f($a, f($a, f($a, f($a, f($a, f($a, 1))))))))))))))))));
