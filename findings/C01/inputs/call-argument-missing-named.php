<?php
use Cli\Annotation\Command;
#[Command(name: "test", description: )]
class TestCommand {
    public function execute(): void { }
}
