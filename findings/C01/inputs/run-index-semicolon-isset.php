<?php
$a = ["k" => 1]; echo isset($a[;]);
