<?php
trait T { private $n; private $n = 1; }
class A { use T; }
