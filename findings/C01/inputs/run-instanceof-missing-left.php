<?php
class A {} $o = new A(); echo  instanceof A;
