<?php
$o = {a: 1 )