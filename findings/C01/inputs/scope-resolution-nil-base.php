<?php

namespace tests\php\container_fixtures;

interface Phase3Bind_CacheInterface {
    public function get(string $key): ?string;
}

#[\Container\Bind(abstract: ::class)]
class Phase3Bind_AnnotatedCache implements Phase3Bind_CacheInterface {
    public function get(string $key): ?string {
        return 'annotated:' . $key;
