<?php
$a = [1, 2]; for ($v in 