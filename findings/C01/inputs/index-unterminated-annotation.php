<?php
use Cli\Annotation\Command;
#[Command(name: "hello", description: "x"[)]
class HelloCommand {
    public function execute(): void { }
}
