<?php
function a() { return func_num_args