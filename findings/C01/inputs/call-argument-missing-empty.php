<?php
use Cli\Annotation\CliApplication;
#[CliApplication(name: "TestCLI", , version: "1.0.0")]
class TestCliApp {
    public static function boot(): void { }
}
