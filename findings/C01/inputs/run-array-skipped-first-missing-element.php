<?php
$a = [,