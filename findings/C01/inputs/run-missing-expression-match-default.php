<?php
echo match(1) { 2 => 3, default => => 4 };
