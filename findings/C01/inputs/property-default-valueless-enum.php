<?php
enum Suit: string { case Hearts = "H"; case Spades = "S"; const Wild = self2:Spades; function label(): string { return $this->value; } static function from2($v) { return self::from($v); } } echo Suit::Hearts->value;
