<?php
$a = ["k" => ];
echo 1;
