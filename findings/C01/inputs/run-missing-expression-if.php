<?php
if () { echo 1; }
