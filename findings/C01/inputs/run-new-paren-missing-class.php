<?php
$o = new ();
echo 1;
