<?php
$a = 1;
$b = $a + ;
echo "done\n";
