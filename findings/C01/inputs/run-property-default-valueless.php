<?php
class P { public $q = $1; } $o = new P(); echo 1;
