<?php
switch ($a) {
  default:
    echo 1 
}
