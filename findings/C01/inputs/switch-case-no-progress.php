<?php
switch ($a) {
  case 1:
    echo 1 
}
