<?php
for (1 in $a) { }
