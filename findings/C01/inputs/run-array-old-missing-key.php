<?php
array( => 1, "q" => 2);
