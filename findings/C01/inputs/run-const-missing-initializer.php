<?php
const K = 