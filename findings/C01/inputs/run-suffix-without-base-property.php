<?php
class P { public $q; function m() { return $this; } } $o = new P(); $o->q = $o; echo $o->q->{()->q === $o;
