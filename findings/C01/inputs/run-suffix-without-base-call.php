<?php
function a() { return func_num_args() + count(;()); } echo a(1, 2);
