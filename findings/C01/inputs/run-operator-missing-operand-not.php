<?php
$b = ! ;
echo "done\n";
