<?php
$a = 1;
if ($a > ) { echo "x"; }
echo "done\n";
