<?php
$c = compact("zz");
echo count($c);
