<?php
namespace U67;
$ok = function ($x): int { return $x + 1; };
echo $ok(1), "\n";
$bad = function ($x): int { return $x; };
echo "before\n";
echo $bad("a"), "\n";
echo "after\n";
