<?php
namespace U79;
class MyEx extends \Exception {}
try { throw new MyEx("the message", 7); } catch (MyEx $e) { echo get_class($e), "|", $e->getMessage(), "|", $e->getCode(), "\n"; }
try { throw new MyEx("second"); } catch (\Exception $e) { echo "as base|", $e->getMessage(), "\n"; }
