<?php
// project "entry-class": the only file of the project, translated with
//   origami compile <dir> -o <out> --pkg main --entry=<dir>/index.php   (built-in templates)
namespace App;
class Greeter { private $who; function __construct($who) { $this->who = $who; } function hi() { return "hi " . $this->who; } }
$g = new Greeter("there");
echo $g->hi(), "\n";
