<?php
namespace U20;
$name = "dyn"; $$name = 5; echo $dyn, " ", $$name, "\n";
$k = "name"; echo $$k, "\n";
