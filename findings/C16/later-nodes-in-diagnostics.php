<?php
namespace U301;
function em($e) { $m = $e->getMessage(); $p = strpos($m, ", fn:"); if ($p === false) { return $m; } return substr($m, 0, $p); }
class Other { const K = 5; const ARR = [1, 2, 3]; const NAME = "other"; public static $n = 10; public static $s = "str"; public static $f = 1.5; public static $list = [3, 1, 2]; public static $map = ['a' => ['b' => 1]]; public static $obj = null; public static $fn = null; public static $nul = null;
  static function make($v = 1) { $o = new Other(); $o->v = $v; return $o; } static function num() { return 4; } static function arr() { return [10, 20, ['x' => 30]]; } static function str() { return "made"; } static function none() { return null; } static function &refList() { return self::$list; } static function sum(...$xs) { $t = 0; foreach ($xs as $x) { $t += $x; } return $t; } static function named($a, $b = 2, $c = 3) { return "$a-$b-$c"; }
  public $v = 0; public $items = [1, 2]; function get() { return $this->v; } function self2() { return $this; } function __toString() { return "Other#" . $this->v; } }
class Sub extends Other { const K = 6; public static $n = 20; static function make($v = 1) { $o = new Sub(); $o->v = $v + 100; return $o; } }
Other::$obj = new Other(); Other::$obj->v = 7; Other::$fn = function ($x) { return $x * 2; };
function userFn($x) { return $x + 1; }
class Ops { static function bump(&$x) { $x++; return $x; } }
try { echo "call.of.builtin.result:"; echo trim("a")("x"); echo "\n"; } catch (\Throwable $e) { echo "ERR(", $e->getMessage(), ")\n"; }
try { echo "call.of.user.function.result:"; echo userFn(1)(); echo "\n"; } catch (\Throwable $e) { echo "ERR(", $e->getMessage(), ")\n"; }
try { echo "member.of.builtin.result:"; echo count([1])->prop; echo "\n"; } catch (\Throwable $e) { echo "ERR(", $e->getMessage(), ")\n"; }
try { echo "byref.static.method.element:"; $arr = [1, 2]; echo Ops::bump($arr[0]); echo "\n"; } catch (\Throwable $e) { echo "ERR(", $e->getMessage(), ")\n"; }
try { echo "byref.static.method.literal:"; echo Ops::bump(5); echo "\n"; } catch (\Throwable $e) { echo "ERR(", $e->getMessage(), ")\n"; }
try { echo "member.of.static.scalar:"; echo Other::$n->prop; echo "\n"; } catch (\Throwable $e) { echo "ERR(", $e->getMessage(), ")\n"; }
try { echo "method.of.static.scalar:"; echo Other::$n->method(); echo "\n"; } catch (\Throwable $e) { echo "ERR(", $e->getMessage(), ")\n"; }
try { echo "call.of.static.scalar:"; echo (Other::$n)(1); echo "\n"; } catch (\Throwable $e) { echo "ERR(", $e->getMessage(), ")\n"; }
try { echo "member.of.const:"; echo Other::K->prop; echo "\n"; } catch (\Throwable $e) { echo "ERR(", $e->getMessage(), ")\n"; }
try { echo "member.of.static.method.result:"; echo Other::num()->prop; echo "\n"; } catch (\Throwable $e) { echo "ERR(", $e->getMessage(), ")\n"; }
try { echo "method.of.static.method.result:"; echo Other::none()->method(); echo "\n"; } catch (\Throwable $e) { echo "ERR(", $e->getMessage(), ")\n"; }
try { echo "call.of.static.method.result:"; echo Other::num()(1); echo "\n"; } catch (\Throwable $e) { echo "ERR(", $e->getMessage(), ")\n"; }
try { echo "typed.param.static:"; function needInt(int $x) { return $x; } echo needInt(Other::$s); echo "\n"; } catch (\Throwable $e) { echo "ERR(", $e->getMessage(), ")\n"; }
try { echo "typed.param.call:"; function needArr(array $x) { return count($x); } echo needArr(Other::str()); echo "\n"; } catch (\Throwable $e) { echo "ERR(", $e->getMessage(), ")\n"; }
try { echo "typed.param.builtin:"; function needInt2(int $x) { return $x; } echo needInt2(strtoupper("a")); echo "\n"; } catch (\Throwable $e) { echo "ERR(", $e->getMessage(), ")\n"; }
try { echo "typed.param.new:"; function needStr(string $x) { return $x; } echo needStr(new Other()); echo "\n"; } catch (\Throwable $e) { echo "ERR(", $e->getMessage(), ")\n"; }
try { echo "typed.return:"; function retInt(): int { return Other::$s; } echo retInt(); echo "\n"; } catch (\Throwable $e) { echo "ERR(", $e->getMessage(), ")\n"; }
try { echo "typed.property:"; class Ty { public int $i = 0; } $t = new Ty(); $t->i = Other::$s; echo $t->i; echo "\n"; } catch (\Throwable $e) { echo "ERR(", $e->getMessage(), ")\n"; }
try { echo "undefined.static:"; echo Other::$missing; echo "\n"; } catch (\Throwable $e) { echo "ERR(", $e->getMessage(), ")\n"; }
try { echo "undefined.class.static:"; echo Nope::$missing; echo "\n"; } catch (\Throwable $e) { echo "ERR(", $e->getMessage(), ")\n"; }
try { echo "undefined.class.method:"; echo Nope::method(); echo "\n"; } catch (\Throwable $e) { echo "ERR(", $e->getMessage(), ")\n"; }
try { echo "undefined.class.const:"; echo Nope::K; echo "\n"; } catch (\Throwable $e) { echo "ERR(", $e->getMessage(), ")\n"; }
try { echo "division:"; echo 1 % (Other::$n - 10); echo "\n"; } catch (\Throwable $e) { echo "ERR(", $e->getMessage(), ")\n"; }
