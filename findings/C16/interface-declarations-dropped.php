<?php
namespace U99;
interface Marker {}
class WithMarker implements Marker {}
class Without {}
echo (new WithMarker) instanceof Marker ? "Y" : "N", (new Without) instanceof Marker ? "Y" : "N", "\n";
