<?php
namespace U93;
class S { public static $count = 0; public static $list = []; protected static $name = "S"; static function inc() { self::$count++; static::$list[] = self::$count; return self::$count; } static function name() { return static::$name; } }
class S2 extends S { protected static $name = "S2"; }
S::inc(); S::inc(); S2::inc();
echo S::$count, " ", count(S::$list), " ", S::name(), S2::name(), " "; S::$count = 10; echo S2::$count, S::inc(), "\n";
