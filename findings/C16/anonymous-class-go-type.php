<?php
namespace U108;
$o = new class(5) { public $v; function __construct($v) { $this->v = $v; } function greet() { return "hi" . $this->v; } };
echo $o->greet(), "\n";
