<?php
namespace U66;
$count = 0; $log = [];
$inc = function ($by) use (&$count, &$log) { $count += $by; $log[] = $count; return $count; };
$inc(1); $inc(2); echo $count, " ", implode(",", $log), " ";
$count = 10; echo $inc(5), "\n";
