<?php
namespace U2;
$z = -0.0; echo $z, " ", 1 / 4 * $z, "\n";
