<?php
namespace U123;
class Vc {}
$o = new Vc();
echo $o::class, "\n";
