<?php
class TopLevelUnitClass { public $v = 5; function get() { return $this->v + 1; } }
$o = new TopLevelUnitClass();
echo $o->get(), "\n";
