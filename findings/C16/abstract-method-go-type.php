<?php
namespace U96;
abstract class Shape { protected $n; function __construct($n) { $this->n = $n; } abstract function area(); abstract protected function unit(): string; function describe() { return $this->n . "=" . $this->area() . $this->unit(); } }
class Sq extends Shape { private $s; function __construct($s) { parent::__construct("sq"); $this->s = $s; } function area() { return $this->s * $this->s; } protected function unit(): string { return "u2"; } }
echo (new Sq(3))->describe(), "\n";
try { $x = new Shape("x"); echo "instantiated"; } catch (\Throwable $e) { echo "cannot instantiate"; } echo "\n";
