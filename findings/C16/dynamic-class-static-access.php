<?php
namespace U122;
class Dy { static function sm($x) { return "sm" . $x; } }
$cls = 'U122\Dy';
echo $cls::sm(1), "\n";
$o = new Dy();
echo $o::sm(2), "\n";
