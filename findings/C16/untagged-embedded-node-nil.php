<?php
namespace U82;
function f($x) { try { switch ($x) { case 1: throw new \Exception("in switch"); default: echo "dflt,"; } } catch (\Exception $e) { echo "caught ", $e->getMessage(), ","; } finally { echo "fin;"; } }
f(0); f(1); echo "\n";
