<?php
namespace U53;
function pair(): string, int { return "abc", 123; }
$s, $n = pair();
echo $s, $n, "\n";
