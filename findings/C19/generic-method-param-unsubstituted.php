<?php
// C19 witness: a method parameter declared with the class's type parameter (`T $x`) gets the
// type "class named T" at parse time and is never substituted for the instantiation, and
// instance-method parameters are checked against their declared type at the call, so such
// a method rejects every non-null argument, including values of the instance's own argument type.
class U { public $n = 0; }
class Box<T> {
    public T $v;
    public function take(T $x) { return 1; }
}
function probe($label, $f) {
    try { $f(); echo $label, " accepted\n"; } catch (\Throwable $e) { echo $label, " rejected\n"; }
}
$a = new Box<int>();
$u = new Box<U>();
probe("Box<int>.take(5)", function() use ($a) { $a->take(5); });
probe("Box<int>.take(\"s\")", function() use ($a) { $a->take("s"); });
probe("Box<U>.take(new U())", function() use ($u) { $u->take(new U()); });
probe("Box<U>.take(5)", function() use ($u) { $u->take(5); });
