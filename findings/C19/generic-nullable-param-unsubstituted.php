<?php
// C19 witness: a method parameter declared as a NULLABLE type parameter (`?T $x`) is parsed as
// "nullable class named T" and never substituted for the instantiation, so it accepts null only
// and rejects values of the instance's own argument type.
class U { public $n = 0; }
class Box<T> {
    public T $v;
    public function keep(int $n, ?T $x) { return 1; }
}
function probe($label, $f) {
    try { $f(); echo $label, " accepted\n"; } catch (\Throwable $e) { echo $label, " rejected\n"; }
}
$a = new Box<int>();
$u = new Box<U>();
probe("Box<int>.keep(1, 5)", function() use ($a) { $a->keep(1, 5); });
probe("Box<int>.keep(1, null)", function() use ($a) { $a->keep(1, null); });
probe("Box<int>.keep(1, \"s\")", function() use ($a) { $a->keep(1, "s"); });
probe("Box<U>.keep(1, new U())", function() use ($u) { $u->keep(1, new U()); });
probe("Box<U>.keep(1, 5)", function() use ($u) { $u->keep(1, 5); });
