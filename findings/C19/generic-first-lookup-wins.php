<?php
// C19 witness: the declaration of a property typed with a class type parameter is shared by
// every instantiation of the generic class, and ClassGeneric.GetProperty overwrites its
// type with the argument of the instance through which it is first looked up. Here the
// first lookup goes through Box<int>, so Box<string> rejects strings and accepts ints.
class Box<T> {
    public T $v;
    public function set(T $x) { $this->v = $x; return 1; }
}
function probe($label, $f) {
    try { $f(); echo $label, " accepted\n"; } catch (\Throwable $e) { echo $label, " rejected\n"; }
}
$a = new Box<int>();
$b = new Box<string>();
probe("Box<int>.v = 5", function() use ($a) { $a->v = 5; });
probe("Box<int>.v = \"s\"", function() use ($a) { $a->v = "s"; });
probe("Box<string>.v = \"s\"", function() use ($b) { $b->v = "s"; });
probe("Box<string>.v = 5", function() use ($b) { $b->v = 5; });
probe("Box<string>.set(\"s\")", function() use ($b) { $b->set("s"); });
probe("Box<string>.set(5)", function() use ($b) { $b->set(5); });
