<?php
// C19: run with the -race build of the CLI (GORACE="halt_on_error=0 log_path=/tmp/r"): the detector reports
// (*ClassGeneric).Clone (initialising write of the instantiation object) against reads in
// (*ClassGeneric).GetProperty/GetValue by another coroutine that took the object from the cache of the
// same `new Box<int>()` node. Not a stdout witness: the interleaving is observed by the race detector only.
class U { public $n = 0; }
class Box<T> { public T $v; public function set(T $x) { $this->v = $x; return 1; } }
function pw($o, $val) { try { $o->v = $val; return "A"; } catch (\Throwable $e) { return "R"; } }
function work0($ch, $id) {
  $o = new Box<int>();
  $r = pw($o, 7) . pw($o, "s");
  $ch->send($id . " " . $r);
}
function work1($ch, $id) {
  $o = new Box<string>();
  $r = pw($o, 7) . pw($o, "s");
  $ch->send($id . " " . $r);
}
function start0($ch, $id) { spawn(function() use ($ch, $id) { work0($ch, $id); }); }
function start1($ch, $id) { spawn(function() use ($ch, $id) { work1($ch, $id); }); }
$ch = new Channel(20);
start0($ch, "0"); start1($ch, "1"); start0($ch, "2"); start1($ch, "3"); start0($ch, "4"); start1($ch, "5"); start0($ch, "6"); start1($ch, "7");
$i = 0;
while ($i < 8) { echo "RES ", $ch->receive(), "\n"; $i = $i + 1; }
