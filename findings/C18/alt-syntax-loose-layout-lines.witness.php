<?php
$v0 = 1;
if
($v0 > 0):
$k1 = 1;
endif;
while ($v0 > 1)
:
$v0--;
endwhile;
throw new Exception("line 11");
