<?php
$v0 = 1;
$wc = function ($wp) {
$v0 = 1;
$sc = NoSuchClass::bar();
return 1;
};
$wpad = 1;
$wc(2);
