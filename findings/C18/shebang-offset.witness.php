#!/usr/bin/env origami
<?php
$v0 = 1;
throw new Exception("line 4");
