<?php
// C13 witness (needs the harness driver, a plain CLI run only registers the routes):
//   cd /verif && ./check.sh C13 quick >/dev/null; .build/c13 script findings/C13/onerror-second-commit.php s /w
// property: the underlying connection sees at most one header commit
// observed on the unchanged tree: Commits:2 codes=[200 500] (net/http logs "superfluous response.WriteHeader call")
use Net\Http\Server;
$server = new Server('127.0.0.1', 0);
$server->onError(function ($request, $response, $error) {
    $response->status(500)->write('E');
});
$server->get('/w', function ($req, $res) {
    $res->write('a');
    throw new Exception('boom');
});
verif_server('s', $server);
