<?php
// C13 witness (needs the harness driver, a plain CLI run only registers the routes):
//   cd /verif && ./check.sh C13 quick >/dev/null; .build/c13 script findings/C13/html-default-status.php s /w
// property: the client receives the last status set before the first body byte -> 404
// observed on the unchanged tree: Status:200
use Net\Http\Server;
$server = new Server('127.0.0.1', 0);
$server->get('/w', function ($req, $res) {
    $res->status(404);
    $res->html('<p>not found</p>');
});
verif_server('s', $server);
