<?php
// docs/array_methods.md: push(4, 5), splice(1, 2, 'a', 'b'), concat($arr2, [5, 6]); unshift likewise.
$a = [1, 2, 3];
echo json_encode($a->push(4, 5)), " ", json_encode($a), "\n";
$b = [1, 2, 3];
echo json_encode($b->unshift(-1, 0)), " ", json_encode($b), "\n";
$c = [1, 2];
echo json_encode($c->concat([3, 4], [5, 6])), " ", json_encode($c), "\n";
$d = [1, 2, 3, 4, 5];
echo json_encode($d->splice(1, 2, 'a', 'b')), " ", json_encode($d), "\n";
// zero items add nothing; one list-valued item is one element
$e = [1];
echo json_encode($e->push()), " ", json_encode($e), "\n";
$f = [1];
echo json_encode($f->concat()), " ", json_encode($f), "\n";
$g = [1, 2, 3];
echo json_encode($g->splice(1, 1)), " ", json_encode($g), "\n";
$h = [1];
echo json_encode($h->push([2, 3])), " ", json_encode($h), "\n";
