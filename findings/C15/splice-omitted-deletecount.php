<?php
// splice(start, deleteCount?, ...items): without deleteCount everything from start is removed
$a = [1, 2, 3, 4, 5];
echo json_encode($a->splice(2)), " ", json_encode($a), "\n";
$b = [1, 2, 3, 4, 5];
echo json_encode($b->splice(-2)), " ", json_encode($b), "\n";
