<?php
// sort() compares as strings (docs/array_methods.md, Node.js style); Array.prototype.sort is
// stable, so 2 and "2" keep their relative order. Holds up to 12 elements, not beyond.
$a = [2, '1', 0, 2, 2, '1', 1, 2, '2', '2', 0, '2', 0, 2];
echo json_encode($a->sort()), "\n";
echo json_encode($a), "\n";
$b = [1, '1', 1, '1', 1, '1', 1, '1', 1, '1', 1, '1', 1];
echo json_encode($b->sort()), "\n";
