<?php
// docs/array_methods.md: slice(2), slice(-2), join(), flat(), reduce(callback) without initial value
$a = [1, 2, 3, 4, 5];
echo json_encode($a->slice(2)), " ", json_encode($a->slice(-2)), " ", json_encode($a->slice()), "\n";
$b = ['apple', 'banana', 'orange'];
echo json_encode($b->join()), "\n";
$c = [1, [2, 3], [4, [5, 6]]];
echo json_encode($c->flat()), "\n";
$d = [1, 2, 3, 4];
echo json_encode($d->reduce(function($acc, $cur) { return [$acc, $cur]; })), "\n";
