<?php
// substring(start, end?) swaps its arguments when start > end ("Hello World"->substring(8, 6) is "Wo");
// a start at or beyond the length must behave like the length itself
$s = "Hello World";
echo json_encode($s->substring(8, 6)), " ", json_encode($s->substring(11, 6)), " ", json_encode($s->substring(20, 6)), " ", json_encode($s->substring(11)), "\n";
