<?php
$o = json_decode(json_encode(["a" => 1e20]));
echo json_encode($o === null), "\n";
