<?php
echo unserialize("d:1.5;") + 1, "\n";
