<?php
echo json_encode(unserialize("a:1:{N;i:1;}")), "\n";
