<?php
$f = [];
$f["k"] = 1;
echo serialize($f), "\n";
