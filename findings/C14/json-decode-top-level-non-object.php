<?php
echo json_encode(json_decode("[1,2]")), "\n";
echo json_encode(json_decode("5")), "\n";
echo json_encode(json_decode("\"x\"")), "\n";
