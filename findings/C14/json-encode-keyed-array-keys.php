<?php
echo json_encode(json_decode("{\"a\":1}", true)), "\n";
$f = [];
$f["k"] = 1;
echo json_encode($f), "\n";
