<?php
try {
    $f = Protowire::parse("\x08\x01\x0c\x10\x02");
    echo "accepted ", count($f), " field(s)\n";
} catch (\Exception $e) {
    echo "rejected\n";
}
