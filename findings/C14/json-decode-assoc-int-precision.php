<?php
echo json_decode("9007199254740993", true), "\n";
echo json_decode("[9223372036854775807]", true)[0], "\n";
