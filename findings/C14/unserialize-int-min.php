<?php
echo json_encode(unserialize("i:-9223372036854775808;")), "\n";
