<?php
echo json_encode(unserialize("s:5:\"a\";")), "\n";
