<?php
$inner = Protowire::encodeTag(1, PROTOWIRE_VARINT) . Protowire::encodeVarint(7);
$data = Protowire::encodeTag(1, PROTOWIRE_LENGTH_DELIMITED) . Protowire::encodeBytes($inner);
$m = [];
$m[0] = false;
$m[1] = true;
$f = Protowire::parse($data, ['message_fields' => $m]);
echo json_encode($f[0]['value'][0]['value'] ?? 'raw bytes'), "\n";
$g = Protowire::parse($data, ['message_fields' => [false, true]]);
echo json_encode($g[0]['value'][0]['value'] ?? 'raw bytes'), "\n";
