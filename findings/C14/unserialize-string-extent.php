<?php
$a = unserialize(serialize(["a", "b"]));
echo json_encode($a), "\n";
$b = unserialize("a:1:{i:0;s:9:\"x\";}");
echo json_encode($b), "\n";
