<?php
$g = Protowire::encodeTag(10, PROTOWIRE_START_GROUP)
   . Protowire::encodeTag(11, PROTOWIRE_START_GROUP)
   . Protowire::encodeTag(1, PROTOWIRE_VARINT) . Protowire::encodeVarint(1)
   . Protowire::encodeTag(11, PROTOWIRE_END_GROUP)
   . Protowire::encodeTag(10, PROTOWIRE_END_GROUP);
try {
    Protowire::parse($g, ["max_depth" => 2]);
    echo "accepted\n";
} catch (\Exception $e) {
    echo "rejected\n";
}
