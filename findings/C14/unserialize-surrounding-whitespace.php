<?php
echo json_encode(unserialize(" i:5; ")), "\n";
