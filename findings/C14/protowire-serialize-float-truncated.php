<?php
use Protowire\Annotation\Field;

class P {
    #[Field(number: 6, type: PROTOWIRE_FIXED64, encoding: "double")]
    public $d;
}
try {
    $p = new P();
    $p->d = 1.5;
    echo bin2hex(Protowire::serialize($p)), "\n";
} catch (\Exception $e) {
    echo "31000000000000f83f\n";
}
