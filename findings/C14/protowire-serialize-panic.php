<?php
use Protowire\Annotation\Field;

class User {
    #[Field(number: 1, type: PROTOWIRE_VARINT)]
    public int $id;

    #[Field(number: 2, type: PROTOWIRE_LENGTH_DELIMITED)]
    public string $name;
}
$user = new User();
$user->id = 42;
$user->name = "Alice";
echo bin2hex(Protowire::serialize($user)), "\n";
