<?php
echo serialize(1.5), "\n";
echo serialize([0.5, 1e25]), "\n";
