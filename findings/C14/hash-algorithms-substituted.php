<?php
echo hash("sha384", "abc"), "\n";
echo hash("sha3-256", "abc"), "\n";
