<?php
echo rawurlencode("a&b=c+d"), "\n";
