#!/bin/bash
# One entry point for every property check.
#   ./check.sh <Cxx> [quick|thorough]     run the check of one property
#   ./check.sh --replay <path>            show / re-run a recorded violation
#   ./check.sh --setup                    build everything once (MANIFEST.setup_cmd)
# Environment: VERIF_SEED (default 1), VERIF_REPO (default /repo; a scratch worktree to
# check instead), VERIF_TIER (overridden by the second argument).
# Every invocation rebuilds what it needs from the repository's current working tree
# (go build is a no-op when nothing changed).
set -u
VERIF="$(cd "$(dirname "$0")" && pwd)"
export VERIF_DIR="$VERIF"
REPO="${VERIF_REPO:-/repo}"
export VERIF_REPO="$REPO"
# NB: neither GOSUMDB=off nor GOTOOLCHAIN=local: both break the offline switch to go1.25.0
export GOFLAGS=-mod=mod GOPROXY=off
unset GOSUMDB GOTOOLCHAIN 2>/dev/null || true
H="$VERIF/harness"

if [ "$REPO" = "/repo" ]; then
  BUILD="$VERIF/.build"
  MODFLAG=""
else
  tag=$(printf '%s' "$REPO" | sha1sum | cut -c1-10)
  BUILD="$VERIF/.build-$tag"
  mkdir -p "$BUILD"
  sed "s#=> /repo#=> $REPO#" "$H/go.mod" > "$BUILD/go.mod"
  cp "$H/go.sum" "$BUILD/go.sum"
  MODFLAG="-modfile=$BUILD/go.mod"
  export VERIF_MODFILE="$BUILD/go.mod"
fi
mkdir -p "$BUILD" "$VERIF/evidence" "$VERIF/.work"
export VERIF_BUILD="$BUILD"

build_to() { # out, dir, args...
  local out="$1" dir="$2"; shift 2
  local tmp="$BUILD/.tmp.$$.$(basename "$out")"
  if ! (cd "$dir" && go build -o "$tmp" "$@" 2>"$tmp.log"); then
    echo "BUILD-FAILED $(basename "$out"):" >&2; cat "$tmp.log" >&2; rm -f "$tmp" "$tmp.log"; return 1
  fi
  rm -f "$tmp.log"; mv -f "$tmp" "$out"
}
build_origami()      { build_to "$BUILD/origami" "$REPO" -tags verif .; }
build_origami_race() { build_to "$BUILD/origami-race" "$REPO" -tags verif -race .; }
build_check()        { build_to "$BUILD/$1" "$H" $MODFLAG -tags verif "./cmd/$1"; }
build_check_race()   { build_to "$BUILD/$1-race" "$H" $MODFLAG -tags verif -race "./cmd/$1"; }

# registered checks only (a package still under construction must not fail the setup)
ids() { if [ -f "$H/REGISTERED" ]; then grep -v '^#' "$H/REGISTERED" | tr 'A-Z' 'a-z'; else (cd "$H/cmd" && ls -d c[0-9][0-9] 2>/dev/null); fi; }

case "${1:-}" in
  --setup)
    rc=0
    build_origami || rc=1
    build_origami_race || rc=1
    for c in $(ids); do
      build_check "$c" || rc=1
      if grep -qw race "$H/cmd/$c/NEEDS" 2>/dev/null; then build_check_race "$c" || rc=1; fi
    done
    exit $rc ;;
  --replay)
    p="${2:?path}"
    [ -f "$p.why" ] && cat "$p.why"
    case "$p" in
      *.php|*.zy) build_origami || exit 2; echo "--- running $p"; "$BUILD/origami" "$p"; echo "--- exit $?";;
      *) echo "--- case:"; head -c 4000 "$p"; echo;;
    esac
    exit 0 ;;
  "") echo "usage: $0 <Cxx> [quick|thorough] | --replay <path> | --setup" >&2; exit 2 ;;
esac

ID="$1"; TIER="${2:-${VERIF_TIER:-quick}}"
export VERIF_TIER="$TIER"
c=$(printf '%s' "$ID" | tr 'A-Z' 'a-z')
[ -d "$H/cmd/$c" ] || { echo "no check for $ID" >&2; exit 2; }
# A build failure of the repository or of the harness against it is not a verdict on the
# property: exit 2 (inconclusive), never a VIOLATION line.
build_origami || exit 2
build_check "$c" || exit 2
if grep -qw origami-race "$H/cmd/$c/NEEDS" 2>/dev/null; then build_origami_race || exit 2; fi
if grep -qw race "$H/cmd/$c/NEEDS" 2>/dev/null; then build_check_race "$c" || exit 2; fi
cd "$VERIF"
exec "$BUILD/$c"
